#!/usr/bin/env python3
"""Regenerate MANIFEST.json from the per-property table below (kept here so the file is always valid)."""
import json, os
V = os.path.dirname(os.path.dirname(os.path.abspath(__file__)))
props = [json.loads(l) for l in open(os.path.join(V, "properties.jsonl"))]
table = json.load(open(os.path.join(V, "bin", "claims.json")))
checks, na = [], []
for p in props:
    pid = p["id"]
    c = table.get(pid)
    if not c or c.get("not_applicable"):
        na.append({"property_id": pid, "reason": (c or {}).get("not_applicable", "no check registered yet")})
        continue
    checks.append({
        "property_id": pid,
        "quick_cmd": f"bin/check {pid} --tier quick",
        "thorough_cmd": f"bin/check {pid} --tier thorough",
        "evidence_file": f"/verif/evidence/{pid}.json",
        "replay_cmd_template": f"bin/check {pid} --replay {{path}}",
        "engine": "lean4-model+correspondence",
        "level_claimed": {"category": "proof", "text": c["text"], "design_ref": c.get("design_ref", f"DESIGN.md §6 {pid}")},
        "level_note": c["note"],
        "technique": c["technique"],
    })
m = {
    "version": 1,
    "setup_cmd": "bin/setup",
    "hooks": {
        "guard": "jawk_verif",
        "enable": "none needed: jawk::go is public and generic over its reader/writers, so the harness injects chunking, faults and counters from outside; no commit in /repo uses the guard",
        "baseline_off_cmd": "cd /repo && cargo test --workspace --no-fail-fast --offline",
        "source_commits": [],
        "add_only": True,
    },
    "engines": [{
        "name": "lean4-model+correspondence",
        "path": "/verif/bin/check",
        "serves_properties": [c["property_id"] for c in checks],
        "kind_free_text": "Lean 4 theorems over a hand-written executable model of jawk (lean/Jawk/Model), kernel-checked with an axiom audit; the model is tied to /repo on every run by tables regenerated from the source (extract/) and by a correspondence run of the compiled model driver against jawk::go in-process (harness/), with implementation-side oracles to find a replay",
    }],
    "checks": checks,
    "not_applicable": na,
    "notes": "See DESIGN.md. Known findings: known_findings.json. Seeded mutants used to validate the checks: seeded/.",
}
json.dump(m, open(os.path.join(V, "MANIFEST.json"), "w"), indent=1)
print("claimed", len(checks), "not claimed", len(na))
