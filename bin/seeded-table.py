#!/usr/bin/env python3
"""seeded/README.md from seeded/*/meta.json and seeded/results.json (what bin/mutant-test reported)"""
import json, glob, os
V = os.path.dirname(os.path.dirname(os.path.abspath(__file__)))
res = json.load(open(os.path.join(V, "seeded", "results.json")))
rows = []
for f in sorted(glob.glob(os.path.join(V, "seeded", "*", "meta.json"))):
    mid = os.path.basename(os.path.dirname(f))
    m = json.load(open(f))
    r = res.get(mid, {})
    caught = "; ".join(f"`bin/check {p}`: {t}" for p, t in r.items()) or "not yet run"
    rows.append((mid, m.get("property", ""), m.get("summary", "").replace("\n", " ").replace("|", "/")[:260],
                 m.get("needs", "").replace("\n", " ").replace("|", "/")[:220], caught))
with open(os.path.join(V, "seeded", "README.md"), "w") as out:
    out.write("# Seeded changes\n\nEach directory holds `patch.diff` (against /repo HEAD at the time), `demo.sh` (rounds 1-6: exit 1 with the change, 0 without; round 7: prints what the binary does, the two outputs differ) and\n"
              "`meta.json`. Every change was written by an independent agent that saw only the property text, and was confirmed by\n"
              "`bin/confirm-mutant` / `bin/confirm-mutant2` in a scratch worktree: the 158 tests pass with it, the demonstration fails with it and passes without.\n"
              "`bin/mutant-test seeded/<id> <property>` applies it to /repo, runs the quick check, and restores /repo.\n\n"
              "| id | property | change | needs | result |\n|---|---|---|---|---|\n")
    for r in rows:
        out.write("| " + " | ".join(r) + " |\n")
print(len(rows), "seeded changes")
