#!/usr/bin/env python3
"""K1, second half: write lean/Jawk/Generated/ByteClasses.lean from what the REAL code does on every byte.

    byte_classes.py <probe.json> <syntactic.json>

<probe.json>      output of `harness probe` (the real code run on all 256 input bytes, on every ASCII byte and a
                  covering set of multi-byte characters in the three name readers of the expression parser)
<syntactic.json>  what extract_tables.py could read out of the control flow (best effort, may say "unrecognised")

The Lean tables are the probe's.  What the extractor read from the source is a cross-check only: a construct it does
not recognise, or reads differently (a rewritten `match` can be misread), is noted in the evidence and nothing more —
the probe does not depend on how the source is written, and behaviour that depended on something the probe does not
vary would show in the correspondence run.  `BYTECLASSES-PROBLEM` (exit 3) is for probe results that are not of the
expected form (a byte that is neither white space, value start nor one-byte error; a character printed in a fourth way).  Bytes 0xC0, 0xC1, 0xF5..0xFF never occur in a Rust `String`
and so cannot reach the expression parser; the stop tables list them as non-stopping by convention.
"""
import json, os, sys

OUT = os.path.join(os.path.dirname(os.path.abspath(__file__)), "..", "lean", "Jawk", "Generated", "ByteClasses.lean")
KINDS = ["true", "false", "null", "string", "number", "array", "object"]
READER_OF = {"true": "read_true", "false": "read_false", "null": "read_null", "string": "read_string",
             "number": "read_number", "array": "read_array", "object": "read_object"}


def codes(s):
    return "[" + ", ".join(str(ord(c)) for c in s) + "]"


def blist(bs):
    return "[" + ", ".join(str(x) for x in sorted(bs)) + "]"


def main():
    probe = json.load(open(sys.argv[1]))
    syn = json.load(open(sys.argv[2])) if len(sys.argv) > 2 and os.path.exists(sys.argv[2]) else {}
    problems = list(probe.get("problems", []))
    notes = []
    starts = dict((k, v) for k, v in probe["value_start"])
    if sorted(starts) != sorted(KINDS):
        problems.append("probe: unexpected value kinds " + repr(sorted(starts)))
    for key in ("whitespace", "var_stop", "fn_name_stop", "key_stop"):
        s = syn.get(key)
        if s is None:
            continue
        if isinstance(s, dict):
            notes.append(f"{key}: source construct not recognised ({s.get('unrecognised', '?')}); table from the probe only")
        elif sorted(s) != sorted(probe[key]):
            notes.append(f"{key}: the reading of the control flow ({sorted(s)}) differs from what running the code gives ({sorted(probe[key])}); the table is the latter")
    s = syn.get("value_start")
    if isinstance(s, dict):
        notes.append(f"value_start: source construct not recognised ({s.get('unrecognised', '?')}); table from the probe only")
    elif s is not None:
        by_reader = {}
        for bs, reader in s:
            by_reader.setdefault(reader, set()).update(bs)
        for k in KINDS:
            if sorted(by_reader.get(READER_OF[k], [])) != sorted(starts.get(k, [])):
                notes.append(f"value_start/{k}: the arms calling {READER_OF[k]} read as {sorted(by_reader.get(READER_OF[k], []))}, "
                             f"running the code says {sorted(starts.get(k, []))}; the table is the latter")
    # ---- the printer and the escape reader
    pr = probe["printer"]
    esc = sorted((c, l) for c, l in pr["escapes"])
    def expand(rs):
        out = set()
        for a, b in rs:
            out.update(range(a, b + 1))
        return out
    raw_a, raw_u, u4_a, u4_u = expand(pr["raw_ascii"]), expand(pr["raw_utf8"]), expand(pr["u4_ascii"]), expand(pr["u4_utf8"])
    esc_cps = set(c for c, _ in esc)
    lo, hi = (min(raw_a), max(raw_a)) if raw_a else (0, 0)
    bmp = set(c for c in range(0x10000) if not 0xD800 <= c < 0xE000)
    if raw_a | (esc_cps & set(range(lo, hi + 1))) != set(range(lo, hi + 1)):
        problems.append(f"printer: the characters written as they are without --utf8-strings are not one range minus the escapes ({pr['raw_ascii']})")
    if u4_a != bmp - raw_a - esc_cps:
        problems.append("printer: without --utf8-strings some character is neither plain, nor a two-character escape, nor \\uXXXX")
    above = hi
    if raw_u != raw_a | set(c for c in bmp if c > above) - esc_cps or u4_u != bmp - raw_u - esc_cps:
        problems.append(f"printer: with --utf8-strings the characters written as they are are not the plain range and everything above {above}")
    if not pr.get("astral_raw_utf8", False):
        problems.append("printer: with --utf8-strings a character beyond U+FFFF is not written as it is")
    pe = sorted((b, c) for b, c in probe["parse_escapes"])
    for key, mine in (("print_escapes", [[c, [92, l]] for c, l in esc]), ("parse_escapes", [[b, c] for b, c in pe]), ("print_ranges", [lo, hi, above])):
        sv = syn.get(key)
        if sv is None:
            continue
        if isinstance(sv, dict):
            notes.append(f"{key}: source construct not recognised ({sv.get('unrecognised', '?')}); table from the probe only")
        elif sorted(map(json.dumps, sv)) != sorted(map(json.dumps, mine)) if key != "print_ranges" else sv != mine:
            notes.append(f"{key}: the reading of the source ({sv}) differs from what running the code gives ({mine}); the table is the latter")
    hdr = "-- GENERATED by extract/byte_classes.py from `harness probe` (the real code run on every byte) — do not edit.\n"
    lines = [hdr, "namespace Jawk.Generated\n",
             "/-- the bytes skipped between values without any report -/",
             f"def whitespaceBytes : List Nat := {blist(probe['whitespace'])}\n",
             "/-- the bytes that cost exactly one byte and one recoverable error where a value may start -/",
             f"def garbageBytes : List Nat := {blist(probe['garbage'])}\n",
             "/-- the bytes a value can start with, by the kind of value that is then read (kind as code points) -/",
             "def valueStartKinds : List (List Nat × List Nat) := [",
             ",\n".join(f"  ({blist(starts.get(k, []))}, {codes(k)})" for k in KINDS),
             "]\n",
             "/-- the bytes that end a `:name` / `@name` -/",
             f"def varStopBytes : List Nat := {blist(probe['var_stop'])}\n",
             "/-- the bytes that end a function name -/",
             f"def fnNameStopBytes : List Nat := {blist(probe['fn_name_stop'])}\n",
             "/-- the bytes that end a bare `.key` -/",
             f"def keyStopBytes : List Nat := {blist(probe['key_stop'])}\n",
             "/-- JSON `print_string`: (character, text written) for the characters written as backslash + one character -/",
             "def printEscapeArms : List (Nat × List Nat) := [" + ", ".join(f"({c}, [92, {l}])" for c, l in esc) + "]\n",
             "/-- `read_string`: (escape letter, character denoted) -/",
             "def parseEscapeArms : List (Nat × Nat) := [" + ", ".join(f"({b}, {c})" for b, c in pe) + "]\n",
             "/-- JSON `print_string`: characters in this closed range (escapes apart) are written as they are -/",
             f"def printPlainRange : Nat × Nat := ({lo}, {hi})\n",
             "/-- JSON `print_string`: with `utf8_strings`, characters above this one are written as they are -/",
             f"def printUtf8Above : Nat := {above}\n",
             "end Jawk.Generated\n"]
    content = "\n".join(lines)
    old = open(OUT).read() if os.path.exists(OUT) else None
    if old != content:
        open(OUT, "w").write(content)
    summary = {"runs": probe.get("runs"), "changed": old != content, "notes": notes}
    if problems:
        print("BYTECLASSES-PROBLEM " + json.dumps({"problems": problems, **summary}))
        sys.exit(3)
    print("BYTECLASSES-OK " + json.dumps(summary))


if __name__ == "__main__":
    main()
