#!/usr/bin/env python3
"""K1: regenerate lean/Jawk/Generated/*.lean from /repo/src.

Reads the Rust sources with a small tokenizer (string literals, raw strings,
comments, balanced parentheses) and copies literals out:
  * the function table (name, aliases, min, max) and the documentation examples,
  * TextOutputOptions::csv() / default(), JsonOutputOptions::default(),
  * the two-character escape arms of print_string and read_string,
  * clap defaults mentioned by theorems (row separator, on_error, skip ...).
Files are rewritten only when their content changes.  If a construct is not found
the script exits 3 and names it: that is treated like a broken correspondence.
"""
import os, re, sys, json

REPO = os.environ.get("JAWK_REPO", "/repo")
OUT = os.path.join(os.path.dirname(os.path.abspath(__file__)), "..", "lean", "Jawk", "Generated")


class ExtractError(Exception):
    pass


def tokenize(src):
    """Return list of tokens: ('str', value) | ('sym', text) | ('id', text) | ('num', text)."""
    toks = []
    i, n = 0, len(src)
    while i < n:
        c = src[i]
        if c.isspace():
            i += 1
            continue
        if src.startswith("//", i):
            j = src.find("\n", i)
            i = n if j < 0 else j
            continue
        if src.startswith("/*", i):
            j = src.find("*/", i)
            i = n if j < 0 else j + 2
            continue
        # raw string r"..." / r#"..."#
        m = re.match(r'b?r(#*)"', src[i:])
        if m:
            hashes = m.group(1)
            start = i + m.end()
            end = src.find('"' + hashes, start)
            if end < 0:
                raise ExtractError("unterminated raw string")
            toks.append(("str", src[start:end]))
            i = end + 1 + len(hashes)
            continue
        if c == '"' or (c == 'b' and i + 1 < n and src[i + 1] == '"'):
            if c == 'b':
                i += 1
            i += 1
            out = []
            while src[i] != '"':
                if src[i] == '\\':
                    e = src[i + 1]
                    if e == 'n':
                        out.append('\n'); i += 2
                    elif e == 't':
                        out.append('\t'); i += 2
                    elif e == 'r':
                        out.append('\r'); i += 2
                    elif e == '0':
                        out.append('\0'); i += 2
                    elif e == '\\':
                        out.append('\\'); i += 2
                    elif e == '"':
                        out.append('"'); i += 2
                    elif e == "'":
                        out.append("'"); i += 2
                    elif e == 'x':
                        out.append(chr(int(src[i + 2:i + 4], 16))); i += 4
                    elif e == 'u':
                        j = src.index('}', i)
                        out.append(chr(int(src[i + 3:j], 16))); i = j + 1
                    elif e == '\n':
                        i += 2
                        while src[i].isspace():
                            i += 1
                    else:
                        raise ExtractError("unknown escape \\" + e)
                else:
                    out.append(src[i]); i += 1
            i += 1
            toks.append(("str", "".join(out)))
            continue
        if c == "'" or (c == 'b' and i + 1 < n and src[i + 1] == "'"):
            # char / byte literal or lifetime
            k = i + (1 if c == 'b' else 0)
            m = re.match(r"'(\\x[0-9a-fA-F]{2}|\\u\{[0-9a-fA-F]+\}|\\.|[^'\\])'", src[k:])
            if m:
                body = m.group(1)
                if body.startswith('\\x'):
                    val = chr(int(body[2:], 16))
                elif body.startswith('\\u'):
                    val = chr(int(body[3:-1], 16))
                elif body.startswith('\\'):
                    val = {'n': '\n', 't': '\t', 'r': '\r', '0': '\0', '\\': '\\', '"': '"', "'": "'"}[body[1]]
                else:
                    val = body
                toks.append(("chr", val))
                i = k + m.end()
                continue
            # lifetime
            m = re.match(r"'[A-Za-z_][A-Za-z0-9_]*", src[i:])
            if m:
                toks.append(("id", m.group(0)))
                i += m.end()
                continue
        m = re.match(r"[A-Za-z_][A-Za-z0-9_]*", src[i:])
        if m:
            toks.append(("id", m.group(0)))
            i += m.end()
            continue
        m = re.match(r"[0-9][0-9_]*(\.[0-9]+)?", src[i:])
        if m:
            toks.append(("num", m.group(0)))
            i += m.end()
            continue
        toks.append(("sym", c))
        i += 1
    return toks


def find_seq(toks, seq, start=0):
    """find index of token sequence of (kind,text) / text matches"""
    L = len(seq)
    for i in range(start, len(toks) - L + 1):
        if all(toks[i + k][1] == seq[k] and toks[i + k][0] != "str" for k in range(L)):
            return i
    return -1


def matching_paren(toks, i):
    """toks[i] is '(' -> index of matching ')'"""
    depth = 0
    pairs = {'(': ')', '[': ']', '{': '}'}
    opens = set(pairs)
    closes = set(pairs.values())
    for j in range(i, len(toks)):
        k, t = toks[j]
        if k == "sym" and t in opens:
            depth += 1
        elif k == "sym" and t in closes:
            depth -= 1
            if depth == 0:
                return j
    raise ExtractError("unbalanced parentheses")


# ----------------------------------------------------------------------------- functions

def function_files():
    base = os.path.join(REPO, "src", "functions")
    for root, _, files in sorted(os.walk(base)):
        for f in sorted(files):
            if f.endswith(".rs"):
                yield os.path.join(root, f)


def extract_functions():
    funcs = []
    for path in function_files():
        toks = tokenize(open(path).read())
        pos = 0
        while True:
            i = find_seq(toks, ["FunctionDefinitions", ":", ":", "new", "("], pos)
            if i < 0:
                break
            j = i + 5
            if toks[j][0] != "str":
                raise ExtractError(f"{path}: FunctionDefinitions::new without literal name")
            name = toks[j][1]
            # min
            def read_count(k):
                if toks[k][0] == "num":
                    return int(toks[k][1]), k + 1
                if toks[k][1] == "usize" and toks[k + 3][1] == "MAX":
                    return None, k + 4
                raise ExtractError(f"{path}: cannot read argument count of {name}")
            mn, k = read_count(j + 2)
            mx, k = read_count(k + 1)
            if mn is None:
                raise ExtractError(f"{path}: min args of {name}")
            end_new = matching_paren(toks, i + 4)
            # chained calls after new(...)
            aliases, examples = [], []
            k = end_new + 1
            while k + 1 < len(toks) and toks[k][1] == "." and toks[k + 1][0] == "id":
                meth = toks[k + 1][1]
                if toks[k + 2][1] != "(":
                    break
                close = matching_paren(toks, k + 2)
                inner = toks[k + 3:close]
                if meth == "add_alias":
                    if len(inner) < 1 or inner[0][0] != "str":
                        raise ExtractError(f"{path}: alias of {name} is not a literal")
                    aliases.append(inner[0][1])
                elif meth == "add_example":
                    examples.append(parse_example(inner, path, name))
                k = close + 1
            funcs.append({"name": name, "aliases": aliases, "min": mn, "max": mx,
                          "examples": examples, "file": os.path.relpath(path, REPO)})
            pos = end_new
    if len(funcs) < 50:
        raise ExtractError("function table: fewer than 50 FunctionDefinitions::new found")
    return funcs


def parse_example(inner, path, fname):
    # Example::new() .input("..") .add_argument("..") .expected_output("..") .validate_output(..) .expected_json(..) .explain("..") .more_or_less()
    ex = {"input": None, "args": [], "expect": "nothing", "literal": True}
    k = 0
    while k < len(inner):
        if inner[k][1] == "." and k + 2 < len(inner) and inner[k + 1][0] == "id" and inner[k + 2][1] == "(":
            meth = inner[k + 1][1]
            close = matching_paren(inner, k + 2)
            body = inner[k + 3:close]
            if meth == "input":
                ex["input"] = body[0][1]
            elif meth == "add_argument":
                if body[0][0] != "str":
                    raise ExtractError(f"{path}: example argument of {fname} is not a literal")
                ex["args"].append(body[0][1])
            elif meth == "expected_output":
                ex["expect"] = body[0][1]
            elif meth in ("validate_output", "expected_json"):
                ex["literal"] = False
            elif meth == "more_or_less":
                pass
            k = close + 1
        else:
            k += 1
    return ex


# ----------------------------------------------------------------------------- output_style literals

def struct_literal_fields(toks, start):
    """toks[start] is '{' of `Self { a: expr, ... }` -> dict field -> token list"""
    end = matching_paren(toks, start)
    fields = {}
    k = start + 1
    while k < end:
        if toks[k][0] == "id" and toks[k + 1][1] == ":" and toks[k + 2][1] != ":":
            name = toks[k][1]
            # read until top-level comma
            depth = 0
            j = k + 2
            expr = []
            while j < end:
                kind, t = toks[j]
                if kind == "sym" and t in "([{":
                    depth += 1
                elif kind == "sym" and t in ")]}":
                    depth -= 1
                elif kind == "sym" and t == "," and depth == 0:
                    break
                expr.append(toks[j])
                j += 1
            fields[name] = expr
            k = j + 1
        else:
            k += 1
    return fields


def expr_value(expr):
    """literal value of simple field expressions"""
    if not expr:
        raise ExtractError("empty expression")
    if expr[0][0] == "str":
        return expr[0][1]
    texts = [t for _, t in expr]
    if texts[:4] == ["String", ":", ":", "new"]:
        return ""
    if texts[0] in ("true", "false"):
        return texts[0] == "true"
    if texts[0] == "None":
        return None
    if texts[0] == "vec" and texts[1] == "!":
        return [t for k, t in expr if k == "str"]
    if texts[0] == "JsonStyle":
        return texts[3]
    raise ExtractError("unsupported literal expression: " + " ".join(texts))


def extract_output_style():
    toks = tokenize(open(os.path.join(REPO, "src", "output_style.rs")).read())

    def fn_self_literal(fn_name, owner_hint):
        pos = 0
        while True:
            i = find_seq(toks, ["fn", fn_name, "("], pos)
            if i < 0:
                raise ExtractError(f"output_style.rs: fn {fn_name} for {owner_hint} not found")
            # find 'Self' '{' after
            j = find_seq(toks, ["Self", "{"], i)
            if j < 0:
                raise ExtractError(f"output_style.rs: Self literal in {fn_name}")
            fields = struct_literal_fields(toks, j + 1)
            if owner_hint in fields:
                return {k: expr_value(v) for k, v in fields.items()}
            pos = i + 1

    csv = fn_self_literal("csv", "items_seperator")
    text_default = fn_self_literal("default", "items_seperator")
    json_default = fn_self_literal("default", "utf8_strings")

    # print_string escape arms:  '\"' => write!(f, "\\\"")?,
    i = find_seq(toks, ["fn", "print_string"], find_seq(toks, ["for", "JsonOutputOptions"]))
    end = find_seq(toks, ["fn", "print_object"], i) if i >= 0 else -1
    arms = []
    k = i if i >= 0 and end >= 0 else 0
    if i < 0 or end < 0:
        end = 0
    while k < end:
        if toks[k][0] == "chr" and toks[k + 1][1] == "=" and toks[k + 2][1] == ">" and toks[k + 3][1] == "write":
            close = matching_paren(toks, k + 5)
            lits = [t for kk, t in toks[k + 5:close] if kk == "str"]
            arms.append((toks[k][1], lits[0]))
            k = close
        k += 1
    if len(arms) < 5:
        arms = None  # not recognised (best effort: the tables come from the probe)
    return csv, text_default, json_default, arms


def extract_parser_escapes():
    toks = tokenize(open(os.path.join(REPO, "src", "json_parser.rs")).read())
    i = find_seq(toks, ["fn", "read_string"], find_seq(toks, ["impl", "<", "R"]))
    if i < 0:
        raise ExtractError("json_parser.rs: read_string not found")
    end = find_seq(toks, ["fn", "parse_to_double"], i)
    arms = []
    k = i
    while k < end:
        # Some(b'n') => chars.push(b'\n') | chars.push(0x08)
        if (toks[k][1] == "Some" and toks[k + 1][1] == "(" and toks[k + 2][0] == "chr" and toks[k + 3][1] == ")"
                and toks[k + 4][1] == "=" and toks[k + 5][1] == ">" and toks[k + 6][1] == "chars" and toks[k + 8][1] == "push"):
            arg = toks[k + 10]
            if arg[0] == "chr":
                val = ord(arg[1])
            elif arg[0] == "num":
                # hex literal like 0x08 is tokenised as num '0' + id 'x08'
                nxt = toks[k + 11]
                val = int(nxt[1][1:], 16) if nxt[0] == "id" and nxt[1].startswith("x") else int(arg[1])
            else:
                raise ExtractError("json_parser.rs: unsupported escape arm")
            arms.append((toks[k + 2][1], val))
        k += 1
    if len(arms) < 5:
        raise ExtractError("json_parser.rs: escape arms of read_string not found")
    return arms


def extract_cli_defaults():
    src = open(os.path.join(REPO, "src", "lib.rs")).read()
    toks = tokenize(src)
    out = {}
    m = find_seq(toks, ["enum", "OnError"])
    if m < 0:
        raise ExtractError("lib.rs: enum OnError")
    close = matching_paren(toks, m + 2)
    out["on_error_variants"] = [t for k, t in toks[m + 3:close] if k == "id" and t[0].isupper()]
    # on_error default
    mm = re.search(r"default_value_t\s*=\s*OnError::(\w+)", src)
    if not mm:
        raise ExtractError("lib.rs: on_error default")
    out["on_error_default"] = mm.group(1)
    mm = re.search(r"default_value_t\s*=\s*(\d+)\)\]\s*skip", src)
    if not mm:
        raise ExtractError("lib.rs: skip default")
    out["skip_default"] = int(mm.group(1))
    src2 = open(os.path.join(REPO, "src", "output_style.rs")).read()
    toks2 = tokenize(src2)
    i = find_seq(toks2, ["row_seperator", ":", "String"])
    if i < 0:
        raise ExtractError("output_style.rs: row_seperator")
    # walk back to the preceding default_value = "<lit>"
    j = i
    while j > 0 and not (toks2[j][1] == "default_value" and toks2[j + 1][1] == "="):
        j -= 1
    out["row_separator_default"] = toks2[j + 2][1]
    return out


# ----------------------------------------------------------------------------- byte classes

# Rust std `u8::is_ascii_*` predicates as byte sets (std semantics; part of the trusted translator)
STD_PREDS = {
    "is_ascii_whitespace": {0x20, 0x09, 0x0A, 0x0C, 0x0D},
    "is_ascii_control": set(range(0, 32)) | {127},
    "is_ascii_digit": set(range(48, 58)),
    "is_ascii_alphabetic": set(range(65, 91)) | set(range(97, 123)),
    "is_ascii_alphanumeric": set(range(48, 58)) | set(range(65, 91)) | set(range(97, 123)),
    "is_ascii_uppercase": set(range(65, 91)),
    "is_ascii_lowercase": set(range(97, 123)),
    "is_ascii_hexdigit": set(range(48, 58)) | set(range(65, 71)) | set(range(97, 103)),
    "is_ascii_punctuation": set(range(33, 48)) | set(range(58, 65)) | set(range(91, 97)) | set(range(123, 127)),
    "is_ascii_graphic": set(range(33, 127)),
    "is_ascii": set(range(0, 128)),
}


def fn_body(toks, name, what, start=0):
    """token span (open brace index, close brace index) of `fn name`"""
    i = find_seq(toks, ["fn", name], start)
    if i < 0:
        raise ExtractError(f"{what}: fn {name} not found")
    j = i
    while toks[j][1] != "{" or toks[j][0] != "sym":
        j += 1
    return j, matching_paren(toks, j)


def byte_pattern(toks, k, end, what):
    """parse `b'a' | b'0'..=b'9' | ...` starting at k -> (set of bytes, index after)"""
    out = set()
    while True:
        if toks[k][0] != "chr":
            raise ExtractError(f"{what}: byte literal expected in pattern, found {toks[k][1]!r}")
        lo = ord(toks[k][1])
        k += 1
        if toks[k][1] == "." and toks[k + 1][1] == "." and toks[k + 2][1] == "=":
            if toks[k + 3][0] != "chr":
                raise ExtractError(f"{what}: range end expected")
            hi = ord(toks[k + 3][1])
            out |= set(range(lo, hi + 1))
            k += 4
        elif toks[k][1] == "." and toks[k + 1][1] == ".":
            if toks[k + 2][0] != "chr":
                raise ExtractError(f"{what}: range end expected")
            out |= set(range(lo, ord(toks[k + 2][1])))
            k += 3
        else:
            out.add(lo)
        if toks[k][1] == "|" and k < end:
            k += 1
            continue
        return out, k


def some_arm(toks, k, end, what):
    """toks[k] == 'Some', toks[k+1] == '(' : the byte set the arm matches (pattern or guard) and
    the index of the `=>`; `None` for a catch-all binding without guard."""
    close = matching_paren(toks, k + 1)
    if toks[k + 2][0] == "chr":
        bs, kk = byte_pattern(toks, k + 2, close, what)
        if kk != close:
            raise ExtractError(f"{what}: unsupported pattern")
        arrow = close + 1
        if toks[arrow][1] == "if":
            raise ExtractError(f"{what}: guard on a literal pattern is not supported")
        return bs, arrow
    if toks[k + 2][0] == "id" and close == k + 3:
        var = toks[k + 2][1]
        arrow = close + 1
        if toks[arrow][1] != "if":
            return None, arrow
        # guard: disjunction of var.pred() / var == b'x' / matches!(var, pat)
        j = arrow + 1
        e = j
        while not (toks[e][1] == "=" and toks[e + 1][1] == ">"):
            e += 1
        return condition_bytes(toks, j, e, var, what), e
    raise ExtractError(f"{what}: unsupported Some(..) arm")


def condition_bytes(toks, j, e, var, what):
    """`var.is_ascii_x() || var == b'c' || ...` between j and e -> byte set"""
    out = set()
    while j < e:
        if toks[j][1] == "|":
            j += 1
            continue
        if toks[j][1] == var and toks[j + 1][1] == "." and toks[j + 3][1] == "(" and toks[j + 4][1] == ")":
            pred = toks[j + 2][1]
            if pred not in STD_PREDS:
                raise ExtractError(f"{what}: unknown byte predicate {pred}")
            out |= STD_PREDS[pred]
            j += 5
        elif toks[j][1] == var and toks[j + 1][1] == "=" and toks[j + 2][1] == "=" and toks[j + 3][0] == "chr":
            out.add(ord(toks[j + 3][1]))
            j += 4
        elif toks[j][1] == "matches" and toks[j + 1][1] == "!" and toks[j + 3][1] == var and toks[j + 4][1] == ",":
            close = matching_paren(toks, j + 2)
            bs, kk = byte_pattern(toks, j + 5, close, what)
            if kk != close:
                raise ExtractError(f"{what}: unsupported matches! pattern")
            out |= bs
            j = close + 1
        else:
            raise ExtractError(f"{what}: unsupported condition near {' '.join(t for _, t in toks[j:j + 6])!r}")
    return out


def extract_byte_classes():
    """Best effort, class by class: a recognised construct gives its byte set, an unrecognised one a note.
    The authoritative tables come from running the code on every byte (`harness probe`); these are the
    cross-check, and the source of the reader names of `next_json_value`."""
    out = {}

    def attempt(key, fn):
        try:
            out[key] = fn()
        except ExtractError as e:
            out[key] = {"unrecognised": str(e)}
        except IndexError:
            out[key] = {"unrecognised": "token stream ended inside the construct"}

    def ws():
        # Reader::eat_whitespace: the arm that calls next()
        toks = tokenize(open(os.path.join(REPO, "src", "reader.rs")).read())
        b, e = fn_body(toks, "eat_whitespace", "reader.rs")
        k = find_seq(toks, ["Some", "("], b)
        if k < 0 or k > e:
            # `while matches!(self.peek()?, Some(b' ' | ..))`-style
            raise ExtractError("reader.rs: eat_whitespace has no Some(..) arm")
        bs, arrow = some_arm(toks, k, e, "reader.rs eat_whitespace")
        if bs is None:
            raise ExtractError("reader.rs: eat_whitespace arm matches every byte")
        return sorted(bs)

    def var_stop():
        toks = tokenize(open(os.path.join(REPO, "src", "variables_extractor.rs")).read())
        k = find_seq(toks, ["None", "|", "Some", "("])
        if k < 0:
            raise ExtractError("variables_extractor.rs: `None | Some(..)` stop arm not found")
        bs, arrow = some_arm(toks, k + 2, len(toks), "variables_extractor.rs name loop")
        if bs is None:
            raise ExtractError("variables_extractor.rs: stop arm matches every byte")
        return sorted(bs)

    def cond(file, fn):
        def f():
            toks = tokenize(open(os.path.join(REPO, "src", file)).read())
            b, e = fn_body(toks, fn, file)
            k = find_seq(toks, ["Some", "("], b)
            if k < 0 or k > e or toks[k + 2][0] != "id":
                raise ExtractError(f"{file}: {fn}: Some(ch) arm not found")
            var = toks[k + 2][1]
            i = find_seq(toks, ["if"], k)
            if i < 0 or i > e:
                raise ExtractError(f"{file}: {fn}: stop condition not found")
            j = i + 1
            c = j
            while not (toks[c][0] == "sym" and toks[c][1] == "{"):
                c += 1
            if [t for _, t in toks[c + 1:c + 3]] != ["break", ";"]:
                raise ExtractError(f"{file}: {fn}: the condition does not guard a break")
            return sorted(condition_bytes(toks, j, c, var, f"{file} {fn}"))
        return f

    def value_start():
        toks = tokenize(open(os.path.join(REPO, "src", "json_parser.rs")).read())
        b, e = fn_body(toks, "next_json_value", "json_parser.rs", find_seq(toks, ["impl", "<", "R", ":", "Read", ">", "JsonParser"]))
        arms = []
        k = b
        while True:
            k = find_seq(toks, ["Some", "("], k + 1)
            if k < 0 or k > e:
                break
            if toks[k - 1][1] == "(" and toks[k - 2][1] == "Ok":
                continue  # the Ok(Some(..)) of a result
            bs, arrow = some_arm(toks, k, e, "json_parser.rs next_json_value")
            if bs is None:
                break  # Some(ch) => error arm: everything else
            seg = toks[arrow:arrow + 16]
            readers = [seg[q + 2][1] for q in range(len(seg) - 3)
                       if seg[q][1] == "self" and seg[q + 1][1] == "." and seg[q + 2][1].startswith("read_")]
            if len(readers) != 1:
                raise ExtractError("json_parser.rs: next_json_value arm without a single read_* call")
            arms.append([sorted(bs), readers[0]])
            k = arrow
        if len(arms) < 5:
            raise ExtractError("json_parser.rs: dispatch arms of next_json_value not found")
        return arms

    attempt("whitespace", ws)
    attempt("var_stop", var_stop)
    attempt("fn_name_stop", cond("selection.rs", "read_function_name"))
    attempt("key_stop", cond("extractor.rs", "read_extract_key"))
    attempt("value_start", value_start)
    return out


def extract_print_ranges():
    """JSON print_string: the range printed as is and the threshold of the utf8 option"""
    toks = tokenize(open(os.path.join(REPO, "src", "output_style.rs")).read())
    i = find_seq(toks, ["fn", "print_string"], find_seq(toks, ["for", "JsonOutputOptions"]))
    if i < 0:
        raise ExtractError("output_style.rs: JSON print_string not found")
    end = find_seq(toks, ["fn", "print_object"], i)
    k = find_seq(toks, [".", ".", "="], i)
    if k < 0 or k > end or toks[k - 1][0] != "chr" or toks[k + 3][0] != "chr" or toks[k - 2][1] != "(" \
            or [t for _, t in toks[k + 4:k + 7]] != [")", ".", "contains"]:
        raise ExtractError("output_style.rs: print_string plain range `(' '..='~').contains` not found")
    lo, hi = ord(toks[k - 1][1]), ord(toks[k + 3][1])
    u = find_seq(toks, ["utf8_strings", "&", "&"], k)
    if u < 0 or u > end or toks[u + 4][1] != ">" or toks[u + 5][0] != "chr" or toks[u + 3][0] != "id":
        raise ExtractError("output_style.rs: print_string `utf8_strings && ch > '~'` not found")
    above = ord(toks[u + 5][1])
    # the fallback format
    fmt = [t for kk, t in toks[u:end] if kk == "str"]
    if "\\u{:04x}" not in fmt:
        raise ExtractError("output_style.rs: print_string \\u{:04x} fallback not found")
    return lo, hi, above


# ----------------------------------------------------------------------------- command line

def struct_fields_with_attrs(toks, struct_name, what):
    """[(field name, type text, [attribute token lists])] of `struct struct_name { .. }`"""
    i = find_seq(toks, ["struct", struct_name, "{"])
    if i < 0:
        raise ExtractError(f"{what}: struct {struct_name} not found")
    end = matching_paren(toks, i + 2)
    out, attrs = [], []
    k = i + 3
    while k < end:
        if toks[k][1] == "#" and toks[k + 1][1] == "[":
            close = matching_paren(toks, k + 1)
            attrs.append(toks[k + 2:close])
            k = close + 1
            continue
        if toks[k][1] == "pub":
            k += 1
            continue
        if toks[k][0] == "id" and toks[k + 1][1] == ":":
            name = toks[k][1]
            j = k + 2
            depth = 0
            ty = []
            while j < end:
                t = toks[j][1]
                if toks[j][0] == "sym" and t == "<":
                    depth += 1
                elif toks[j][0] == "sym" and t == ">":
                    depth -= 1
                elif toks[j][0] == "sym" and t == "," and depth == 0:
                    break
                ty.append(t)
                j += 1
            out.append((name, "".join(ty), attrs))
            attrs = []
            k = j + 1
            continue
        k += 1
    return out


def enum_variants_kebab(toks, enum_name, what):
    i = find_seq(toks, ["enum", enum_name, "{"])
    if i < 0:
        raise ExtractError(f"{what}: enum {enum_name} not found")
    end = matching_paren(toks, i + 2)
    out = []
    k = i + 3
    while k < end:
        if toks[k][1] == "#" and toks[k + 1][1] == "[":
            k = matching_paren(toks, k + 1) + 1
            continue
        if toks[k][0] == "id" and toks[k][1][0].isupper():
            v = toks[k][1]
            out.append(re.sub(r"(?<!^)([A-Z])", r"-\1", v).lower())
        k += 1
    return out


def extract_cli_options():
    """the options of the command line: (long name + visible aliases, kind) in declaration order"""
    opts = []
    for file, structs in (("lib.rs", ["Cli"]), ("output_style.rs", ["OutputOptions", "JsonOutputOptions", "TextOutputOptions"])):
        toks = tokenize(open(os.path.join(REPO, "src", file)).read())
        for st in structs:
            for name, ty, attrs in struct_fields_with_attrs(toks, st, file):
                arg = [a for a in attrs if a and a[0][1] == "arg"]
                if not arg:
                    continue
                a = arg[0]
                texts = [t for _, t in a]
                if "long" not in texts:
                    raise ExtractError(f"{file}: option {name} has no long name")
                names = [name.replace("_", "-")]
                for q in range(len(a) - 2):
                    if a[q][1] in ("visible_alias", "alias") and a[q + 1][1] == "=" and a[q + 2][0] == "str":
                        names.append(a[q + 2][1])
                    if a[q][1] == "long" and a[q + 1][1] == "=" and a[q + 2][0] == "str":
                        names[0] = a[q + 2][1]
                short = None
                for q in range(len(a)):
                    if a[q][1] == "short" and a[q][0] == "id":
                        if q + 2 < len(a) and a[q + 1][1] == "=" and a[q + 2][0] == "chr":
                            short = a[q + 2][1]
                        else:
                            short = name[0]        # clap derives the short name from the field's first character
                if ty == "bool":
                    kind = 0
                elif ty.startswith("Vec<"):
                    kind = 2
                elif ty.startswith("Option<Option<"):
                    kind = 3
                else:
                    kind = 1
                opts.append((names, kind, ty, short))
    if len(opts) < 20:
        raise ExtractError("command line: fewer than 20 options found")
    toks = tokenize(open(os.path.join(REPO, "src", "lib.rs")).read())
    toks2 = tokenize(open(os.path.join(REPO, "src", "output_style.rs")).read())
    enums = {"on_error": enum_variants_kebab(toks, "OnError", "lib.rs"),
             "output_style": enum_variants_kebab(toks2, "OutputStyle", "output_style.rs"),
             "json_style": enum_variants_kebab(toks2, "JsonStyle", "output_style.rs")}
    return opts, enums


# ----------------------------------------------------------------------------- emit Lean

def lean_str(s):
    out = ['"']
    for ch in s:
        o = ord(ch)
        if ch == '"':
            out.append('\\"')
        elif ch == '\\':
            out.append('\\\\')
        elif ch == '\n':
            out.append('\\n')
        elif ch == '\t':
            out.append('\\t')
        elif ch == '\r':
            out.append('\\r')
        elif o < 32 or o == 127:
            out.append('\\x%02x' % o)
        else:
            out.append(ch)
    out.append('"')
    return "".join(out)


def codes(s):
    return "[" + ", ".join(str(ord(c)) for c in s) + "]"


def write_if_changed(path, content):
    old = None
    if os.path.exists(path):
        old = open(path).read()
    if old != content:
        os.makedirs(os.path.dirname(path), exist_ok=True)
        open(path, "w").write(content)
        return True
    return False


def main():
    failed = {}

    def attempt(name, fn):
        try:
            return fn()
        except ExtractError as e:
            failed[name] = str(e)
        except IndexError:
            failed[name] = "token stream ended inside the construct"
        return None

    funcs = attempt("functions", extract_functions)
    style = attempt("output_style", extract_output_style)
    csv, text_default, json_default, print_arms = style if style is not None else (None, None, None, None)
    parse_arms_note = print_ranges_note = ""
    try:
        parse_arms = extract_parser_escapes()
    except (ExtractError, IndexError) as e:
        parse_arms = None
        parse_arms_note = str(e)
    cli = attempt("cli_defaults", extract_cli_defaults)
    bc = extract_byte_classes()
    co = attempt("cli_options", extract_cli_options)
    cli_opts, cli_enums = co if co is not None else (None, None)
    try:
        plain_lo, plain_hi, utf8_above = extract_print_ranges()
    except (ExtractError, IndexError) as e:
        plain_lo = plain_hi = utf8_above = None
        print_ranges_note = str(e)

    hdr = "-- GENERATED by extract/extract_tables.py from /repo/src — do not edit.\n"
    ch1 = ch2 = False
    skipped = 0
    allnames = []
    if funcs is not None:
        # FunctionTable
        lines = [hdr, "namespace Jawk.Generated\n",
                 "/-- (name, aliases, min args, max args; `none` = `usize::MAX`) -/",
                 "def functionTable : List (String × List String × Nat × Option Nat) := ["]
        rows = []
        for f in funcs:
            mx = "none" if f["max"] is None else f"some {f['max']}"
            al = "[" + ", ".join(lean_str(a) for a in f["aliases"]) + "]"
            rows.append(f"  ({lean_str(f['name'])}, {al}, {f['min']}, {mx})")
        lines.append(",\n".join(rows))
        lines.append("]\n")
        lines.append("/-- every name and alias as code points (kernel-reducible form of `functionTable`) -/")
        lines.append("def functionNameCodes : List (List Nat) := [")
        allnames = []
        for f in funcs:
            allnames.append(f["name"])
            allnames.extend(f["aliases"])
        lines.append(",\n".join("  " + codes(n) for n in allnames))
        lines.append("]\n")
        lines.append("/-- (name codes, number of aliases, min, max) per function, kernel-reducible -/")
        lines.append("def functionSigCodes : List (List Nat × Nat × Nat × Option Nat) := [")
        lines.append(",\n".join(
            f"  ({codes(f['name'])}, {len(f['aliases'])}, {f['min']}, " + ("none" if f["max"] is None else f"some {f['max']}") + ")"
            for f in funcs))
        lines.append("]\n")
        lines.append("end Jawk.Generated\n")
        ch1 = write_if_changed(os.path.join(OUT, "FunctionTable.lean"), "\n".join(lines))

        # DocExamples
        lines = [hdr, "namespace Jawk.Generated\n",
                 "/-- (function, input, arguments, expected; `none` = nothing) — examples with a literal expectation -/",
                 "def docExamples : List (String × Option String × List String × Option String) := ["]
        rows = []
        skipped = 0
        for f in funcs:
            for ex in f["examples"]:
                if not ex["literal"]:
                    skipped += 1
                    continue
                inp = "none" if ex["input"] is None else "some " + lean_str(ex["input"])
                args = "[" + ", ".join(lean_str(a) for a in ex["args"]) + "]"
                exp = "none" if ex["expect"] == "nothing" else "some " + lean_str(ex["expect"])
                rows.append(f"  ({lean_str(f['name'])}, {inp}, {args}, {exp})")
        lines.append(",\n".join(rows))
        lines.append("]\n")
        lines.append(f"def docExamplesSkipped : Nat := {skipped}\n")
        lines.append("end Jawk.Generated\n")
        ch2 = write_if_changed(os.path.join(OUT, "DocExamples.lean"), "\n".join(lines))

    ch3 = False
    if style is not None and cli is not None:
        # Presets
        def text_opts(name, d):
            miss = "none" if d["missing_value_keyword"] is None else "some " + codes(d["missing_value_keyword"])
            esc = "[" + ", ".join(codes(e) for e in d["escape_sequance"]) + "]"
            return (f"def {name} : List Nat × List Nat × List Nat × Bool × List (List Nat) × List Nat × List Nat × List Nat × Option (List Nat) :=\n"
                    f"  ({codes(d['items_seperator'])}, {codes(d['string_prefix'])}, {codes(d['string_postfix'])}, "
                    f"{'true' if d['headers'] else 'false'}, {esc}, {codes(d['null_keyword'])}, {codes(d['true_keyword'])}, "
                    f"{codes(d['false_keyword'])}, {miss})\n")
        lines = [hdr, "namespace Jawk.Generated\n",
                 "/-- (items separator, string prefix, string postfix, headers, escape sequences, null, true, false, missing) as code points -/",
                 text_opts("csvPresetCodes", csv),
                 text_opts("textDefaultCodes", text_default),
                 f"def jsonDefaultStyle : String := {lean_str(json_default['style'])}",
                 f"def jsonDefaultUtf8 : Bool := {'true' if json_default['utf8_strings'] else 'false'}\n",

                 "def onErrorVariants : List String := [" + ", ".join(lean_str(v) for v in cli["on_error_variants"]) + "]",
                 f"def onErrorDefault : String := {lean_str(cli['on_error_default'])}",
                 f"def skipDefault : Nat := {cli['skip_default']}",
                 f"def rowSeparatorDefault : List Nat := {codes(cli['row_separator_default'])}\n",
                 "end Jawk.Generated\n"]
        ch3 = write_if_changed(os.path.join(OUT, "Presets.lean"), "\n".join(lines))
    # byte classes read from the control flow: cross-check material for extract/byte_classes.py
    syn_path = os.environ.get("BYTECLASSES_SYNTACTIC", os.path.join(OUT, "..", "..", "..", "build", "byteclasses-syntactic.json"))
    os.makedirs(os.path.dirname(syn_path), exist_ok=True)
    bc["print_escapes"] = ([[ord(c), [ord(x) for x in t]] for c, t in print_arms] if print_arms is not None
                           else {"unrecognised": "escape arms of the JSON print_string"})
    bc["parse_escapes"] = ([[ord(c), v] for c, v in parse_arms] if parse_arms is not None else {"unrecognised": parse_arms_note})
    bc["print_ranges"] = ([plain_lo, plain_hi, utf8_above] if plain_lo is not None else {"unrecognised": print_ranges_note})
    open(syn_path, "w").write(json.dumps(bc, indent=1))
    ch5 = False
    ch6 = False
    if cli_opts is not None:
        # command line options
        def clist(names):
            return "[" + ", ".join(codes(n) for n in names) + "]"
        lines = [hdr, "namespace Jawk.Generated\n",
                 "/-- (long name and visible aliases as code points, kind: 0 flag, 1 one value, 2 repeatable, 3 optional value), in declaration order -/",
                 "def cliOptions : List (List (List Nat) × Nat) := [",
                 ",\n".join(f"  ({clist(names)}, {kind})" for names, kind, _, _ in cli_opts),
                 "]\n",
                 "/-- (long name, short name) as code points for the options that have a one-letter name (`short` / `short = 'k'`) -/",
                 "def cliShorts : List (List Nat × Nat) := [",
                 ",\n".join(f"  ({codes(names[0])}, {ord(sh)})" for names, _, _, sh in cli_opts if sh is not None),
                 "]\n",
                 "/-- the accepted values of the enumerated options (kebab case) -/",
                 f"def onErrorValues : List (List Nat) := {clist(cli_enums['on_error'])}",
                 f"def outputStyleValues : List (List Nat) := {clist(cli_enums['output_style'])}",
                 f"def jsonStyleValues : List (List Nat) := {clist(cli_enums['json_style'])}\n",
                 "end Jawk.Generated\n"]
        ch6 = write_if_changed(os.path.join(OUT, "CliOptions.lean"), "\n".join(lines))
    ch4 = False
    if funcs is not None:
        # the same table for the Rust harness (generator of aliases / arities)
        def rust_str(x):
            return '"' + x.replace('\\', '\\\\').replace('"', '\\"') + '"'
        rl = ["// GENERATED by extract/extract_tables.py from /repo/src - do not edit.",
              "pub const FUNCTION_TABLE: &[(&str, &[&str], usize, Option<usize>)] = &["]
        for f in funcs:
            al = ", ".join(rust_str(a) for a in f["aliases"])
            mx = "None" if f["max"] is None else f"Some({f['max']})"
            rl.append(f"    ({rust_str(f['name'])}, &[{al}], {f['min']}, {mx}),")
        rl.append("];")
        ch4 = write_if_changed(os.path.join(OUT, "..", "..", "..", "harness", "src", "gen_table.rs"), "\n".join(rl) + "\n")
    unrec = sorted(k for k, v in bc.items() if isinstance(v, dict))
    status_path = os.path.join(os.path.dirname(syn_path), "extract-status.json")
    open(status_path, "w").write(json.dumps({"failed": failed}, indent=1))
    summary = {"failed": failed, "byte_classes_unrecognised": unrec, "functions": len(funcs) if funcs is not None else None, "names": len(allnames),
               "examples": sum(len(f["examples"]) for f in funcs) if funcs is not None else None, "examples_skipped": skipped,
               "changed": [n for n, c in (("FunctionTable", ch1), ("DocExamples", ch2), ("Presets", ch3), ("harness/gen_table.rs", ch4), ("CliOptions", ch6)) if c]}
    print(("EXTRACT-PARTIAL " if failed else "EXTRACT-OK ") + json.dumps(summary))
    if failed:
        sys.exit(4)


if __name__ == "__main__":
    main()
