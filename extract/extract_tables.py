#!/usr/bin/env python3
"""K1: regenerate lean/Jawk/Generated/*.lean from /repo/src.

Reads the Rust sources with a small tokenizer (string literals, raw strings,
comments, balanced parentheses) and copies literals out:
  * the function table (name, aliases, min, max) and the documentation examples,
  * TextOutputOptions::csv() / default(), JsonOutputOptions::default(),
  * the two-character escape arms of print_string and read_string,
  * clap defaults mentioned by theorems (row separator, on_error, skip ...).
Files are rewritten only when their content changes.  If a construct is not found
the script exits 3 and names it: that is treated like a broken correspondence.
"""
import os, re, sys, json

REPO = os.environ.get("JAWK_REPO", "/repo")
OUT = os.path.join(os.path.dirname(os.path.abspath(__file__)), "..", "lean", "Jawk", "Generated")


class ExtractError(Exception):
    pass


def tokenize(src):
    """Return list of tokens: ('str', value) | ('sym', text) | ('id', text) | ('num', text)."""
    toks = []
    i, n = 0, len(src)
    while i < n:
        c = src[i]
        if c.isspace():
            i += 1
            continue
        if src.startswith("//", i):
            j = src.find("\n", i)
            i = n if j < 0 else j
            continue
        if src.startswith("/*", i):
            j = src.find("*/", i)
            i = n if j < 0 else j + 2
            continue
        # raw string r"..." / r#"..."#
        m = re.match(r'b?r(#*)"', src[i:])
        if m:
            hashes = m.group(1)
            start = i + m.end()
            end = src.find('"' + hashes, start)
            if end < 0:
                raise ExtractError("unterminated raw string")
            toks.append(("str", src[start:end]))
            i = end + 1 + len(hashes)
            continue
        if c == '"' or (c == 'b' and i + 1 < n and src[i + 1] == '"'):
            if c == 'b':
                i += 1
            i += 1
            out = []
            while src[i] != '"':
                if src[i] == '\\':
                    e = src[i + 1]
                    if e == 'n':
                        out.append('\n'); i += 2
                    elif e == 't':
                        out.append('\t'); i += 2
                    elif e == 'r':
                        out.append('\r'); i += 2
                    elif e == '0':
                        out.append('\0'); i += 2
                    elif e == '\\':
                        out.append('\\'); i += 2
                    elif e == '"':
                        out.append('"'); i += 2
                    elif e == "'":
                        out.append("'"); i += 2
                    elif e == 'x':
                        out.append(chr(int(src[i + 2:i + 4], 16))); i += 4
                    elif e == 'u':
                        j = src.index('}', i)
                        out.append(chr(int(src[i + 3:j], 16))); i = j + 1
                    elif e == '\n':
                        i += 2
                        while src[i].isspace():
                            i += 1
                    else:
                        raise ExtractError("unknown escape \\" + e)
                else:
                    out.append(src[i]); i += 1
            i += 1
            toks.append(("str", "".join(out)))
            continue
        if c == "'" or (c == 'b' and i + 1 < n and src[i + 1] == "'"):
            # char / byte literal or lifetime
            k = i + (1 if c == 'b' else 0)
            m = re.match(r"'(\\x[0-9a-fA-F]{2}|\\u\{[0-9a-fA-F]+\}|\\.|[^'\\])'", src[k:])
            if m:
                body = m.group(1)
                if body.startswith('\\x'):
                    val = chr(int(body[2:], 16))
                elif body.startswith('\\u'):
                    val = chr(int(body[3:-1], 16))
                elif body.startswith('\\'):
                    val = {'n': '\n', 't': '\t', 'r': '\r', '0': '\0', '\\': '\\', '"': '"', "'": "'"}[body[1]]
                else:
                    val = body
                toks.append(("chr", val))
                i = k + m.end()
                continue
            # lifetime
            m = re.match(r"'[A-Za-z_][A-Za-z0-9_]*", src[i:])
            if m:
                toks.append(("id", m.group(0)))
                i += m.end()
                continue
        m = re.match(r"[A-Za-z_][A-Za-z0-9_]*", src[i:])
        if m:
            toks.append(("id", m.group(0)))
            i += m.end()
            continue
        m = re.match(r"[0-9][0-9_]*(\.[0-9]+)?", src[i:])
        if m:
            toks.append(("num", m.group(0)))
            i += m.end()
            continue
        toks.append(("sym", c))
        i += 1
    return toks


def find_seq(toks, seq, start=0):
    """find index of token sequence of (kind,text) / text matches"""
    L = len(seq)
    for i in range(start, len(toks) - L + 1):
        if all(toks[i + k][1] == seq[k] and toks[i + k][0] != "str" for k in range(L)):
            return i
    return -1


def matching_paren(toks, i):
    """toks[i] is '(' -> index of matching ')'"""
    depth = 0
    pairs = {'(': ')', '[': ']', '{': '}'}
    opens = set(pairs)
    closes = set(pairs.values())
    for j in range(i, len(toks)):
        k, t = toks[j]
        if k == "sym" and t in opens:
            depth += 1
        elif k == "sym" and t in closes:
            depth -= 1
            if depth == 0:
                return j
    raise ExtractError("unbalanced parentheses")


# ----------------------------------------------------------------------------- functions

def function_files():
    base = os.path.join(REPO, "src", "functions")
    for root, _, files in sorted(os.walk(base)):
        for f in sorted(files):
            if f.endswith(".rs"):
                yield os.path.join(root, f)


def extract_functions():
    funcs = []
    for path in function_files():
        toks = tokenize(open(path).read())
        pos = 0
        while True:
            i = find_seq(toks, ["FunctionDefinitions", ":", ":", "new", "("], pos)
            if i < 0:
                break
            j = i + 5
            if toks[j][0] != "str":
                raise ExtractError(f"{path}: FunctionDefinitions::new without literal name")
            name = toks[j][1]
            # min
            def read_count(k):
                if toks[k][0] == "num":
                    return int(toks[k][1]), k + 1
                if toks[k][1] == "usize" and toks[k + 3][1] == "MAX":
                    return None, k + 4
                raise ExtractError(f"{path}: cannot read argument count of {name}")
            mn, k = read_count(j + 2)
            mx, k = read_count(k + 1)
            if mn is None:
                raise ExtractError(f"{path}: min args of {name}")
            end_new = matching_paren(toks, i + 4)
            # chained calls after new(...)
            aliases, examples = [], []
            k = end_new + 1
            while k + 1 < len(toks) and toks[k][1] == "." and toks[k + 1][0] == "id":
                meth = toks[k + 1][1]
                if toks[k + 2][1] != "(":
                    break
                close = matching_paren(toks, k + 2)
                inner = toks[k + 3:close]
                if meth == "add_alias":
                    if len(inner) < 1 or inner[0][0] != "str":
                        raise ExtractError(f"{path}: alias of {name} is not a literal")
                    aliases.append(inner[0][1])
                elif meth == "add_example":
                    examples.append(parse_example(inner, path, name))
                k = close + 1
            funcs.append({"name": name, "aliases": aliases, "min": mn, "max": mx,
                          "examples": examples, "file": os.path.relpath(path, REPO)})
            pos = end_new
    if len(funcs) < 50:
        raise ExtractError("function table: fewer than 50 FunctionDefinitions::new found")
    return funcs


def parse_example(inner, path, fname):
    # Example::new() .input("..") .add_argument("..") .expected_output("..") .validate_output(..) .expected_json(..) .explain("..") .more_or_less()
    ex = {"input": None, "args": [], "expect": "nothing", "literal": True}
    k = 0
    while k < len(inner):
        if inner[k][1] == "." and k + 2 < len(inner) and inner[k + 1][0] == "id" and inner[k + 2][1] == "(":
            meth = inner[k + 1][1]
            close = matching_paren(inner, k + 2)
            body = inner[k + 3:close]
            if meth == "input":
                ex["input"] = body[0][1]
            elif meth == "add_argument":
                if body[0][0] != "str":
                    raise ExtractError(f"{path}: example argument of {fname} is not a literal")
                ex["args"].append(body[0][1])
            elif meth == "expected_output":
                ex["expect"] = body[0][1]
            elif meth in ("validate_output", "expected_json"):
                ex["literal"] = False
            elif meth == "more_or_less":
                pass
            k = close + 1
        else:
            k += 1
    return ex


# ----------------------------------------------------------------------------- output_style literals

def struct_literal_fields(toks, start):
    """toks[start] is '{' of `Self { a: expr, ... }` -> dict field -> token list"""
    end = matching_paren(toks, start)
    fields = {}
    k = start + 1
    while k < end:
        if toks[k][0] == "id" and toks[k + 1][1] == ":" and toks[k + 2][1] != ":":
            name = toks[k][1]
            # read until top-level comma
            depth = 0
            j = k + 2
            expr = []
            while j < end:
                kind, t = toks[j]
                if kind == "sym" and t in "([{":
                    depth += 1
                elif kind == "sym" and t in ")]}":
                    depth -= 1
                elif kind == "sym" and t == "," and depth == 0:
                    break
                expr.append(toks[j])
                j += 1
            fields[name] = expr
            k = j + 1
        else:
            k += 1
    return fields


def expr_value(expr):
    """literal value of simple field expressions"""
    if not expr:
        raise ExtractError("empty expression")
    if expr[0][0] == "str":
        return expr[0][1]
    texts = [t for _, t in expr]
    if texts[:4] == ["String", ":", ":", "new"]:
        return ""
    if texts[0] in ("true", "false"):
        return texts[0] == "true"
    if texts[0] == "None":
        return None
    if texts[0] == "vec" and texts[1] == "!":
        return [t for k, t in expr if k == "str"]
    if texts[0] == "JsonStyle":
        return texts[3]
    raise ExtractError("unsupported literal expression: " + " ".join(texts))


def extract_output_style():
    toks = tokenize(open(os.path.join(REPO, "src", "output_style.rs")).read())

    def fn_self_literal(fn_name, owner_hint):
        pos = 0
        while True:
            i = find_seq(toks, ["fn", fn_name, "("], pos)
            if i < 0:
                raise ExtractError(f"output_style.rs: fn {fn_name} for {owner_hint} not found")
            # find 'Self' '{' after
            j = find_seq(toks, ["Self", "{"], i)
            if j < 0:
                raise ExtractError(f"output_style.rs: Self literal in {fn_name}")
            fields = struct_literal_fields(toks, j + 1)
            if owner_hint in fields:
                return {k: expr_value(v) for k, v in fields.items()}
            pos = i + 1

    csv = fn_self_literal("csv", "items_seperator")
    text_default = fn_self_literal("default", "items_seperator")
    json_default = fn_self_literal("default", "utf8_strings")

    # print_string escape arms:  '\"' => write!(f, "\\\"")?,
    i = find_seq(toks, ["fn", "print_string"], find_seq(toks, ["for", "JsonOutputOptions"]))
    if i < 0:
        raise ExtractError("output_style.rs: JSON print_string not found")
    end = find_seq(toks, ["fn", "print_object"], i)
    arms = []
    k = i
    while k < end:
        if toks[k][0] == "chr" and toks[k + 1][1] == "=" and toks[k + 2][1] == ">" and toks[k + 3][1] == "write":
            close = matching_paren(toks, k + 5)
            lits = [t for kk, t in toks[k + 5:close] if kk == "str"]
            arms.append((toks[k][1], lits[0]))
            k = close
        k += 1
    if len(arms) < 5:
        raise ExtractError("output_style.rs: escape arms of print_string not found")
    return csv, text_default, json_default, arms


def extract_parser_escapes():
    toks = tokenize(open(os.path.join(REPO, "src", "json_parser.rs")).read())
    i = find_seq(toks, ["fn", "read_string"], find_seq(toks, ["impl", "<", "R"]))
    if i < 0:
        raise ExtractError("json_parser.rs: read_string not found")
    end = find_seq(toks, ["fn", "parse_to_double"], i)
    arms = []
    k = i
    while k < end:
        # Some(b'n') => chars.push(b'\n') | chars.push(0x08)
        if (toks[k][1] == "Some" and toks[k + 1][1] == "(" and toks[k + 2][0] == "chr" and toks[k + 3][1] == ")"
                and toks[k + 4][1] == "=" and toks[k + 5][1] == ">" and toks[k + 6][1] == "chars" and toks[k + 8][1] == "push"):
            arg = toks[k + 10]
            if arg[0] == "chr":
                val = ord(arg[1])
            elif arg[0] == "num":
                # hex literal like 0x08 is tokenised as num '0' + id 'x08'
                nxt = toks[k + 11]
                val = int(nxt[1][1:], 16) if nxt[0] == "id" and nxt[1].startswith("x") else int(arg[1])
            else:
                raise ExtractError("json_parser.rs: unsupported escape arm")
            arms.append((toks[k + 2][1], val))
        k += 1
    if len(arms) < 5:
        raise ExtractError("json_parser.rs: escape arms of read_string not found")
    return arms


def extract_cli_defaults():
    src = open(os.path.join(REPO, "src", "lib.rs")).read()
    toks = tokenize(src)
    out = {}
    m = find_seq(toks, ["enum", "OnError"])
    if m < 0:
        raise ExtractError("lib.rs: enum OnError")
    close = matching_paren(toks, m + 2)
    out["on_error_variants"] = [t for k, t in toks[m + 3:close] if k == "id" and t[0].isupper()]
    # on_error default
    mm = re.search(r"default_value_t\s*=\s*OnError::(\w+)", src)
    if not mm:
        raise ExtractError("lib.rs: on_error default")
    out["on_error_default"] = mm.group(1)
    mm = re.search(r"default_value_t\s*=\s*(\d+)\)\]\s*skip", src)
    if not mm:
        raise ExtractError("lib.rs: skip default")
    out["skip_default"] = int(mm.group(1))
    src2 = open(os.path.join(REPO, "src", "output_style.rs")).read()
    toks2 = tokenize(src2)
    i = find_seq(toks2, ["row_seperator", ":", "String"])
    if i < 0:
        raise ExtractError("output_style.rs: row_seperator")
    # walk back to the preceding default_value = "<lit>"
    j = i
    while j > 0 and not (toks2[j][1] == "default_value" and toks2[j + 1][1] == "="):
        j -= 1
    out["row_separator_default"] = toks2[j + 2][1]
    return out


# ----------------------------------------------------------------------------- emit Lean

def lean_str(s):
    out = ['"']
    for ch in s:
        o = ord(ch)
        if ch == '"':
            out.append('\\"')
        elif ch == '\\':
            out.append('\\\\')
        elif ch == '\n':
            out.append('\\n')
        elif ch == '\t':
            out.append('\\t')
        elif ch == '\r':
            out.append('\\r')
        elif o < 32 or o == 127:
            out.append('\\x%02x' % o)
        else:
            out.append(ch)
    out.append('"')
    return "".join(out)


def codes(s):
    return "[" + ", ".join(str(ord(c)) for c in s) + "]"


def write_if_changed(path, content):
    old = None
    if os.path.exists(path):
        old = open(path).read()
    if old != content:
        os.makedirs(os.path.dirname(path), exist_ok=True)
        open(path, "w").write(content)
        return True
    return False


def main():
    try:
        funcs = extract_functions()
        csv, text_default, json_default, print_arms = extract_output_style()
        parse_arms = extract_parser_escapes()
        cli = extract_cli_defaults()
    except ExtractError as e:
        print("EXTRACT-ERROR: " + str(e))
        sys.exit(3)

    hdr = "-- GENERATED by extract/extract_tables.py from /repo/src — do not edit.\n"
    # FunctionTable
    lines = [hdr, "namespace Jawk.Generated\n",
             "/-- (name, aliases, min args, max args; `none` = `usize::MAX`) -/",
             "def functionTable : List (String × List String × Nat × Option Nat) := ["]
    rows = []
    for f in funcs:
        mx = "none" if f["max"] is None else f"some {f['max']}"
        al = "[" + ", ".join(lean_str(a) for a in f["aliases"]) + "]"
        rows.append(f"  ({lean_str(f['name'])}, {al}, {f['min']}, {mx})")
    lines.append(",\n".join(rows))
    lines.append("]\n")
    lines.append("/-- every name and alias as code points (kernel-reducible form of `functionTable`) -/")
    lines.append("def functionNameCodes : List (List Nat) := [")
    allnames = []
    for f in funcs:
        allnames.append(f["name"])
        allnames.extend(f["aliases"])
    lines.append(",\n".join("  " + codes(n) for n in allnames))
    lines.append("]\n")
    lines.append("/-- (name codes, number of aliases, min, max) per function, kernel-reducible -/")
    lines.append("def functionSigCodes : List (List Nat × Nat × Nat × Option Nat) := [")
    lines.append(",\n".join(
        f"  ({codes(f['name'])}, {len(f['aliases'])}, {f['min']}, " + ("none" if f["max"] is None else f"some {f['max']}") + ")"
        for f in funcs))
    lines.append("]\n")
    lines.append("end Jawk.Generated\n")
    ch1 = write_if_changed(os.path.join(OUT, "FunctionTable.lean"), "\n".join(lines))

    # DocExamples
    lines = [hdr, "namespace Jawk.Generated\n",
             "/-- (function, input, arguments, expected; `none` = nothing) — examples with a literal expectation -/",
             "def docExamples : List (String × Option String × List String × Option String) := ["]
    rows = []
    skipped = 0
    for f in funcs:
        for ex in f["examples"]:
            if not ex["literal"]:
                skipped += 1
                continue
            inp = "none" if ex["input"] is None else "some " + lean_str(ex["input"])
            args = "[" + ", ".join(lean_str(a) for a in ex["args"]) + "]"
            exp = "none" if ex["expect"] == "nothing" else "some " + lean_str(ex["expect"])
            rows.append(f"  ({lean_str(f['name'])}, {inp}, {args}, {exp})")
    lines.append(",\n".join(rows))
    lines.append("]\n")
    lines.append(f"def docExamplesSkipped : Nat := {skipped}\n")
    lines.append("end Jawk.Generated\n")
    ch2 = write_if_changed(os.path.join(OUT, "DocExamples.lean"), "\n".join(lines))

    # Presets
    def text_opts(name, d):
        miss = "none" if d["missing_value_keyword"] is None else "some " + codes(d["missing_value_keyword"])
        esc = "[" + ", ".join(codes(e) for e in d["escape_sequance"]) + "]"
        return (f"def {name} : List Nat × List Nat × List Nat × Bool × List (List Nat) × List Nat × List Nat × List Nat × Option (List Nat) :=\n"
                f"  ({codes(d['items_seperator'])}, {codes(d['string_prefix'])}, {codes(d['string_postfix'])}, "
                f"{'true' if d['headers'] else 'false'}, {esc}, {codes(d['null_keyword'])}, {codes(d['true_keyword'])}, "
                f"{codes(d['false_keyword'])}, {miss})\n")
    lines = [hdr, "namespace Jawk.Generated\n",
             "/-- (items separator, string prefix, string postfix, headers, escape sequences, null, true, false, missing) as code points -/",
             text_opts("csvPresetCodes", csv),
             text_opts("textDefaultCodes", text_default),
             f"def jsonDefaultStyle : String := {lean_str(json_default['style'])}",
             f"def jsonDefaultUtf8 : Bool := {'true' if json_default['utf8_strings'] else 'false'}\n",
             "/-- `print_string`: (character, text written) as code points -/",
             "def printEscapeArms : List (Nat × List Nat) := [" + ", ".join(f"({ord(c)}, {codes(t)})" for c, t in print_arms) + "]\n",
             "/-- `read_string`: (escape letter, byte pushed) -/",
             "def parseEscapeArms : List (Nat × Nat) := [" + ", ".join(f"({ord(c)}, {v})" for c, v in parse_arms) + "]\n",
             "def onErrorVariants : List String := [" + ", ".join(lean_str(v) for v in cli["on_error_variants"]) + "]",
             f"def onErrorDefault : String := {lean_str(cli['on_error_default'])}",
             f"def skipDefault : Nat := {cli['skip_default']}",
             f"def rowSeparatorDefault : List Nat := {codes(cli['row_separator_default'])}\n",
             "end Jawk.Generated\n"]
    ch3 = write_if_changed(os.path.join(OUT, "Presets.lean"), "\n".join(lines))
    # the same table for the Rust harness (generator of aliases / arities)
    def rust_str(x):
        return '"' + x.replace('\\', '\\\\').replace('"', '\\"') + '"'
    rl = ["// GENERATED by extract/extract_tables.py from /repo/src - do not edit.",
          "pub const FUNCTION_TABLE: &[(&str, &[&str], usize, Option<usize>)] = &["]
    for f in funcs:
        al = ", ".join(rust_str(a) for a in f["aliases"])
        mx = "None" if f["max"] is None else f"Some({f['max']})"
        rl.append(f"    ({rust_str(f['name'])}, &[{al}], {f['min']}, {mx}),")
    rl.append("];")
    ch4 = write_if_changed(os.path.join(OUT, "..", "..", "..", "harness", "src", "gen_table.rs"), "\n".join(rl) + "\n")
    summary = {"functions": len(funcs), "names": len(allnames),
               "examples": sum(len(f["examples"]) for f in funcs), "examples_skipped": skipped,
               "changed": [n for n, c in (("FunctionTable", ch1), ("DocExamples", ch2), ("Presets", ch3), ("harness/gen_table.rs", ch4)) if c]}
    print("EXTRACT-OK " + json.dumps(summary))


if __name__ == "__main__":
    main()
