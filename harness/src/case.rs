//! A case = configuration + input sources + delivery/fault schedule + oracle answers.
//! It renders to (a) argv for the real `jawk::Cli`, (b) one protocol line for the Lean driver;
//! the line is also the replay format (`Case::from_line`).

#[derive(Clone, Debug, Default, PartialEq)]
pub struct Spec {
    pub on_error: Option<String>,
    pub selects: Vec<String>,
    pub filter: Option<String>,
    pub split: Option<String>,
    /// Some(Some(e)) = --group-by=e ; Some(None) = --merge
    pub group: Option<Option<String>>,
    pub sorts: Vec<String>,
    pub skip: u64,
    pub take: Option<u64>,
    pub unique: bool,
    pub sets: Vec<String>,
    pub ooa: bool,
    pub style: Option<String>,
    pub rowsep: Option<String>,
    pub jstyle: Option<String>,
    pub utf8: bool,
    pub isep: Option<String>,
    pub spre: Option<String>,
    pub spost: Option<String>,
    pub headers: bool,
    pub esc: Vec<String>,
    pub nullkw: Option<String>,
    pub truekw: Option<String>,
    pub falsekw: Option<String>,
    pub misskw: Option<String>,
    /// --regular-expression-cache-size (invisible to the model: cache transparency is the claim)
    pub cache: Option<usize>,
}

#[derive(Clone, Debug, Default, PartialEq)]
pub struct Source {
    /// None = stdin; Some(name) = file (the harness writes it to its scratch directory under this name)
    pub name: Option<String>,
    pub bytes: Vec<u8>,
}

#[derive(Clone, Debug, Default, PartialEq)]
pub struct Case {
    pub id: String,
    pub mode: String,
    pub spec: Spec,
    pub sources: Vec<Source>,
    /// read fault: (source index, byte offset)
    pub rerr: Option<(usize, usize)>,
    /// stdin delivery: chunk sizes (cyclic); 0 entries mean an `Interrupted` result
    pub chunks: Vec<usize>,
    pub wfail: Option<usize>,
    pub efail: Option<usize>,
    /// (function, printed args, result JSON text or None)
    pub orc: Vec<(String, Vec<String>, Option<String>)>,
    /// shuffle key for argv order (argument-order independence)
    pub shuffle: u64,
    /// endless tail for stdin: this byte pattern repeats forever after `bytes` (C14); not sent to the model
    pub endless: Option<Vec<u8>>,
    pub expr: Option<String>,
    /// raw extra command-line tokens (each its own block in the argument order): command lines that no `Spec` describes
    pub xargs: Vec<String>,
}

pub fn hex(b: &[u8]) -> String {
    let mut s = String::with_capacity(b.len() * 2);
    for x in b {
        s.push_str(&format!("{:02x}", x));
    }
    s
}

pub fn unhex(s: &str) -> Vec<u8> {
    (0..s.len() / 2).map(|i| u8::from_str_radix(&s[2 * i..2 * i + 2], 16).unwrap_or(0)).collect()
}

fn hs(s: &str) -> String {
    hex(s.as_bytes())
}

fn uhs(s: &str) -> String {
    String::from_utf8_lossy(&unhex(s)).into_owned()
}

impl Case {
    pub fn argv(&self, scratch: &str) -> Vec<String> {
        let s = &self.spec;
        let mut opts: Vec<Vec<String>> = vec![];
        // which of an option's names (long name or visible alias) is written: derived from the shuffle key
        let sh = self.shuffle;
        let nm = |slot: u32, names: &[&str]| -> String {
            if sh == 0 { names[0].to_string() } else { names[((sh >> (slot * 3)) as usize) % names.len()].to_string() }
        };
        let mut one = |v: String| opts.push(vec![v]);
        if let Some(e) = &s.on_error {
            one(format!("--on-error={e}"));
        }
        // relative order of repeated --select / --sort-by / --set must be kept: emit each family as one block
        if !s.selects.is_empty() {
            opts.push(s.selects.iter().enumerate().map(|(i, x)| format!("--{}={x}", nm(1 + (i as u32 % 2), &["select", "choose"]))).collect());
        }
        if let Some(f) = &s.filter {
            opts.push(vec![format!("--{}={f}", nm(3, &["filter", "where"]))]);
        }
        if let Some(f) = &s.split {
            opts.push(vec![format!("--{}={f}", nm(4, &["split-by", "break-by"]))]);
        }
        match &s.group {
            // (also in clap's two-argument form `--group-by EXPR`: the two stay together, see the end of this function)
            Some(Some(g)) if sh != 0 && (sh >> 20) % 3 == 0 && !g.is_empty() && !g.starts_with('-') =>
                opts.push(vec![format!("--{}\u{1}{g}", nm(5, &["group-by", "combine", "merge"]))]),
            Some(Some(g)) => opts.push(vec![format!("--{}={g}", nm(5, &["group-by", "combine", "merge"]))]),
            Some(None) => opts.push(vec![format!("--{}", nm(5, &["merge", "group-by", "combine"]))]),
            None => {}
        }
        if !s.sorts.is_empty() {
            opts.push(s.sorts.iter().enumerate().map(|(i, x)| format!("--{}={x}", nm(6 + (i as u32 % 2), &["sort-by", "order-by"]))).collect());
        }
        if s.skip != 0 {
            opts.push(vec![format!("--skip={}", s.skip)]);
        }
        if let Some(t) = s.take {
            opts.push(vec![format!("--{}={t}", nm(8, &["take", "limit"]))]);
        }
        if s.unique {
            opts.push(vec!["--unique".into()]);
        }
        if !s.sets.is_empty() {
            opts.push(s.sets.iter().map(|x| format!("--set={x}")).collect());
        }
        if s.ooa {
            opts.push(vec!["--only-objects-and-arrays".into()]);
        }
        if let Some(x) = &s.style {
            opts.push(vec![format!("--output-style={x}")]);
        }
        if let Some(x) = &s.rowsep {
            opts.push(vec![format!("--row-seperator={x}")]);
        }
        if let Some(x) = &s.jstyle {
            opts.push(vec![format!("--style={x}")]);
        }
        if s.utf8 {
            opts.push(vec!["--utf8-strings".into()]);
        }
        if let Some(x) = &s.isep {
            opts.push(vec![format!("--items-seperator={x}")]);
        }
        if let Some(x) = &s.spre {
            opts.push(vec![format!("--string-prefix={x}")]);
        }
        if let Some(x) = &s.spost {
            opts.push(vec![format!("--string-postfix={x}")]);
        }
        if s.headers {
            opts.push(vec!["--headers".into()]);
        }
        if !s.esc.is_empty() {
            opts.push(s.esc.iter().map(|x| format!("--escape-sequance={x}")).collect());
        }
        if let Some(x) = &s.nullkw {
            opts.push(vec![format!("--null-keyword={x}")]);
        }
        if let Some(x) = &s.truekw {
            opts.push(vec![format!("--true-keyword={x}")]);
        }
        if let Some(x) = &s.falsekw {
            opts.push(vec![format!("--false-keyword={x}")]);
        }
        if let Some(x) = &s.misskw {
            opts.push(vec![format!("--missing-value-keyword={x}")]);
        }
        if let Some(x) = s.cache {
            opts.push(vec![format!("--regular-expression-cache-size={x}")]);
        }
        for x in &self.xargs {
            opts.push(vec![x.clone()]);
        }
        // argument order: every interleaving that keeps the relative order INSIDE each family (a block = the occurrences
        // of one repeatable option; the input files are a family too) — derived from `shuffle`
        let files: Vec<String> = self.sources.iter().filter_map(|s| s.name.as_ref().map(|n| format!("{scratch}/{n}"))).collect();
        let mut argv = vec!["jawk".to_string()];
        if self.shuffle == 0 {
            argv.extend(files);
            for b in opts {
                argv.extend(b);
            }
            return argv;
        }
        let mut fams: Vec<Vec<String>> = opts;
        if !files.is_empty() {
            fams.push(files);
        }
        // positions: a random permutation of the family labels (one label per token); the tokens of a family fill
        // the positions carrying its label in their original order
        let mut labels: Vec<usize> = fams.iter().enumerate().flat_map(|(i, f)| std::iter::repeat(i).take(f.len())).collect();
        let mut r = crate::rng::Rng::new(self.shuffle);
        for i in (1..labels.len()).rev() {
            let j = r.below(i + 1);
            labels.swap(i, j);
        }
        let mut next: Vec<usize> = vec![0; fams.len()];
        for l in labels {
            argv.push(fams[l][next[l]].clone());
            next[l] += 1;
        }
        // every spelling clap accepts for an option: `--name=value`, `--name value`, `-c value`, `-cvalue`, `-c=value`, `-u`, and a
        // flag letter leading a cluster (`-uc value`) — chosen per argument from the shuffle key; the model of the command line
        // (`Args.lexAll`) is handed the same vector
        const SHORTS: &[(&str, char)] = &[("choose", 'c'), ("select", 'c'), ("filter", 'f'), ("where", 'f'), ("break-by", 'b'), ("split-by", 'b'),
            ("group-by", 'g'), ("combine", 'g'), ("merge", 'g'), ("sort-by", 's'), ("order-by", 's'), ("skip", 'k'), ("take", 't'), ("limit", 't'),
            ("unique", 'u'), ("set", 'e'), ("output-style", 'o'), ("row-seperator", 'r')];
        let is_value = |v: &str| !v.starts_with('-') || v == "-";
        for i in 1..argv.len() {
            let a = argv[i].clone();
            if !a.starts_with("--") || a.contains('\u{1}') {
                continue;
            }
            let pick = r.below(12);
            let (name, value) = match a[2..].split_once('=') {
                Some((n, v)) => (n.to_string(), Some(v.to_string())),
                None => (a[2..].to_string(), None),
            };
            let short = SHORTS.iter().find(|(n, _)| *n == name).map(|(_, c)| *c);
            argv[i] = match (pick, short, value) {
                (6, _, Some(v)) if is_value(&v) => format!("--{name}\u{1}{v}"),
                (7, Some(c), Some(v)) if is_value(&v) => format!("-{c}\u{1}{v}"),
                (8, Some(c), Some(v)) if !v.is_empty() && !v.starts_with('=') => format!("-{c}{v}"),
                (9, Some(c), Some(v)) => format!("-{c}={v}"),
                (6..=9, Some(c), None) => format!("-{c}"),
                _ => a,
            };
        }
        let mut i = 1;
        while i + 1 < argv.len() {
            if argv[i] == "-u" && argv[i + 1].starts_with('-') && !argv[i + 1].starts_with("--") && argv[i + 1].len() > 1 && r.chance(60) {
                let tail = argv.remove(i + 1);
                argv[i] = format!("-u{}", &tail[1..]);
            }
            i += 1;
        }
        // clap hands a BARE optional-valued option (`--merge`, `--group-by`, `--combine` without `=`) the argument after it
        // as its value unless that looks like an option: `--merge in0.json` would group by the text of the path.  That is the
        // documented command line, not an ordering the property speaks about: keep input files in front of such an option.
        let bare = |a: &str| a == "--merge" || a == "--group-by" || a == "--combine" || a == "-g" || a == "-ug";
        let mut i = 0;
        while i + 1 < argv.len() {
            if bare(&argv[i]) && !argv[i + 1].starts_with('-') {
                argv.swap(i, i + 1);
            }
            i += 1;
        }
        // an option written in two arguments
        argv.into_iter().flat_map(|a| a.split('\u{1}').map(String::from).collect::<Vec<_>>()).collect()
    }

    /// the protocol line; file names are sent as the full scratch path (it is `&file-name`)
    pub fn line(&self, scratch: &str) -> String {
        let s = &self.spec;
        let mut t: Vec<String> = vec![format!("id={}", self.id)];
        if !self.mode.is_empty() {
            t.push(format!("mode={}", self.mode));
        }
        if let Some(e) = &s.on_error {
            t.push(format!("onerror={e}"));
        }
        for x in &s.selects {
            t.push(format!("sel={}", hs(x)));
        }
        if let Some(x) = &s.filter {
            t.push(format!("filter={}", hs(x)));
        }
        if let Some(x) = &s.split {
            t.push(format!("split={}", hs(x)));
        }
        match &s.group {
            Some(Some(g)) => t.push(format!("group={}", hs(g))),
            Some(None) => t.push("merge=1".into()),
            None => {}
        }
        for x in &s.sorts {
            t.push(format!("sort={}", hs(x)));
        }
        if s.skip != 0 {
            t.push(format!("skip={}", s.skip));
        }
        if let Some(x) = s.take {
            t.push(format!("take={x}"));
        }
        if s.unique {
            t.push("unique=1".into());
        }
        for x in &s.sets {
            t.push(format!("set={}", hs(x)));
        }
        if s.ooa {
            t.push("ooa=1".into());
        }
        if let Some(x) = &s.style {
            t.push(format!("style={x}"));
        }
        if let Some(x) = &s.rowsep {
            t.push(format!("rowsep={}", hs(x)));
        }
        if let Some(x) = &s.jstyle {
            t.push(format!("jstyle={}", if x == "one-line" { "oneline" } else { x }));
        }
        if s.utf8 {
            t.push("utf8=1".into());
        }
        if let Some(x) = &s.isep {
            t.push(format!("isep={}", hs(x)));
        }
        if let Some(x) = &s.spre {
            t.push(format!("spre={}", hs(x)));
        }
        if let Some(x) = &s.spost {
            t.push(format!("spost={}", hs(x)));
        }
        if s.headers {
            t.push("headers=1".into());
        }
        for x in &s.esc {
            t.push(format!("esc={}", hs(x)));
        }
        if let Some(x) = &s.nullkw {
            t.push(format!("nullkw={}", hs(x)));
        }
        if let Some(x) = &s.truekw {
            t.push(format!("truekw={}", hs(x)));
        }
        if let Some(x) = &s.falsekw {
            t.push(format!("falsekw={}", hs(x)));
        }
        if let Some(x) = &s.misskw {
            t.push(format!("misskw={}", hs(x)));
        }
        if let Some(x) = s.cache {
            t.push(format!("cache={x}"));
        }
        for src in &self.sources {
            let n = match &src.name {
                Some(n) => hs(&format!("{scratch}/{n}")),
                None => "-".into(),
            };
            t.push(format!("src={}:{}", n, hex(&src.bytes)));
        }
        if let Some((i, o)) = self.rerr {
            t.push(format!("rerr={i}:{o}"));
        }
        if let Some(k) = self.wfail {
            t.push(format!("wfail={k}"));
        }
        if let Some(k) = self.efail {
            t.push(format!("efail={k}"));
        }
        for (f, a, r) in &self.orc {
            let args: Vec<String> = a.iter().map(|x| hs(x)).collect();
            t.push(format!("orc={}:{}:{}", hs(f), args.join(","), r.as_ref().map(|x| hs(x)).unwrap_or("-".into())));
        }
        if let Some(e) = &self.expr {
            t.push(format!("expr={}", hs(e)));
        }
        for x in &self.xargs {
            t.push(format!("xarg={}", hs(x)));
        }
        // the command line itself (after the program name): the model parses it with its own model of clap
        // and uses the record it gets (`Jawk/Model/Args.lean`); the fields above stay as the readable form
        if self.mode == "run" || self.mode.is_empty() {
            let av = self.argv(scratch);
            let toks: Vec<String> = av.iter().skip(1).map(|x| hs(x)).collect();
            t.push(format!("argv={}", if toks.is_empty() { "-".to_string() } else { toks.join(",") }));
        }
        // harness-only fields (ignored by the model)
        if !self.chunks.is_empty() {
            t.push(format!("chunks={}", self.chunks.iter().map(|c| c.to_string()).collect::<Vec<_>>().join(",")));
        }
        if self.shuffle != 0 {
            t.push(format!("shuffle={}", self.shuffle));
        }
        if let Some(e) = &self.endless {
            t.push(format!("endless={}", hex(e)));
        }
        t.join(" ")
    }

    /// inverse of `line` (file names lose the scratch prefix again)
    pub fn from_line(line: &str, scratch: &str) -> Case {
        let mut c = Case::default();
        for tok in line.split_whitespace() {
            let Some((k, v)) = tok.split_once('=') else { continue };
            let s = &mut c.spec;
            match k {
                "id" => c.id = v.into(),
                "mode" => c.mode = v.into(),
                "onerror" => s.on_error = Some(v.into()),
                "sel" => s.selects.push(uhs(v)),
                "filter" => s.filter = Some(uhs(v)),
                "split" => s.split = Some(uhs(v)),
                "group" => s.group = Some(Some(uhs(v))),
                "merge" => s.group = Some(None),
                "sort" => s.sorts.push(uhs(v)),
                "skip" => s.skip = v.parse().unwrap_or(0),
                "take" => s.take = v.parse().ok(),
                "unique" => s.unique = true,
                "set" => s.sets.push(uhs(v)),
                "ooa" => s.ooa = true,
                "style" => s.style = Some(v.into()),
                "rowsep" => s.rowsep = Some(uhs(v)),
                "jstyle" => s.jstyle = Some(if v == "oneline" { "one-line".into() } else { v.into() }),
                "utf8" => s.utf8 = true,
                "isep" => s.isep = Some(uhs(v)),
                "spre" => s.spre = Some(uhs(v)),
                "spost" => s.spost = Some(uhs(v)),
                "headers" => s.headers = true,
                "esc" => s.esc.push(uhs(v)),
                "nullkw" => s.nullkw = Some(uhs(v)),
                "truekw" => s.truekw = Some(uhs(v)),
                "falsekw" => s.falsekw = Some(uhs(v)),
                "misskw" => s.misskw = Some(uhs(v)),
                "cache" => s.cache = v.parse().ok(),
                "src" => {
                    if let Some((n, b)) = v.split_once(':') {
                        let name = if n == "-" {
                            None
                        } else {
                            let full = uhs(n);
                            Some(full.strip_prefix(&format!("{scratch}/")).unwrap_or(&full).rsplit('/').next().unwrap_or("f").to_string())
                        };
                        c.sources.push(Source { name, bytes: unhex(b) });
                    }
                }
                "rerr" => {
                    if let Some((i, o)) = v.split_once(':') {
                        c.rerr = Some((i.parse().unwrap_or(0), o.parse().unwrap_or(0)));
                    }
                }
                "wfail" => c.wfail = v.parse().ok(),
                "efail" => c.efail = v.parse().ok(),
                "orc" => {
                    let parts: Vec<&str> = v.split(':').collect();
                    if parts.len() == 3 {
                        let args = if parts[1].is_empty() { vec![] } else { parts[1].split(',').map(uhs).collect() };
                        let res = if parts[2] == "-" { None } else { Some(uhs(parts[2])) };
                        c.orc.push((uhs(parts[0]), args, res));
                    }
                }
                "expr" => c.expr = Some(uhs(v)),
                "xarg" => c.xargs.push(uhs(v)),
                "chunks" => c.chunks = v.split(',').filter_map(|x| x.parse().ok()).collect(),
                "shuffle" => c.shuffle = v.parse().unwrap_or(0),
                "endless" => c.endless = Some(unhex(v)),
                _ => {}
            }
        }
        c
    }
}
