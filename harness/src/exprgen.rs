//! Type-directed generator of selection expressions over the (generated) function table.
use crate::gen_table::FUNCTION_TABLE;
use crate::rng::Rng;
use crate::value::{self, GenOpts, V};

#[derive(Clone, Copy, PartialEq, Debug)]
pub enum Ty {
    Any,
    Num,
    Str,
    Bool,
    Arr,
    Obj,
}

pub struct ExprOpts {
    /// share (percent) of deliberately ill-typed argument choices
    pub ill_typed: usize,
    /// use aliases / comma separators / padding / dot sugar
    pub respell: bool,
    /// allow :var / @macro / set / define
    pub bindings: bool,
    /// allow ^ parents
    pub parents: bool,
    /// allow number-as-string functions
    pub nas: bool,
    /// allow arithmetic (results go through f64)
    pub arithmetic: bool,
    /// names of variables / macros predefined by --set (usable as :v / @m)
    pub vars: Vec<String>,
    pub macros: Vec<String>,
    /// names of earlier selections usable as /name/
    pub selected: Vec<String>,
}

impl Default for ExprOpts {
    fn default() -> Self {
        ExprOpts { ill_typed: 15, respell: true, bindings: true, parents: true, nas: true, arithmetic: true,
                   vars: vec![], macros: vec![], selected: vec![] }
    }
}

/// the record shape expressions are generated against
pub fn gen_record(r: &mut Rng, o: &GenOpts) -> V {
    let mut kvs: Vec<(String, V)> = vec![];
    let num = |r: &mut Rng| value::gen_number(r, o);
    let small = |r: &mut Rng| V::Int(r.below(6) as i128);
    if r.chance(90) {
        kvs.push(("a".into(), if r.chance(70) { small(r) } else { num(r) }));
    }
    if r.chance(85) {
        kvs.push(("b".into(), if r.chance(60) { small(r) } else { num(r) }));
    }
    if r.chance(85) {
        kvs.push(("s".into(), V::Str(value::gen_string(r, o))));
    }
    if r.chance(70) {
        kvs.push(("t".into(), V::Str(r.ps(&["x", "y", "", "abc", "é", "a,b", "1.50", "-2", "1e2"]).to_string())));
    }
    if r.chance(85) {
        let n = r.below(5);
        let elems: Vec<V> = (0..n)
            .map(|_| match r.below(5) {
                0 => V::Str(value::gen_string(r, o)),
                1 => V::Bool(r.chance(50)),
                2 => V::Obj(vec![("a".into(), small(r)), ("s".into(), V::Str(r.ps(&["x", "y", "z"]).to_string()))]),
                3 => V::Arr(vec![small(r), small(r)]),
                _ => small(r),
            })
            .collect();
        kvs.push(("l".into(), V::Arr(elems)));
    }
    if r.chance(80) {
        let n = r.below(4);
        let mut m: Vec<(String, V)> = vec![];
        for _ in 0..n {
            let k = r.ps(&["a", "b", "k", "é", "key-1", ""]).to_string();
            if m.iter().all(|(x, _)| *x != k) {
                m.push((k, value::gen_value(r, o, 2)));
            }
        }
        kvs.push(("o".into(), V::Obj(m)));
    }
    if r.chance(50) {
        kvs.push(("k".into(), match r.below(5) {
            0 => V::Null,
            1 => V::Int(r.below(3) as i128),
            _ => V::Str(r.ps(&["x", "y", "z", "", "é"]).to_string()),
        }));
    }
    if r.chance(30) {
        kvs.push(("n".into(), V::Null));
    }
    if r.chance(15) {
        // not a record at all
        return value::gen_value(r, o, 1);
    }
    V::Obj(kvs)
}

pub struct Gen<'a> {
    pub r: &'a mut Rng,
    pub o: &'a ExprOpts,
    pub functions_used: Vec<String>,
    /// variables / macros bound by an enclosing set / define
    scope_vars: Vec<String>,
    scope_macros: Vec<String>,
}

fn lit_str(s: &str) -> String {
    let mut out = String::new();
    value::escape_canonical(s, &mut out);
    out
}

impl<'a> Gen<'a> {
    pub fn new(r: &'a mut Rng, o: &'a ExprOpts) -> Self {
        Gen { r, o, functions_used: vec![], scope_vars: vec![], scope_macros: vec![] }
    }

    fn name_of(&mut self, canonical: &str) -> String {
        self.functions_used.push(canonical.to_string());
        if self.o.respell && self.r.chance(35) {
            if let Some((_, aliases, _, _)) = FUNCTION_TABLE.iter().find(|(n, _, _, _)| *n == canonical) {
                if !aliases.is_empty() {
                    return self.r.pick(aliases).to_string();
                }
            }
        }
        canonical.to_string()
    }

    /// `(f a b c)` with random separators / padding / dot sugar
    fn call(&mut self, f: &str, args: Vec<String>) -> String {
        let name = self.name_of(f);
        if self.o.respell && !args.is_empty() && args[0] == "." && self.r.chance(50) && !name.starts_with('"') {
            // (.f x) sugar for (f . x)
            let rest = &args[1..];
            return self.join(&format!(".{name}"), rest);
        }
        self.join(&name, &args)
    }

    fn join(&mut self, head: &str, args: &[String]) -> String {
        let mut s = String::from("(");
        s.push_str(head);
        for a in args {
            if self.o.respell {
                match self.r.below(6) {
                    0 => s.push_str(", "),
                    1 => s.push_str(" , "),
                    2 => s.push_str("  "),
                    3 => {
                        // a bare comma is only safe after a closing token
                        if s.ends_with(')') || s.ends_with('"') || s.ends_with(']') || s.ends_with('}') {
                            s.push(',')
                        } else {
                            s.push_str(", ")
                        }
                    }
                    _ => s.push(' '),
                }
            } else {
                s.push(' ');
            }
            s.push_str(a);
        }
        if self.o.respell && self.r.chance(10) {
            s.push(' ');
        }
        s.push(')');
        s
    }

    fn field(&mut self, ty: Ty) -> String {
        let parents = if self.o.parents && self.r.chance(12) { if self.r.chance(70) { "^" } else { "^^" } } else { "" };
        let f = match ty {
            Ty::Num => self.r.ps(&[".a", ".b", ".o.a", ".l#0", ".l#1"]),
            Ty::Str => self.r.ps(&[".s", ".t", ".k", ".o.k"]),
            Ty::Bool => self.r.ps(&[".n", ".l#1", ".o.b"]),
            Ty::Arr => self.r.ps(&[".l", ".l#3", ".o.a"]),
            Ty::Obj => self.r.ps(&[".o", ".", ".l#2"]),
            Ty::Any => self.r.ps(&[".", ".a", ".s", ".l", ".o", ".k", ".zz", ".l#9", ".o.é", "#0", ".n"]),
        };
        format!("{parents}{f}")
    }

    fn literal(&mut self, ty: Ty) -> String {
        match ty {
            Ty::Num => match self.r.below(6) {
                0 => "0".into(),
                1 => "1".into(),
                2 => "2".into(),
                3 => self.r.ps(&["-1", "2.5", "100", "1e2", "0.5", "-0", "3"]).to_string(),
                4 => self.r.ps(&["18446744073709551615", "9007199254740993", "-9223372036854775808", "4", "5"]).to_string(),
                _ => format!("{}", self.r.below(7)),
            },
            Ty::Str => lit_str(self.r.ps(&["", "a", "x", "abc", "é", ", ", "b", "k", "1.5", "-0.50", "12345678901234567890.123", "1e3", "zz"])),
            Ty::Bool => self.r.ps(&["true", "false"]).to_string(),
            Ty::Arr => self.r.ps(&["[]", "[1, 2, 3]", "[\"a\", \"b\"]", "[3, 1, 2, 1]", "[true, false]", "[[1], [2, 3]]", "[{\"a\": 1}, {\"a\": 0}]", "[null, 1, \"x\"]"]).to_string(),
            Ty::Obj => self.r.ps(&["{}", "{\"a\": 1}", "{\"b\": 2, \"a\": 1}", "{\"k\": \"x\", \"é\": [1]}"]).to_string(),
            Ty::Any => {
                let t = *self.r.pick(&[Ty::Num, Ty::Str, Ty::Bool, Ty::Arr, Ty::Obj]);
                if self.r.chance(10) { "null".into() } else { self.literal(t) }
            }
        }
    }

    pub fn expr(&mut self, ty: Ty, depth: usize) -> String {
        // deliberate type confusion
        let ty = if self.r.chance(self.o.ill_typed) { *self.r.pick(&[Ty::Any, Ty::Num, Ty::Str, Ty::Bool, Ty::Arr, Ty::Obj]) } else { ty };
        if depth == 0 || self.r.chance(25) {
            return self.leaf(ty);
        }
        let d = depth - 1;
        match ty {
            Ty::Num => self.num_expr(d),
            Ty::Str => self.str_expr(d),
            Ty::Bool => self.bool_expr(d),
            Ty::Arr => self.arr_expr(d),
            Ty::Obj => self.obj_expr(d),
            Ty::Any => self.any_expr(d),
        }
    }

    fn leaf(&mut self, ty: Ty) -> String {
        let n_vars = self.scope_vars.len() + self.o.vars.len();
        let n_macros = self.scope_macros.len() + self.o.macros.len();
        if self.o.bindings && n_vars > 0 && self.r.chance(15) {
            let all: Vec<String> = self.scope_vars.iter().chain(self.o.vars.iter()).cloned().collect();
            return format!(":{}", self.r.pick(&all));
        }
        if self.o.bindings && n_macros > 0 && self.r.chance(12) {
            let all: Vec<String> = self.scope_macros.iter().chain(self.o.macros.iter()).cloned().collect();
            return format!("@{}", self.r.pick(&all));
        }
        if !self.o.selected.is_empty() && self.r.chance(10) {
            let n = self.r.pick(&self.o.selected).clone();
            return format!("/{}/", n);
        }
        if self.r.chance(60) { self.field(ty) } else { self.literal(ty) }
    }

    fn num_expr(&mut self, d: usize) -> String {
        let arith = self.o.arithmetic;
        match self.r.below(if arith { 12 } else { 4 }) {
            0 => { let a = self.expr(Ty::Any, d); self.call("size", vec![a]) }
            1 => { let a = self.expr(Ty::Arr, d); let i = self.expr(Ty::Num, 0); self.call("get", vec![a, i]) }
            2 => { let a = self.expr(Ty::Arr, d); self.call("first", vec![a]) }
            3 => { let a = self.expr(Ty::Num, d); self.call("as_number", vec![a]) }
            4 => { let n = self.r.range(2, 3); let a: Vec<String> = (0..n).map(|_| self.expr(Ty::Num, d)).collect(); self.call("+", a) }
            5 => { let n = self.r.range(1, 2); let a: Vec<String> = (0..n).map(|_| self.expr(Ty::Num, d)).collect(); self.call("-", a) }
            6 => { let n = self.r.range(2, 3); let a: Vec<String> = (0..n).map(|_| self.expr(Ty::Num, d)).collect(); self.call("*", a) }
            7 => { let a = self.expr(Ty::Num, d); let b = self.expr(Ty::Num, d); self.call("/", vec![a, b]) }
            8 => { let a = self.expr(Ty::Num, d); let b = self.expr(Ty::Num, d); self.call("%", vec![a, b]) }
            9 => { let a = self.expr(Ty::Num, d); let f = self.r.ps(&["abs", "floor", "ceil", "round"]); self.call(f, vec![a]) }
            10 => { let a = self.expr(Ty::Arr, d); self.call("sum", vec![a]) }
            _ => { let a = self.expr(Ty::Arr, d); let i = self.literal(Ty::Num); let f = self.fold_body(d); self.call("fold", vec![a, i, f]) }
        }
    }

    fn fold_body(&mut self, _d: usize) -> String {
        if self.o.arithmetic {
            self.r.ps(&["(+ .so_far .value)", "(+ .so_far .index)", "(default .so_far 0)", ".value", "(size .)"]).to_string()
        } else {
            self.r.ps(&[".value", "(default .so_far .value)", "(size .)", ".index"]).to_string()
        }
    }

    fn str_expr(&mut self, d: usize) -> String {
        match self.r.below(if self.o.nas { 13 } else { 10 }) {
            0 => { let n = self.r.range(2, 3); let a: Vec<String> = (0..n).map(|_| self.expr(Ty::Str, d)).collect(); self.call("concat", a) }
            1 => { let a = self.expr(Ty::Str, d); let n = self.expr(Ty::Num, 0); let f = self.r.ps(&["head", "tail", "take", "take_last"]); self.call(f, vec![a, n]) }
            2 => { let a = self.expr(Ty::Str, d); let n = self.expr(Ty::Num, 0); let m = self.expr(Ty::Num, 0); self.call("sub", vec![a, n, m]) }
            3 => { let a = self.expr(Ty::Any, d); self.call("stringify", vec![a]) }
            4 => { let a = self.expr(Ty::Arr, d); if self.r.chance(50) { self.call("join", vec![a]) } else { let s = self.expr(Ty::Str, 0); self.call("join", vec![a, s]) } }
            5 => { let a = self.expr(Ty::Str, d); self.call("as_string", vec![a]) }
            6 => { let a = self.expr(Ty::Obj, d); let k = self.expr(Ty::Str, 0); self.call("get", vec![a, k]) }
            7 => { let a = self.expr(Ty::Arr, d); self.call("last", vec![a]) }
            8 => { let a = self.expr(Ty::Str, d); let b = self.expr(Ty::Str, d); self.call("default", vec![a, b]) }
            9 => { let a = self.expr(Ty::Obj, d); let k = self.call("keys", vec![a]); self.call("first", vec![k]) }
            10 => { let n = self.r.range(2, 3); let a: Vec<String> = (0..n).map(|_| self.nas_operand(d)).collect(); let f = self.r.ps(&["\"+\"", "\"*\""]); self.call(f, a) }
            11 => { let a = self.nas_operand(d); let b = self.nas_operand(d); let f = self.r.ps(&["\"-\"", "\"%\""]); self.call(f, vec![a, b]) }
            _ => { let a = self.nas_operand(d); let f = self.r.ps(&["\"abs\"", "\"||\"", "\"round\"", "\"-\""]); self.call(f, vec![a]) }
        }
    }

    fn nas_operand(&mut self, d: usize) -> String {
        if self.r.chance(70) {
            lit_str(&gen_decimal(self.r))
        } else {
            self.expr(Ty::Str, d)
        }
    }

    fn bool_expr(&mut self, d: usize) -> String {
        match self.r.below(if self.o.nas { 12 } else { 11 }) {
            0 | 1 => { let t = *self.r.pick(&[Ty::Num, Ty::Str, Ty::Any, Ty::Arr]); let a = self.expr(t, d); let b = self.expr(t, d); let f = self.r.ps(&["=", "!=", "<", "<=", ">", ">="]); self.call(f, vec![a, b]) }
            2 => { let n = self.r.range(2, 3); let a: Vec<String> = (0..n).map(|_| self.expr(Ty::Bool, d)).collect(); let f = self.r.ps(&["and", "or"]); self.call(f, a) }
            3 => { let a = self.expr(Ty::Bool, d); self.call("not", vec![a]) }
            4 => { let a = self.expr(Ty::Bool, d); let b = self.expr(Ty::Bool, d); self.call("xor", vec![a, b]) }
            5 | 6 => { let a = self.expr(Ty::Any, d); let f = self.r.ps(&["array?", "bool?", "empty?", "null?", "number?", "object?", "string?"]); self.call(f, vec![a]) }
            7 => { let a = self.expr(Ty::Arr, d); let f = self.r.ps(&["all", "any"]); self.call(f, vec![a]) }
            8 => { let a = self.expr(Ty::Bool, d); self.call("as_boolean", vec![a]) }
            9 => { let a = self.expr(Ty::Arr, d); let b = self.map_body(Ty::Bool, d); let m = self.call("map", vec![a, b]); self.call("all", vec![m]) }
            10 => { let c = self.expr(Ty::Bool, d); let a = self.expr(Ty::Bool, d); let b = self.expr(Ty::Bool, d); self.call("?", vec![c, a, b]) }
            _ => { let a = self.nas_operand(d); let b = self.nas_operand(d); let f = self.r.ps(&["\"=\"", "\"!=\"", "\"<\"", "\"<=\"", "\">\"", "\">=\""]); self.call(f, vec![a, b]) }
        }
    }

    /// body evaluated with an element as input
    fn map_body(&mut self, ty: Ty, d: usize) -> String {
        match ty {
            Ty::Bool => match self.r.below(5) {
                0 => "(number? .)".into(),
                1 => "(> . 1)".into(),
                2 => "(= . ^.a)".into(),
                3 => "(string? .)".into(),
                _ => self.expr(Ty::Bool, d.min(1)),
            },
            Ty::Str => match self.r.below(4) {
                0 => "(stringify .)".into(),
                1 => ".s".into(),
                2 => "(? (string? .) . \"other\")".into(),
                _ => self.expr(Ty::Str, d.min(1)),
            },
            _ => match self.r.below(6) {
                0 => ".".into(),
                1 => ".a".into(),
                2 => "^.a".into(),
                3 => "(size .)".into(),
                4 => "^^.s".into(),
                _ => self.expr(Ty::Any, d.min(1)),
            },
        }
    }

    fn arr_expr(&mut self, d: usize) -> String {
        match self.r.below(22) {
            0 => { let a = self.expr(Ty::Arr, d); let b = self.map_body(Ty::Any, d); self.call("map", vec![a, b]) }
            1 => { let a = self.expr(Ty::Arr, d); let b = self.map_body(Ty::Bool, d); self.call("filter", vec![a, b]) }
            2 => { let a = self.expr(Ty::Arr, d); self.call("sort", vec![a]) }
            3 => { let a = self.expr(Ty::Arr, d); let b = self.map_body(Ty::Any, d); self.call("sort_by", vec![a, b]) }
            4 => { let a = self.expr(Ty::Arr, d); self.call("sort_unique", vec![a]) }
            5 => { let a = self.expr(Ty::Arr, d); let n = self.expr(Ty::Num, 0); let f = self.r.ps(&["take", "take_last"]); self.call(f, vec![a, n]) }
            6 => { let a = self.expr(Ty::Arr, d); let n = self.expr(Ty::Num, 0); let m = self.expr(Ty::Num, 0); self.call("sub", vec![a, n, m]) }
            7 => { let a = self.expr(Ty::Arr, d); let n = self.r.range(1, 2); let mut v = vec![a]; for _ in 0..n { v.push(self.expr(Ty::Any, d)); } let f = self.r.ps(&["push", "push_front"]); self.call(f, v) }
            8 => { let a = self.expr(Ty::Arr, d); let f = self.r.ps(&["pop", "pop_first", "reverese", "indexed"]); self.call(f, vec![a]) }
            9 => { let n = format!("{}", self.r.below(6)); self.call("range", vec![n]) }
            10 => { let a = self.expr(Ty::Obj, d); let f = self.r.ps(&["keys", "values", "entries"]); self.call(f, vec![a]) }
            11 => { let n = self.r.range(2, 3); let a: Vec<String> = (0..n).map(|_| self.expr(Ty::Arr, d)).collect(); self.call("zip", a) }
            12 => { let a = self.expr(Ty::Arr, d); let b = self.expr(Ty::Arr, d); self.call("cross", vec![a, b]) }
            13 => { let a = self.expr(Ty::Str, d); let b = self.expr(Ty::Str, 0); self.call("split", vec![a, b]) }
            14 => { let a = self.expr(Ty::Arr, d); let b = self.r.ps(&["(range .)", "(push [] . .)", ".l", "[.]", "(take ^.l 2)"]).to_string(); self.call("flat_map", vec![a, b]) }
            15 => { let a = self.expr(Ty::Arr, d); self.call("as_array", vec![a]) }
            16 => { let a = self.expr(Ty::Arr, d); let b = self.expr(Ty::Arr, d); let c = self.expr(Ty::Bool, d); self.call("?", vec![c, a, b]) }
            17 => { let a = self.expr(Ty::Arr, d); let b = self.expr(Ty::Arr, 0); self.call("default", vec![a, b]) }
            18 => { let a = self.expr(Ty::Arr, d); let b = self.r.ps(&["(push (default .so_far []) .value)", "(push_front (default .so_far []) .index)"]).to_string(); self.call("fold", vec![a, b]) }
            19 if self.o.nas => { let a = self.r.ps(&["[\"10\", \"9.5\", \"1e1\", \"-3\", \"x\"]", "[\"2\", \"1.0\", \"1\"]", ".l"]).to_string(); let b = self.r.ps(&[".", "(stringify .)"]).to_string(); self.call("\"sort_by\"", vec![a, b]) }
            20 => { let s = self.expr(Ty::Str, d); self.call("parse", vec![s]) }
            _ => { let a = self.expr(Ty::Arr, d); let b = self.expr(Ty::Any, d); self.call("|", vec![a, b]) }
        }
    }

    fn obj_expr(&mut self, d: usize) -> String {
        match self.r.below(12) {
            0 => { let a = self.expr(Ty::Obj, d); let k = self.expr(Ty::Str, 0); let v = self.expr(Ty::Any, d); let f = self.r.ps(&["put", "insert_if_absent", "replace_if_exists"]); self.call(f, vec![a, k, v]) }
            1 => { let a = self.expr(Ty::Obj, d); let b = self.map_body(Ty::Any, d); self.call("map_values", vec![a, b]) }
            2 => { let a = self.expr(Ty::Obj, d); let b = self.r.ps(&["(concat . \"x\")", ".", "(take . 1)", "1", "\"same\""]).to_string(); self.call("map_keys", vec![a, b]) }
            3 => { let a = self.expr(Ty::Obj, d); let b = self.r.ps(&["(= . \"a\")", "(< . \"b\")", "true", "(string? .)", "1"]).to_string(); self.call("filter_keys", vec![a, b]) }
            4 => { let a = self.expr(Ty::Obj, d); let b = self.map_body(Ty::Bool, d); self.call("filter_values", vec![a, b]) }
            5 => { let a = self.expr(Ty::Obj, d); let f = self.r.ps(&["sort_by_keys", "sort_by_values", "as_object"]); self.call(f, vec![a]) }
            6 => { let a = self.expr(Ty::Obj, d); let b = self.map_body(Ty::Any, d); self.call("sort_by_values_by", vec![a, b]) }
            7 => { let a = self.expr(Ty::Arr, d); let b = self.r.ps(&[".s", "(stringify .)", "(stringify (size .))", ".", "(? (number? .) \"n\" \"o\")"]).to_string(); self.call("group_by", vec![a, b]) }
            8 => { let a = self.expr(Ty::Obj, d); let n = self.expr(Ty::Num, 0); let f = self.r.ps(&["take", "take_last"]); self.call(f, vec![a, n]) }
            9 => { let a = self.expr(Ty::Obj, d); let n = self.expr(Ty::Num, 0); let m = self.expr(Ty::Num, 0); self.call("sub", vec![a, n, m]) }
            10 => { let a = self.expr(Ty::Arr, d); self.call("first", vec![a]) }
            _ => { let a = self.expr(Ty::Obj, d); let b = self.expr(Ty::Obj, 0); self.call("default", vec![a, b]) }
        }
    }

    fn any_expr(&mut self, d: usize) -> String {
        let n = if self.o.bindings { 9 } else { 6 };
        match self.r.below(n) {
            0 => { let t = *self.r.pick(&[Ty::Num, Ty::Str, Ty::Bool, Ty::Arr, Ty::Obj]); self.expr(t, d + 1) }
            1 => { let c = self.expr(Ty::Bool, d); let a = self.expr(Ty::Any, d); let b = self.expr(Ty::Any, d); self.call("?", vec![c, a, b]) }
            2 => { let k = self.r.range(1, 3); let a: Vec<String> = (0..k).map(|_| self.expr(Ty::Any, d)).collect(); self.call("default", a) }
            3 => { let a = self.expr(Ty::Any, d); let b = self.map_body(Ty::Any, d); let mut v = vec![a, b]; if self.r.chance(30) { v.push(self.map_body(Ty::Any, d)); } self.call("|", v) }
            4 => { let a = self.expr(Ty::Any, d); let b = self.expr(Ty::Any, 0); self.call("get", vec![a, b]) }
            5 => { let a = self.expr(Ty::Str, d); self.call("parse", vec![a]) }
            6 => {
                // (set "v" value body) with :v visible in body
                let name = self.r.ps(&["v", "w", "x1"]).to_string();
                let val = self.expr(Ty::Any, d);
                self.scope_vars.push(name.clone());
                let body = self.expr(Ty::Any, d);
                self.scope_vars.pop();
                self.call("set", vec![lit_str(&name), val, body])
            }
            7 => {
                let name = self.r.ps(&["m", "m2"]).to_string();
                let def = self.expr(Ty::Any, d);
                self.scope_macros.push(name.clone());
                let body = self.expr(Ty::Any, d);
                self.scope_macros.pop();
                self.call("define", vec![lit_str(&name), def, body])
            }
            _ => {
                // (: "v") / (@ "m") function forms
                if self.r.chance(50) {
                    let all: Vec<String> = self.scope_vars.iter().chain(self.o.vars.iter()).cloned().collect();
                    let n = if all.is_empty() { "v".to_string() } else { self.r.pick(&all).clone() };
                    self.call(":", vec![lit_str(&n)])
                } else {
                    let all: Vec<String> = self.scope_macros.iter().chain(self.o.macros.iter()).cloned().collect();
                    let n = if all.is_empty() { "m".to_string() } else { self.r.pick(&all).clone() };
                    self.call("@", vec![lit_str(&n)])
                }
            }
        }
    }
}

/// decimal strings for the number-as-string functions (alphabet 0-9 + - . e E)
pub fn gen_decimal(r: &mut Rng) -> String {
    let mut s = String::new();
    match r.below(8) {
        0 => s.push('-'),
        1 => s.push('+'),
        _ => {}
    }
    let int_digits = if r.chance(15) { r.range(15, 40) } else { r.range(1, 6) };
    if r.chance(20) {
        for _ in 0..r.range(1, 3) {
            s.push('0');
        }
    }
    for _ in 0..int_digits {
        s.push((b'0' + r.below(10) as u8) as char);
    }
    if r.chance(55) {
        s.push('.');
        let frac = if r.chance(15) { r.range(10, 40) } else { r.range(0, 5) };
        for _ in 0..frac {
            s.push((b'0' + r.below(10) as u8) as char);
        }
        if r.chance(30) {
            for _ in 0..r.range(1, 3) {
                s.push('0');
            }
        }
    }
    if r.chance(25) {
        s.push(if r.chance(50) { 'e' } else { 'E' });
        match r.below(3) {
            0 => s.push('-'),
            1 => s.push('+'),
            _ => {}
        }
        let e = if r.chance(20) { r.range(20, 100) } else { r.range(0, 12) };
        s.push_str(&e.to_string());
    }
    s
}
