//! Per-property case generators.  A *group* is a list of related cases (e.g. the members of
//! a metamorphic relation); the implementation-side oracle of the property looks at a group.
use crate::case::{Case, Source, Spec};
use crate::exprgen::{self, ExprOpts, Gen, Ty};
use crate::rng::Rng;
use crate::value::{norm_float, self, GenOpts, V};

pub struct Group {
    pub cases: Vec<Case>,
    /// abstract input values when the generator knows them (C01/C02/C06/C17 oracles)
    pub values: Vec<V>,
    /// free-form tag used by the oracle
    pub tag: String,
    /// is this case non-trivial by the property's rule?
    pub nontrivial: bool,
    /// distribution labels counted into the evidence
    pub labels: Vec<String>,
}

impl Group {
    pub fn new(cases: Vec<Case>) -> Group {
        Group { cases, values: vec![], tag: String::new(), nontrivial: true, labels: vec![] }
    }
}

pub fn stdin_src(bytes: Vec<u8>) -> Source {
    Source { name: None, bytes }
}

/// serialise values into one stream with legal separators; returns (bytes, noncanonical?)
pub fn stream_of(r: &mut Rng, vals: &[V], fancy: bool) -> (Vec<u8>, bool) {
    let mut out = String::new();
    let mut noncanon = false;
    if fancy && r.chance(20) {
        out.push_str(r.ps(&[" ", "\n", "\t\r\n"]));
    }
    let mut prev = String::new();
    for (i, v) in vals.iter().enumerate() {
        let text = if fancy { value::spell(r, v) } else { value::render(v) };
        if text != value::render(v) {
            noncanon = true;
        }
        if i > 0 {
            if fancy && value::may_touch(&prev, &text) && r.chance(30) {
                noncanon = true; // touching tokens
            } else if fancy {
                out.push_str(r.ps(&[" ", "\n", "\n", "\r\n", "\t", "  \n ", "\n\n"]));
            } else {
                out.push('\n');
            }
        }
        out.push_str(&text);
        prev = text;
    }
    if fancy && r.chance(50) {
        out.push_str(r.ps(&["\n", " ", "\r\n\t"]));
    }
    (out.into_bytes(), noncanon)
}

fn base_case(id: String) -> Case {
    Case { id, mode: "run".into(), ..Default::default() }
}

// ---------------------------------------------------------------------------------- C01

pub fn gen_c01(r: &mut Rng, id: usize, thorough: bool) -> Group {
    if r.below(if thorough { 250 } else { 40 }) == 0 {
        // inputs of tens of KiB made of tokens of many lengths: whatever block size a reader uses, tokens of every kind end up
        // straddling its block boundaries (numbers with long digit runs, strings with escapes and multi-byte characters, words)
        let target = r.range(17_000, 40_000);
        let mut vals: Vec<V> = vec![];
        let mut size = 0usize;
        while size < target {
            let v = match r.below(7) {
                0 => V::Int((r.next() % 1_000_000_007) as i128 * (r.next() % 1_000_003) as i128),
                1 => V::Int(-((r.next() >> (r.below(60) as u32)) as i64 as i128).abs()),
                2 => norm_float((r.next() % 1_000_000_000) as f64 / 1024.0 + 0.5),
                3 => V::Str("é日\"\\x".repeat(r.below(6))),
                4 => V::Bool(r.chance(50)),
                5 => V::Arr((0..r.below(4)).map(|_| V::Int((r.next() % 100_000_000_000) as i128)).collect()),
                _ => V::Null,
            };
            size += value::render(&v).len() + 1;
            vals.push(v);
        }
        let (bytes, _) = stream_of(r, &vals, true);
        let mut c = base_case(format!("C01-{id}-large"));
        c.sources.push(stdin_src(bytes));
        let mut g = Group::new(vec![c]);
        g.nontrivial = true;
        g.labels.push("kind:large-input".into());
        g.values = vals;
        return g;
    }
    let o = GenOpts { astral: false, max_depth: if r.chance(10) { 6 } else { 3 }, ..Default::default() };
    // long streams dense in EMPTY containers, top-level and nested (state a reader carries from value to value — a nesting
    // counter, a reused buffer — shows only after hundreds of them); in the quick tier too
    let n = if r.chance(if thorough { 5 } else { 2 }) { r.range(100, 600) } else { r.range(1, 12) };
    let many_empty = n >= 100;
    let vals: Vec<V> = (0..n)
        .map(|_| {
            if many_empty {
                // long streams with many empty containers (nesting stays small)
                match r.below(4) {
                    0 => V::Obj(vec![("id".into(), V::Int(r.below(100) as i128)), ("tags".into(), V::Arr(vec![])), ("meta".into(), V::Obj(vec![]))]),
                    1 => V::Arr(vec![]),
                    2 => V::Obj(vec![]),
                    _ => value::gen_value(r, &o, 1),
                }
            } else {
                value::gen_value(r, &o, 0)
            }
        })
        .collect();
    let (bytes, noncanon) = stream_of(r, &vals, true);
    let mut c = base_case(format!("C01-{id}"));
    c.sources.push(stdin_src(bytes));
    let mut g = Group::new(vec![c]);
    g.nontrivial = vals.len() >= 2 && noncanon;
    g.labels.push(format!("values:{}", bucket(vals.len())));
    if many_empty {
        g.labels.push("kind:many-empty-containers".into());
    }
    g.values = vals;
    g
}

pub fn bucket(n: usize) -> &'static str {
    match n {
        0 => "0",
        1 => "1",
        2..=5 => "2-5",
        6..=20 => "6-20",
        21..=100 => "21-100",
        _ => ">100",
    }
}

// ---------------------------------------------------------------------------------- C02

/// thorough only: EVERY code point of the Basic Multilingual Plane (surrogates apart), 256 per case, and every 64th code
/// point of the other planes, each as a one-character string, with and without --utf8-strings (astral ones only with it:
/// finding F3)
pub fn c02_exhaustive_size() -> usize {
    2 * 256 + 64
}

fn gen_c02_exhaustive(id: usize) -> Group {
    let (cps, utf8): (Vec<u32>, bool) = if id < 512 {
        let block = (id / 2) as u32;
        ((block * 256..(block + 1) * 256).filter(|c| !(0xD800..0xE000).contains(c)).collect(), id % 2 == 1)
    } else {
        let k = (id - 512) as u32;
        ((0..256u32).map(|j| 0x10000 + (k * 256 + j) * 64).filter(|c| *c <= 0x10FFFF).collect(), true)
    };
    let mut text = String::from("[");
    text.push_str(&cps.iter().map(|c| {
        if *c < 0x10000 { format!("\"\\u{:04x}\"", c) } else { format!("\"{}\"", char::from_u32(*c).unwrap()) }
    }).collect::<Vec<_>>().join(","));
    text.push_str("]\n");
    let vals: Vec<V> = if cps.is_empty() { vec![V::Arr(vec![])] } else { vec![crate::value::strict_parse(text.trim_end().as_bytes()).expect("generated row")] };
    let mut c = base_case(format!("C02-x{id}"));
    c.sources.push(stdin_src(text.into_bytes()));
    c.spec.utf8 = utf8;
    c.spec.jstyle = Some(["one-line", "consise", "pretty"][id % 3].into());
    let mut g = Group::new(vec![c]);
    g.values = vals;
    g.nontrivial = true;
    g.labels.push("kind:exhaustive-code-points".into());
    g
}

pub fn gen_c02(r: &mut Rng, id: usize, thorough: bool) -> Group {
    if thorough && id < c02_exhaustive_size() {
        return gen_c02_exhaustive(id);
    }
    if r.below(10) == 0 {
        // rows that are COMPUTED, at the edge of the double range: whatever is printed must still be JSON
        // (an overflowing product times zero, zero by zero, remainders by zero, sums that leave the range)
        let exprs = ["(* 1e308 10 .x)", "(* .x 1e308 10)", "(/ .x .x)", "(/ 0 .x)", "(/ .x 0)", "(% 1 .x)", "(% 1.5 .x)", "(% .x .x)",
                     "(* (* 1e308 10) .x)", "(+ 1e308 1e308 .x)", "(- (- -1e308 1e308) .x)", "(sum (push [1e308, 1e308] .x))", "(* 1e308 1e308 0 .x)",
                     "(* -1e308 10 .x)", "(/ (/ 1e308 1e-308) .x)", "(abs (* 1e308 10 .x))", "(round (* 1e308 10 .x))", "(fold [10, 0] 1e308 (* .so_far .value ^.x))"];
        let xs = ["0", "0.0", "-0.0", "1", "-1", "1e308", "-1e308", "0.5", "null"];
        let mut c = base_case(format!("C02-{id}-computed"));
        let nsel = r.range(1, 3);
        for i in 0..nsel {
            c.spec.selects.push(format!("{}=c{i}", r.ps(&exprs)));
        }
        let mut text = String::new();
        for _ in 0..r.range(1, 4) {
            text.push_str(&format!("{{\"x\":{}}}\n", r.ps(&xs)));
        }
        c.sources.push(stdin_src(text.into_bytes()));
        c.spec.jstyle = match r.below(4) { 0 => None, 1 => Some("one-line".into()), 2 => Some("consise".into()), _ => Some("pretty".into()) };
        let mut g = Group::new(vec![c]);
        g.tag = "computed".into();
        g.nontrivial = true;
        g.labels.push("kind:computed-edge".into());
        return g;
    }
    if r.below(14) == 0 {
        // EVERY control character (C0, DEL, C1) and the code points around the edges of the printer's ranges, each as a string
        // of its own and as a member name: all must come out in a spelling RFC 8259 allows (the strict reader knows the nine
        // two-character escapes and \uXXXX, nothing else)
        let mut cps: Vec<u32> = (0u32..0x20).collect();
        cps.extend([0x7e, 0x7f, 0x80, 0x85, 0x9f, 0xa0, 0xad, 0x2028, 0x2029, 0xd7ff, 0xe000, 0xfffd, 0xfffe, 0xffff]);
        let esc = |cp: u32| format!("\\u{:04x}", cp);
        let mut text = String::from("[");
        text.push_str(&cps.iter().map(|c| format!("\"{}\"", esc(*c))).collect::<Vec<_>>().join(","));
        text.push_str("]\n{");
        text.push_str(&cps.iter().map(|c| format!("\"k{}\":\"a{}b\"", esc(*c), esc(*c))).collect::<Vec<_>>().join(","));
        text.push_str("}\n");
        let vals: Vec<V> = text.lines().map(|l| crate::value::strict_parse(l.as_bytes()).expect("generated row")).collect();
        let mut c = base_case(format!("C02-{id}-every-control"));
        c.sources.push(stdin_src(text.into_bytes()));
        c.spec.jstyle = match r.below(4) { 0 => None, 1 => Some("one-line".into()), 2 => Some("consise".into()), _ => Some("pretty".into()) };
        c.spec.utf8 = r.chance(50);
        let mut g = Group::new(vec![c]);
        g.values = vals;
        g.nontrivial = true;
        g.labels.push("kind:every-control-character".into());
        return g;
    }
    if r.below(12) == 0 {
        // runs of rows that jawk's `==` calls equal although they are different values (member order; an integer next to the
        // double it rounds to; -0 next to 0 is left to C10's exclusions): every row must still be printed as ITS value
        let members = [("a", "1"), ("b", "\"x\""), ("c", "[1,2]"), ("d", "null")];
        let k = r.range(2, 4);
        let base: Vec<(&str, &str)> = members[..k].to_vec();
        let mut perm = base.clone();
        perm.reverse();
        let obj = |m: &[(&str, &str)]| format!("{{{}}}", m.iter().map(|(k, v)| format!("\"{k}\":{v}")).collect::<Vec<_>>().join(","));
        let pairs: Vec<(String, String)> = vec![
            (obj(&base), obj(&perm)),
            ("18446744073709551615".into(), "18446744073709551616".into()),
            ("18446744073709551616".into(), "18446744073709551615".into()),
            (format!("[{}]", obj(&base)), format!("[{}]", obj(&perm))),
            ("[18446744073709551615,1]".into(), "[18446744073709551616,1]".into()),
        ];
        let mut text = String::new();
        for _ in 0..r.range(1, 3) {
            let (a, b) = r.pick(&pairs).clone();
            for x in [&a, &b, &a, &a, &b] {
                text.push_str(x);
                text.push('\n');
            }
        }
        let vals: Vec<V> = text.lines().map(|l| crate::value::strict_parse(l.as_bytes()).expect("generated row")).collect();
        let mut c = base_case(format!("C02-{id}-equal-neighbours"));
        c.sources.push(stdin_src(text.into_bytes()));
        c.spec.jstyle = match r.below(4) { 0 => None, 1 => Some("one-line".into()), 2 => Some("consise".into()), _ => Some("pretty".into()) };
        let mut g = Group::new(vec![c]);
        g.values = vals;
        g.nontrivial = true;
        g.labels.push("kind:equal-neighbours".into());
        return g;
    }
    let utf8 = r.chance(50);
    // astral characters only with --utf8-strings (without it: known finding F3)
    let o = GenOpts { astral: utf8, ..Default::default() };
    let n = r.range(1, 4);
    let vals: Vec<V> = (0..n).map(|_| value::gen_value(r, &o, 0)).collect();
    let (bytes, _) = stream_of(r, &vals, false);
    let mut c = base_case(format!("C02-{id}"));
    c.sources.push(stdin_src(bytes));
    c.spec.jstyle = match r.below(4) {
        0 => None,
        1 => Some("one-line".into()),
        2 => Some("consise".into()),
        _ => Some("pretty".into()),
    };
    c.spec.utf8 = utf8;
    c.spec.rowsep = match r.below(4) {
        0 => Some("\r\n".into()),
        1 => Some("---\n".into()),
        _ => None,
    };
    let nontrivial = vals.iter().any(|v| {
        let t = value::render(v);
        t.chars().any(|c| (c as u32) > 126 || (c as u32) < 32) || t.contains('.') || t.contains("[[") || t.contains("{\"") && t.contains(":{") || t.len() > 17
    });
    let style = c.spec.jstyle.clone().unwrap_or("default".into());
    let mut g = Group::new(vec![c]);
    g.values = vals;
    g.nontrivial = nontrivial;
    g.labels.push(format!("style:{style}"));
    g.labels.push(format!("utf8:{utf8}"));
    g
}

// ---------------------------------------------------------------------------------- pipelines (C03 C08 C09 C10 C07)

/// rows over a small key universe: many ties, repeats, absent keys, mixed types
pub fn gen_rows(r: &mut Rng, n: usize, universe: &[V]) -> Vec<V> {
    (0..n)
        .map(|i| {
            let mut kvs: Vec<(String, V)> = vec![("id".into(), V::Int(i as i128))];
            if r.chance(88) {
                kvs.push(("k".into(), r.pick(universe).clone()));
            }
            if r.chance(80) {
                kvs.push(("j".into(), V::Int(r.below(3) as i128)));
            }
            if r.chance(40) {
                kvs.push(("g".into(), match r.below(6) {
                    0 => V::Null,
                    1 => V::Int(1),
                    2 => V::Str("".into()),
                    3 => V::Str("é".into()),
                    _ => V::Str(r.ps(&["x", "y"]).to_string()),
                }));
            }
            if r.chance(30) {
                let m = r.below(4);
                kvs.push(("l".into(), V::Arr((0..m).map(|t| V::Obj(vec![("k".into(), r.pick(universe).clone()), ("t".into(), V::Int(t as i128))])).collect())));
            }
            if r.chance(8) {
                return r.pick(universe).clone(); // a scalar row
            }
            V::Obj(kvs)
        })
        .collect()
}

pub fn key_universe_small() -> Vec<V> {
    vec![V::Int(0), V::Int(1), V::Int(2), V::Str("a".into()), V::Str("b".into()), V::Null, V::Bool(true), V::Float(1.5), V::Int(-1), V::Str("".into())]
}

/// the ~120 value universe of C07: all types, ties, numerically equal spellings, `-0`
pub fn key_universe_large() -> Vec<V> {
    let mut u = vec![V::Null, V::Bool(false), V::Bool(true)];
    for s in ["", "a", "A", "ab", "b", "é", "z", "~", "\u{7f}", "\u{80}", "日本", "\u{ffff}", "a b", "10", "9"] {
        u.push(V::Str(s.into()));
    }
    for i in [-1000i128, -3, -2, -1, 0, 1, 2, 3, 10, 255, 1 << 31, (1 << 53) - 1, -(1 << 53) + 1] {
        u.push(V::Int(i));
    }
    for f in [-2.5, -0.5, 0.5, 1.5, 2.5, 1e-7, 1e300, -1e300, 0.1, 0.30000000000000004, 5e-324, 2.0000000000000004] {
        u.push(V::Float(f));
    }
    u.push(V::Arr(vec![]));
    u.push(V::Arr(vec![V::Int(1)]));
    u.push(V::Arr(vec![V::Int(1), V::Int(2)]));
    u.push(V::Arr(vec![V::Int(1), V::Int(3)]));
    u.push(V::Arr(vec![V::Int(2)]));
    u.push(V::Arr(vec![V::Null]));
    u.push(V::Arr(vec![V::Str("a".into())]));
    u.push(V::Arr(vec![V::Arr(vec![])]));
    u.push(V::Obj(vec![]));
    u.push(V::Obj(vec![("a".into(), V::Int(1))]));
    u.push(V::Obj(vec![("a".into(), V::Int(2))]));
    u.push(V::Obj(vec![("b".into(), V::Int(1))]));
    u.push(V::Obj(vec![("a".into(), V::Int(1)), ("b".into(), V::Int(2))]));
    u.push(V::Obj(vec![("a".into(), V::Str("x".into()))]));
    // the same members written in another order, and a neighbour in between
    u.push(V::Obj(vec![("b".into(), V::Int(2)), ("a".into(), V::Int(1))]));
    u.push(V::Obj(vec![("a".into(), V::Int(1)), ("b".into(), V::Int(3))]));
    // objects of one size with DIFFERENT key sets, their members not written in key order (the order of objects goes by the sorted
    // keys, not by the text)
    u.push(V::Obj(vec![("z".into(), V::Int(1)), ("a".into(), V::Int(2))]));
    u.push(V::Obj(vec![("b".into(), V::Int(1)), ("c".into(), V::Int(2))]));
    u.push(V::Obj(vec![("c".into(), V::Int(2)), ("b".into(), V::Int(9))]));
    u.push(V::Obj(vec![("a b".into(), V::Int(1))]));
    u
}

pub const KEY_EXPRS: &[&str] = &[".k", ".j", ".g", "(size .l)", ".id", "(default .k .j)", ".l#0.k", "(? (number? .k) .k .j)"];
pub const FILTER_EXPRS: &[&str] = &["(number? .k)", "(string? .k)", "(> .j 0)", "(not (empty? .k))", "true", "(< .k 2)", "(= .j 1)", "(empty? .g)", ".k"];
pub const SELECT_EXPRS: &[&str] = &[".k", ".j", ".id", ".g", "(size .l)", ".", ".zz", "(stringify .k)", ".l#0"];
pub const GROUP_EXPRS: &[&str] = &[".g", ".k", "(stringify .j)", "(stringify .k)", ".zz"];

pub struct PipeOpts {
    pub sorts: bool,
    pub limit: bool,
    pub group: bool,
    pub unique: bool,
    pub split: bool,
    pub filter: bool,
    pub select: bool,
    pub sets: bool,
    pub text: bool,
    pub force_limit: bool,
    pub force_sort: bool,
    pub force_group: bool,
    pub force_unique: bool,
}

impl Default for PipeOpts {
    fn default() -> Self {
        PipeOpts { sorts: true, limit: true, group: true, unique: true, split: true, filter: true, select: true, sets: true, text: true,
                   force_limit: false, force_sort: false, force_group: false, force_unique: false }
    }
}

pub fn dir_spelling(r: &mut Rng) -> (&'static str, bool) {
    *r.pick(&[("", false), (" asc", false), (" ASC", false), (" AsC", false), (" desc", true), (" DESC", true), (" dEsC", true), ("  Desc ", true)])
}

pub fn gen_pipe_spec(r: &mut Rng, p: &PipeOpts) -> Spec {
    let mut s = Spec::default();
    if p.sets && r.chance(15) {
        s.sets.push("lim=1".into());
        if r.chance(50) {
            s.sets.push("@kk=.k".into());
        }
    }
    if p.split && r.chance(20) {
        s.split = Some(r.ps(&[".l", "(default .l [])", "(push [] . .)"]).to_string());
    }
    if p.filter && r.chance(35) {
        let mut f = r.pick(FILTER_EXPRS).to_string();
        if !s.sets.is_empty() && r.chance(50) {
            f = "(>= .j :lim)".into();
        }
        s.filter = Some(f);
    }
    if p.select && r.chance(50) {
        let n = r.range(1, 3);
        let names = ["x", "y", "z"];
        for i in 0..n {
            let e = if s.sets.len() > 1 && r.chance(40) { "@kk" } else { *r.pick(SELECT_EXPRS) };
            if r.chance(80) {
                s.selects.push(format!("{}={}", e, names[i]));
            } else {
                s.selects.push(e.to_string());
            }
        }
    }
    if p.force_unique || (p.unique && r.chance(25)) {
        s.unique = true;
    }
    if p.force_sort || (p.sorts && r.chance(45)) {
        let n = if r.chance(60) { 1 } else { r.range(2, 3) };
        for _ in 0..n {
            let (d, _) = dir_spelling(r);
            s.sorts.push(format!("{}{}", r.pick(KEY_EXPRS), d));
        }
    }
    if p.force_limit || (p.limit && r.chance(45)) {
        if r.chance(60) {
            s.skip = r.below(7) as u64;
        }
        if r.chance(75) || s.skip == 0 {
            s.take = Some(r.below(7) as u64);
        }
    }
    if p.force_group || (p.group && r.chance(25)) {
        s.group = if r.chance(60) { Some(Some(r.pick(GROUP_EXPRS).to_string())) } else { Some(None) };
    }
    if p.text && r.chance(20) {
        s.style = Some("text".into());
        if r.chance(30) {
            s.misskw = Some("N/A".into());
        }
    } else if p.text && r.chance(8) && !s.selects.is_empty() && s.group.is_none() {
        s.style = Some("csv".into());
    } else if r.chance(15) {
        s.jstyle = Some(r.ps(&["consise", "one-line", "pretty"]).to_string());
    }
    s
}

pub fn active_stages(s: &Spec) -> usize {
    (s.split.is_some() as usize) + (s.filter.is_some() as usize) + (!s.selects.is_empty() as usize) + (s.unique as usize)
        + (!s.sorts.is_empty() as usize) + ((s.skip != 0 || s.take.is_some()) as usize) + (s.group.is_some() as usize)
}

pub fn gen_pipeline(r: &mut Rng, id: usize, prop: &str, p: &PipeOpts, universe: &[V], max_rows: usize) -> Group {
    let n = if r.chance(10) { r.below(3) } else { r.range(0, max_rows) };
    let rows = gen_rows(r, n, universe);
    let (bytes, _) = stream_of(r, &rows, false);
    let mut c = base_case(format!("{prop}-{id}"));
    c.spec = gen_pipe_spec(r, p);
    if r.chance(30) {
        c.shuffle = r.next() | 1;
    }
    if r.chance(10) {
        c.spec.ooa = true;
    }
    // the same records on standard input or as 1..3 input files (cut between records): the pipeline, its end-of-input
    // handling and Break propagation must not depend on where the records come from
    let as_files = r.chance(22);
    if as_files {
        let k = r.range(1, 3).min(rows.len().max(1));
        let mut cut: Vec<usize> = (0..k - 1).map(|_| r.below(rows.len() + 1)).collect();
        cut.sort();
        cut.push(rows.len());
        let mut prev = 0;
        for (i, e) in cut.iter().enumerate() {
            let (b, _) = stream_of(r, &rows[prev..*e], false);
            c.sources.push(Source { name: Some(format!("in{i}.json")), bytes: b });
            prev = *e;
        }
    } else {
        c.sources.push(stdin_src(bytes));
    }
    let stages = active_stages(&c.spec);
    let mut g = Group::new(vec![c]);
    g.values = rows;
    g.nontrivial = stages >= 2 && n >= 2;
    g.labels.push(format!("stages:{stages}"));
    g.labels.push(format!("rows:{}", bucket(n)));
    g.labels.push(format!("input:{}", if as_files { "files" } else { "stdin" }));
    g
}

// ---------------------------------------------------------------------------------- expressions (C04 C05 C12 C13 C19)

pub fn gen_expr_case(r: &mut Rng, id: usize, prop: &str, eo: &ExprOpts, depth: usize) -> Group {
    let go = GenOpts { astral: false, ..Default::default() };
    let n = r.range(1, 3);
    let recs: Vec<V> = (0..n).map(|_| exprgen::gen_record(r, &go)).collect();
    let (bytes, _) = stream_of(r, &recs, false);
    let mut c = base_case(format!("{prop}-{id}"));
    let ty = *r.pick(&[Ty::Any, Ty::Num, Ty::Str, Ty::Bool, Ty::Arr, Ty::Obj]);
    let (e, used) = {
        let mut g = Gen::new(r, eo);
        let e = g.expr(ty, depth);
        (e, g.functions_used.clone())
    };
    c.spec.selects.push(format!("{e}=x"));
    c.spec.utf8 = true;
    c.sources.push(stdin_src(bytes));
    let mut g = Group::new(vec![c]);
    g.values = recs;
    g.tag = e.clone();
    g.nontrivial = e.matches('(').count() >= 2;
    for f in used {
        g.labels.push(format!("fn:{f}"));
    }
    g
}
