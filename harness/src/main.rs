//! K2: correspondence between the Lean model and the real jawk, plus the
//! implementation-side oracles used to turn a disagreement into a failing input.
//!
//!   harness run --prop C03 --n 2000 --seed 1 [--thorough] --report out.json [--replay-dir dir]
//!   harness replay <file.case>
mod case;
mod exprgen;
mod gen_table;
mod gens;
mod oracle_a;
mod oracle_b;
mod probe;
mod props;
mod rng;
mod runner;
mod value;

use case::Case;
use runner::{canon_reports, run_model, run_rust, show_bytes, Obs, Scratch};
use std::collections::BTreeMap;

fn jstr(s: &str) -> String {
    let mut out = String::from("\"");
    for c in s.chars() {
        match c {
            '"' => out.push_str("\\\""),
            '\\' => out.push_str("\\\\"),
            '\n' => out.push_str("\\n"),
            '\r' => out.push_str("\\r"),
            '\t' => out.push_str("\\t"),
            c if (c as u32) < 0x20 => out.push_str(&format!("\\u{:04x}", c as u32)),
            c => out.push(c),
        }
    }
    out.push('"');
    out
}

/// what is compared between model and implementation for a property
struct Projection {
    out: bool,
    err: bool,
    pulled: bool,
}

fn projection(prop: &str) -> Projection {
    match prop {
        "C14" => Projection { out: true, err: true, pulled: true },
        "C17" => Projection { out: true, err: true, pulled: true },
        _ => Projection { out: true, err: true, pulled: false },
    }
}

fn canon_model_res(res: &str) -> String {
    if let Some(r) = res.strip_prefix("err:abort:") {
        if r.starts_with("panic") {
            return "abort:panic".into();
        }
        return format!("abort:{r}");
    }
    res.to_string()
}

fn canon_rust_res(res: &str) -> String {
    // clap-level rejections are configuration errors
    if res == "err:clap" {
        return "err:config".into();
    }
    if res == "abort:crash" {
        // the child process died (stack overflow / allocation abort): the model's `overflow` outcome
        return "abort:overflow".into();
    }
    res.replace("+overrun", "")
}

fn differs(p: &Projection, c: &Case, rust: &Obs, model: &Obs) -> Option<String> {
    let rr = canon_rust_res(&rust.res);
    let mr = canon_model_res(&model.res);
    if c.mode == "main" {
        return None; // C20: the binary is compared by its own routine
    }
    if rr != mr {
        return Some(format!("result: impl={} model={} {}", rust.res, model.res, rust.panic_msg));
    }
    if c.id.ends_with("-edgeorder") {
        // the relative order of values that tie under jawk's order is unspecified: only the outcome is compared
        return None;
    }
    if rust.res == "abort:crash" || rust.res == "hang" {
        // the child process died: what it had written is lost, only the outcome is comparable
        return None;
    }
    if c.endless.is_some() {
        // the model is fed the finite prefix only: compare when the run stopped inside the prefix
        let prefix = c.sources.first().map(|s| s.bytes.len()).unwrap_or(0);
        if rust.pulled.first().copied().unwrap_or(0) > prefix {
            return None;
        }
    }
    if p.out && canon_reports(&rust.out) != model.out {
        return Some(format!("stdout: impl={:?} model={:?}", show_bytes(&rust.out), show_bytes(&model.out)));
    }
    if p.err && canon_reports(&rust.err) != model.err {
        return Some(format!("stderr: impl={:?} model={:?}", show_bytes(&rust.err), show_bytes(&model.err)));
    }
    if p.pulled && c.sources.len() == 1 && c.sources[0].name.is_none() && c.rerr.is_none() {
        let m = model.pulled.first().copied().unwrap_or(0);
        let r = rust.pulled.first().copied().unwrap_or(0);
        if m != r {
            return Some(format!("bytes pulled from stdin: impl={r} model={m}"));
        }
    }
    None
}

struct Args {
    cmd: String,
    prop: String,
    n: usize,
    seed: u64,
    thorough: bool,
    report: Option<String>,
    replay_dir: String,
    file: Option<String>,
    corpus: Option<String>,
}

fn parse_args() -> Args {
    let mut a = Args { cmd: String::new(), prop: String::new(), n: 1000, seed: 1, thorough: false, report: None,
                       replay_dir: "/verif/replays".into(), file: None, corpus: None };
    let v: Vec<String> = std::env::args().collect();
    let mut i = 1;
    while i < v.len() {
        match v[i].as_str() {
            "--prop" => { a.prop = v[i + 1].clone(); i += 1 }
            "--n" => { a.n = v[i + 1].parse().unwrap(); i += 1 }
            "--seed" => { a.seed = v[i + 1].parse().unwrap(); i += 1 }
            "--thorough" => a.thorough = true,
            "--report" => { a.report = Some(v[i + 1].clone()); i += 1 }
            "--replay-dir" => { a.replay_dir = v[i + 1].clone(); i += 1 }
            "--corpus" => { a.corpus = Some(v[i + 1].clone()); i += 1 }
            x if a.cmd.is_empty() => a.cmd = x.to_string(),
            x => a.file = Some(x.to_string()),
        }
        i += 1;
    }
    a
}

fn main() {
    // silence panic messages of the code under test; they are captured by catch_unwind
    std::panic::set_hook(Box::new(|_| {}));
    let args = parse_args();
    match args.cmd.as_str() {
        "run" => std::process::exit(cmd_run(&args)),
        "replay" => std::process::exit(cmd_replay(&args)),
        "worker" => std::process::exit(cmd_worker(&args)),
        "probe" => std::process::exit(probe::cmd_probe()),
        _ => {
            eprintln!("usage: harness run --prop Cxx --n N --seed S [--thorough] [--report f] | harness replay file.case");
            std::process::exit(2);
        }
    }
}

/// The executable against the library entry point: `main.rs` (argument parsing, the real stdin/stdout/stderr, the
/// exit status) is glue that `jawk::go` with in-memory streams never runs.  A sample of the cases of EVERY property
/// (stdin-only, no injected fault) is run through the real binary as well; the two must write the same bytes to
/// standard output and standard error, and exit 0 exactly when the library call succeeds.
fn binary_crosscheck(prop: &str, g: &gens::Group, robs: &[Obs], labels: &mut BTreeMap<String, usize>) -> Option<String> {
    use std::hash::{Hash, Hasher};
    let percent: u64 = match prop { "C06" | "C16" => 12, "C20" => 0, "C05" | "C14" => 1, _ => 4 };
    for (c, lib) in g.cases.iter().zip(robs) {
        if !(c.mode == "run" || c.mode.is_empty()) || c.sources.len() > 1 || c.sources.iter().any(|s| s.name.is_some()) || c.rerr.is_some()
            || c.wfail.is_some() || c.efail.is_some() || c.endless.is_some() || !c.chunks.is_empty() || !c.orc.is_empty() {
            continue;
        }
        if matches!(lib.res.as_str(), "abort:crash" | "hang" | "abort:panic" | "err:clap") {
            continue;
        }
        let mut h = std::collections::hash_map::DefaultHasher::new();
        c.id.hash(&mut h);
        if h.finish() % 100 >= percent {
            continue;
        }
        let argv = c.argv("/nonexistent");
        let input: &[u8] = c.sources.first().map(|s| s.bytes.as_slice()).unwrap_or(b"");
        let run = match oracle_b::spawn_jawk(&argv[1..], input, oracle_b::StdoutKind::Pipe) {
            Ok(r) => r,
            Err(_) => return None, // no executable: nothing to compare with
        };
        *labels.entry("binary-crosscheck".to_string()).or_insert(0) += 1;
        if run.timed_out {
            return Some(format!("{}: the executable did not finish within 20 s although the library call did", c.id));
        }
        let code = run.code.unwrap_or(-1);
        if (code == 0) != (lib.res == "ok") {
            return Some(format!("{}: the executable exits with status {code} but the same run through the library entry point ended with {}", c.id, lib.res));
        }
        if run.out != lib.out {
            return Some(format!("{}: standard output of the executable differs from what the library entry point writes: {:?} vs {:?}",
                                c.id, show_bytes(&run.out).chars().take(200).collect::<String>(), show_bytes(&lib.out).chars().take(200).collect::<String>()));
        }
        if lib.res == "ok" && run.err != lib.err {
            return Some(format!("{}: standard error of the executable differs from what the library entry point writes: {:?} vs {:?}",
                                c.id, show_bytes(&run.err).chars().take(200).collect::<String>(), show_bytes(&lib.err).chars().take(200).collect::<String>()));
        }
    }
    None
}

/// watchdog: a case that takes longer than this hangs the harness; abort loudly
fn start_watchdog(current: std::sync::Arc<std::sync::Mutex<(String, std::time::Instant)>>, limit_s: u64) {
    std::thread::spawn(move || loop {
        std::thread::sleep(std::time::Duration::from_millis(500));
        let (line, since) = { let g = current.lock().unwrap(); (g.0.clone(), g.1) };
        if !line.is_empty() && since.elapsed().as_secs() >= limit_s {
            println!("HANG {}", line);
            std::process::exit(3);
        }
    });
}

fn cmd_run(args: &Args) -> i32 {
    let t0 = std::time::Instant::now();
    let prop = args.prop.as_str();
    let scratch = Scratch::new(prop);
    let mut r = rng::Rng::new(args.seed ^ (u64::from_str_radix(&prop[1..], 10).unwrap_or(0) << 32));
    let proj = projection(prop);
    let current = std::sync::Arc::new(std::sync::Mutex::new((String::new(), std::time::Instant::now())));

    // 1. generate (corpus first)
    let mut groups: Vec<gens::Group> = vec![];
    if let Some(dir) = &args.corpus {
        if let Ok(rd) = std::fs::read_dir(dir) {
            let mut files: Vec<_> = rd.filter_map(|e| e.ok()).map(|e| e.path()).filter(|p| p.extension().map(|x| x == "case").unwrap_or(false)).collect();
            files.sort();
            for f in files {
                if let Ok(text) = std::fs::read_to_string(&f) {
                    for line in text.lines().filter(|l| l.starts_with("id=")) {
                        let c = Case::from_line(line, &scratch.dir);
                        groups.push(gens::Group { cases: vec![c], values: vec![], tag: "corpus".into(), nontrivial: true, labels: vec!["corpus".into()] });
                    }
                }
            }
        }
    }
    let corpus_groups = groups.len();
    let mut total_cases = 0;
    let mut gid = 0;
    while total_cases < args.n {
        let mut gr = r.fork(gid as u64);
        let g = props::generate(prop, &mut gr, gid, args.thorough);
        total_cases += g.cases.len();
        groups.push(g);
        gid += 1;
    }

    // 2. implementation side, in a child process: a stack overflow or an allocation abort in the
    //    code under test kills the child, not this run; the case is then recorded as `abort:crash`
    let mut lines: Vec<String> = vec![];
    for g in &groups {
        for c in &g.cases {
            lines.push(c.line(&scratch.dir));
        }
    }
    let flat = run_rust_isolated(&lines, &scratch.dir);
    let mut rust_obs: Vec<Vec<Obs>> = vec![];
    let mut k0 = 0;
    for g in &groups {
        rust_obs.push(flat[k0..k0 + g.cases.len()].to_vec());
        k0 += g.cases.len();
    }
    let _ = &current;

    // 3. model side
    let model_obs = match run_model(&lines, &scratch) {
        Ok(m) => m,
        Err(e) => {
            println!("MODEL-ERROR {e}");
            return 4;
        }
    };

    // 4. compare + oracle
    let mut disagreements: Vec<(String, String)> = vec![]; // (case line, what)
    let mut oracle_failures: Vec<(Vec<String>, String)> = vec![];
    let mut labels: BTreeMap<String, usize> = BTreeMap::new();
    let mut outcome_kinds: BTreeMap<String, usize> = BTreeMap::new();
    let mut known_hits: BTreeMap<String, usize> = BTreeMap::new();
    let mut distinct_nontrivial = std::collections::BTreeSet::new();
    let mut samples: Vec<String> = vec![];
    let mut k = 0;
    for (gi, g) in groups.iter().enumerate() {
        let robs = &rust_obs[gi];
        let mobs = &model_obs[k..k + g.cases.len()];
        for ((c, ro), mo) in g.cases.iter().zip(robs).zip(mobs) {
            *outcome_kinds.entry(canon_rust_res(&ro.res)).or_insert(0) += 1;
            if let Some(what) = differs(&proj, c, ro, mo) {
                disagreements.push((c.line(&scratch.dir), what));
            }
        }
        // known finding F9: runaway recursion (the model's `overflow` outcome) aborts the real program too.
        // Such a group is counted, not judged: it is reported as KNOWN-FINDING by bin/check (property C05).
        let f9 = robs.iter().zip(mobs).any(|(ro, mo)| canon_rust_res(&ro.res) == "abort:overflow" && canon_model_res(&mo.res) == "abort:overflow");
        if f9 {
            *known_hits.entry("F9".to_string()).or_insert(0) += 1;
        } else if let Some(msg) = props::oracle(prop, g, robs) {
            oracle_failures.push((g.cases.iter().map(|c| c.line(&scratch.dir)).collect(), msg));
        } else if let Some(msg) = binary_crosscheck(prop, g, robs, &mut labels) {
            oracle_failures.push((g.cases.iter().map(|c| c.line(&scratch.dir)).collect(), msg));
        }
        for l in &g.labels {
            *labels.entry(l.clone()).or_insert(0) += 1;
        }
        if g.nontrivial {
            use std::hash::{Hash, Hasher};
            let mut h = std::collections::hash_map::DefaultHasher::new();
            for c in &g.cases {
                // the id is not part of the case's identity
                let mut c2 = c.clone();
                c2.id.clear();
                c2.line("").hash(&mut h);
            }
            distinct_nontrivial.insert(h.finish());
        }
        if samples.len() < 3 && gi >= corpus_groups {
            samples.push(g.cases[0].argv("<scratch>").join(" ") + " <<< " + &show_bytes(&g.cases[0].sources.first().map(|s| s.bytes.clone()).unwrap_or_default()).chars().take(160).collect::<String>());
        }
        k += g.cases.len();
    }

    // 5. replay files
    std::fs::create_dir_all(&args.replay_dir).ok();
    let mut replay_files = vec![];
    for (i, (lines, msg)) in oracle_failures.iter().enumerate().take(5) {
        let path = format!("{}/{}-oracle-{}-{}.case", args.replay_dir, prop, args.seed, i);
        let mut text = format!("# property {prop} fails on the implementation: {msg}\n# replay: /verif/bin/check {prop} --replay {path}\n");
        for l in lines {
            text.push_str(&l.replace(&scratch.dir, "@SCRATCH@"));
            text.push('\n');
        }
        std::fs::write(&path, text).ok();
        replay_files.push(path);
    }
    let mut disagreement_files = vec![];
    for (i, (line, what)) in disagreements.iter().enumerate().take(5) {
        let path = format!("{}/{}-corr-{}-{}.case", args.replay_dir, prop, args.seed, i);
        let text = format!("# model and implementation disagree: {}\n{}\n", what.replace('\n', "\\n"), line.replace(&scratch.dir, "@SCRATCH@"));
        std::fs::write(&path, text).ok();
        disagreement_files.push(path);
    }

    // 6. report
    let mut rep = String::from("{");
    rep.push_str(&format!("\"property\":{},", jstr(prop)));
    rep.push_str(&format!("\"seed\":{},\"thorough\":{},", args.seed, args.thorough));
    rep.push_str(&format!("\"groups\":{},\"cases\":{},\"corpus_groups\":{},", groups.len(), lines.len(), corpus_groups));
    rep.push_str(&format!("\"distinct_nontrivial\":{},", distinct_nontrivial.len()));
    rep.push_str(&format!("\"disagreements\":{},\"oracle_failures\":{},", disagreements.len(), oracle_failures.len()));
    rep.push_str("\"labels\":{");
    rep.push_str(&labels.iter().map(|(k, v)| format!("{}:{}", jstr(k), v)).collect::<Vec<_>>().join(","));
    rep.push_str("},\"outcomes\":{");
    rep.push_str(&outcome_kinds.iter().map(|(k, v)| format!("{}:{}", jstr(k), v)).collect::<Vec<_>>().join(","));
    rep.push_str("},\"known_hits\":{");
    rep.push_str(&known_hits.iter().map(|(k, v)| format!("{}:{}", jstr(k), v)).collect::<Vec<_>>().join(","));
    rep.push_str("},\"samples\":[");
    rep.push_str(&samples.iter().map(|s| jstr(s)).collect::<Vec<_>>().join(","));
    rep.push_str("],\"oracle_messages\":[");
    rep.push_str(&oracle_failures.iter().take(5).map(|(_, m)| jstr(m)).collect::<Vec<_>>().join(","));
    rep.push_str("],\"disagreement_messages\":[");
    rep.push_str(&disagreements.iter().take(5).map(|(_, m)| jstr(&m.chars().take(600).collect::<String>())).collect::<Vec<_>>().join(","));
    rep.push_str("],\"oracle_replays\":[");
    rep.push_str(&replay_files.iter().map(|s| jstr(s)).collect::<Vec<_>>().join(","));
    rep.push_str("],\"disagreement_replays\":[");
    rep.push_str(&disagreement_files.iter().map(|s| jstr(s)).collect::<Vec<_>>().join(","));
    rep.push_str(&format!("],\"wall_s\":{:.2}}}", t0.elapsed().as_secs_f64()));
    if let Some(p) = &args.report {
        std::fs::write(p, &rep).ok();
    }
    println!("{rep}");
    if !oracle_failures.is_empty() {
        1
    } else if !disagreements.is_empty() {
        5
    } else {
        0
    }
}

fn cmd_replay(args: &Args) -> i32 {
    let Some(file) = &args.file else { return 2 };
    let text = std::fs::read_to_string(file).expect("replay file");
    let prop = text.lines().find_map(|l| l.split_whitespace().find_map(|t| t.strip_prefix("id=")).map(|id| id[..3].to_string())).unwrap_or("C00".into());
    let scratch = Scratch::new("replay");
    let mut lines = vec![];
    let mut cases = vec![];
    for l in text.lines().filter(|l| l.starts_with("id=")) {
        let l = l.replace("@SCRATCH@", &scratch.dir);
        let c = Case::from_line(&l, &scratch.dir);
        lines.push(c.line(&scratch.dir));
        cases.push(c);
    }
    let robs: Vec<Obs> = cases.iter().map(|c| run_rust(c, &scratch)).collect();
    let mobs = run_model(&lines, &scratch).unwrap_or_default();
    let proj = projection(&prop);
    let mut bad = false;
    for (i, c) in cases.iter().enumerate() {
        println!("case {}: argv {:?}", c.id, c.argv("<scratch>"));
        println!("  impl : {} out={:?} err={:?} {}", robs[i].res, show_bytes(&robs[i].out), show_bytes(&robs[i].err), robs[i].panic_msg);
        if let Some(m) = mobs.get(i) {
            println!("  model: {} out={:?} err={:?}", m.res, show_bytes(&m.out), show_bytes(&m.err));
            if let Some(w) = differs(&proj, c, &robs[i], m) {
                println!("  DISAGREE: {w}");
                bad = true;
            }
        }
    }
    let g = gens::Group { cases, values: vec![], tag: String::new(), nontrivial: true, labels: vec![] };
    if g.values.is_empty() {
        // oracles that need the abstract values are skipped on replay; the others run
    }
    if let Some(m) = std::panic::catch_unwind(std::panic::AssertUnwindSafe(|| props::oracle(&prop, &g, &robs))).unwrap_or(None) {
        println!("  ORACLE: property {prop} fails: {m}");
        bad = true;
    }
    if bad { 1 } else { 0 }
}


fn obs_line(o: &Obs) -> String {
    format!("res={} out={} err={} pulled={} opened={} late={} fread={} msg={}", o.res, case::hex(&o.out), case::hex(&o.err),
            o.pulled.iter().map(|x| x.to_string()).collect::<Vec<_>>().join(","), o.opened_stdin as u8, o.late_reads, o.file_read, case::hex(o.panic_msg.as_bytes()))
}

fn parse_obs_line(l: &str) -> Obs {
    let mut o = Obs::default();
    for tok in l.split_whitespace() {
        if let Some((k, v)) = tok.split_once('=') {
            match k {
                "res" => o.res = v.to_string(),
                "out" => o.out = case::unhex(v),
                "err" => o.err = case::unhex(v),
                "pulled" => o.pulled = v.split(',').filter_map(|x| x.parse().ok()).collect(),
                "opened" => o.opened_stdin = v == "1",
                "late" => o.late_reads = v.parse().unwrap_or(0),
                "fread" => o.file_read = v.parse().unwrap_or(0),
                "msg" => o.panic_msg = String::from_utf8_lossy(&case::unhex(v)).into_owned(),
                _ => {}
            }
        }
    }
    o
}

/// `harness worker <scratch-dir>`: case lines on stdin, one observation line per case on stdout
fn cmd_worker(args: &Args) -> i32 {
    use std::io::{BufRead, Write};
    let dir = args.file.clone().unwrap_or_default();
    let scratch = Scratch { dir: dir.clone() };
    let current = std::sync::Arc::new(std::sync::Mutex::new((String::new(), std::time::Instant::now())));
    // a case that takes longer than this hangs the worker: say so and die; the parent records it
    {
        let current = current.clone();
        std::thread::spawn(move || loop {
            std::thread::sleep(std::time::Duration::from_millis(500));
            let since = { let g = current.lock().unwrap(); if g.0.is_empty() { None } else { Some(g.1) } };
            if let Some(t) = since {
                if t.elapsed().as_secs() >= 20 {
                    println!("res=hang");
                    std::io::stdout().flush().ok();
                    std::process::exit(3);
                }
            }
        });
    }
    let stdin = std::io::stdin();
    let stdout = std::io::stdout();
    for line in stdin.lock().lines() {
        let Ok(line) = line else { break };
        if !line.starts_with("id=") { continue }
        let c = Case::from_line(&line, &dir);
        { let mut g = current.lock().unwrap(); *g = (line.clone(), std::time::Instant::now()); }
        let o = if c.id.contains("-smallstack-") {
            // cases that ask "does the work per malformed byte / per element stay bounded?" run on a thread with a SMALL stack
            // (256 KiB instead of the 8 MiB of a main thread), so that inputs of tens of KiB show what would otherwise need
            // megabytes; an overflow kills this worker like any other crash
            let d = dir.clone();
            std::thread::Builder::new().stack_size(256 * 1024).spawn(move || {
                let sc = Scratch { dir: d };
                let o = run_rust(&c, &sc);
                std::mem::forget(sc);
                o
            }).expect("spawn").join().unwrap_or_else(|_| Obs { res: "abort:panic".into(), ..Default::default() })
        } else {
            run_rust(&c, &scratch)
        };
        { let mut g = current.lock().unwrap(); g.0.clear(); }
        let mut h = stdout.lock();
        writeln!(h, "{}", obs_line(&o)).ok();
        h.flush().ok();
    }
    std::mem::forget(scratch); // the parent owns the directory
    0
}

/// run every case in a worker child; restart the child after a crash
fn run_rust_isolated(lines: &[String], dir: &str) -> Vec<Obs> {
    use std::io::{BufRead, Write};
    let exe = std::env::current_exe().expect("current exe");
    let mut res: Vec<Obs> = Vec::with_capacity(lines.len());
    while res.len() < lines.len() {
        let start = res.len();
        let mut child = std::process::Command::new(&exe).arg("worker").arg(dir)
            .stdin(std::process::Stdio::piped()).stdout(std::process::Stdio::piped()).stderr(std::process::Stdio::null())
            .spawn().expect("spawn worker");
        let mut stdin = child.stdin.take().unwrap();
        let batch: Vec<String> = lines[start..].to_vec();
        let feeder = std::thread::spawn(move || {
            for l in batch {
                if writeln!(stdin, "{l}").is_err() { break }
            }
        });
        let out = std::io::BufReader::new(child.stdout.take().unwrap());
        let mut hung = false;
        for l in out.lines() {
            let Ok(l) = l else { break };
            if l == "res=hang" { hung = true; break }
            res.push(parse_obs_line(&l));
            if res.len() == lines.len() { break }
        }
        let status = child.wait().ok();
        let _ = feeder.join();
        if res.len() < lines.len() && res.len() >= start {
            // the child died on case `res.len()` (or hung on it)
            let what = if hung { "hang".to_string() } else { format!("abort:crash:{:?}", status.map(|s| s.to_string())) };
            if hung {
                println!("HANG {}", lines[res.len()]);
            }
            res.push(Obs { res: if hung { "hang".into() } else { "abort:crash".into() }, panic_msg: what, ..Default::default() });
        }
    }
    res
}
