//! implementation-side oracles (model-free): see DESIGN.md §3.4
use crate::gens::Group;
use crate::runner::Obs;

pub fn oracle(_prop: &str, _g: &Group, _obs: &[Obs]) -> Option<String> {
    None
}
