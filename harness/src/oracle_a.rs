//! implementation-side oracles (model-free) for C03, C06 and C07: see DESIGN.md §3.4
//!
//! Everything here is written from the CLI help text and the function descriptions, not from
//! jawk's code: a tiny expression reader/evaluator for exactly the expression shapes the
//! generator pools contain, the documented total order, and a reference pipeline interpreter
//! over `Vec<V>`.  Whenever a group contains something the reference does not cover the oracle
//! answers `None` (no verdict) instead of guessing.
use crate::case::Spec;
use crate::gens::Group;
use crate::props::parse_rows;
use crate::runner::Obs;
use crate::value::{self, Strict, V};
use std::cmp::Ordering;
use std::collections::HashMap;

pub fn oracle(prop: &str, g: &Group, obs: &[Obs]) -> Option<String> {
    match prop {
        "C03" => c03(g, obs),
        "C06" => c06(g, obs),
        "C07" => c07(g, obs),
        _ => None,
    }
}

// ---------------------------------------------------------------------------------- values

fn is_num(v: &V) -> bool {
    matches!(v, V::Int(_) | V::Float(_))
}

fn num_cmp(a: &V, b: &V) -> Option<Ordering> {
    match (a, b) {
        (V::Int(x), V::Int(y)) => Some(x.cmp(y)),
        _ => {
            let f = |v: &V| match v {
                V::Int(i) => *i as f64,
                V::Float(f) => *f,
                _ => f64::NAN,
            };
            f(a).partial_cmp(&f(b))
        }
    }
}

/// JSON equality: numbers by value, objects as unordered maps
pub fn v_eq(a: &V, b: &V) -> bool {
    match (a, b) {
        (V::Null, V::Null) => true,
        (V::Bool(x), V::Bool(y)) => x == y,
        (V::Str(x), V::Str(y)) => x == y,
        (x, y) if is_num(x) && is_num(y) => num_cmp(x, y) == Some(Ordering::Equal),
        (V::Arr(x), V::Arr(y)) => x.len() == y.len() && x.iter().zip(y).all(|(p, q)| v_eq(p, q)),
        (V::Obj(x), V::Obj(y)) => x.len() == y.len() && x.iter().all(|(k, p)| y.iter().any(|(k2, q)| k == k2 && v_eq(p, q))),
        _ => false,
    }
}

/// the same printed row: numbers by value, object members in the same order
fn same_row(a: &V, b: &V) -> bool {
    match (a, b) {
        (V::Arr(x), V::Arr(y)) => x.len() == y.len() && x.iter().zip(y).all(|(p, q)| same_row(p, q)),
        (V::Obj(x), V::Obj(y)) => x.len() == y.len() && x.iter().zip(y).all(|((k, p), (k2, q))| k == k2 && same_row(p, q)),
        (V::Arr(_), _) | (V::Obj(_), _) | (_, V::Arr(_)) | (_, V::Obj(_)) => false,
        _ => v_eq(a, b),
    }
}

fn rank(v: &V) -> u8 {
    match v {
        V::Null => 0,
        V::Bool(false) => 1,
        V::Bool(true) => 2,
        V::Str(_) => 3,
        V::Int(_) | V::Float(_) => 4,
        V::Obj(_) => 5,
        V::Arr(_) => 6,
    }
}

/// The documented total order: null < false < true < strings (code point) < numbers (value)
/// < objects < arrays (lexicographic).  How two different objects compare is not documented:
/// `None` = no verdict.
pub fn ref_cmp(a: &V, b: &V) -> Option<Ordering> {
    let (ra, rb) = (rank(a), rank(b));
    if ra != rb {
        return Some(ra.cmp(&rb));
    }
    match (a, b) {
        (V::Str(x), V::Str(y)) => Some(x.chars().cmp(y.chars())),
        (x, y) if is_num(x) && is_num(y) => num_cmp(x, y),
        (V::Arr(x), V::Arr(y)) => {
            for (p, q) in x.iter().zip(y.iter()) {
                match ref_cmp(p, q)? {
                    Ordering::Equal => {}
                    c => return Some(c),
                }
            }
            Some(x.len().cmp(&y.len()))
        }
        (V::Obj(_), V::Obj(_)) => {
            if v_eq(a, b) && same_row(a, b) {
                Some(Ordering::Equal)
            } else {
                None
            }
        }
        _ => Some(Ordering::Equal),
    }
}

fn show(v: &V) -> String {
    let s = value::render(v);
    if s.chars().count() > 160 {
        format!("{}…", s.chars().take(160).collect::<String>())
    } else {
        s
    }
}

fn show_opt(v: &Option<V>) -> String {
    match v {
        Some(v) => show(v),
        None => "<nothing>".into(),
    }
}

/// all the values of a white-space separated stream (strict reader)
fn parse_stream(bytes: &[u8]) -> Option<Vec<V>> {
    let mut p = Strict::new(bytes);
    let mut vals = vec![];
    while !p.at_end() {
        vals.push(p.value().ok()?);
    }
    Some(vals)
}

// ---------------------------------------------------------------------------------- expressions

#[derive(Clone, Debug)]
enum Step {
    Key(String),
    Idx(usize),
}

#[derive(Clone, Debug)]
enum Expr {
    Path(Vec<Step>),
    Lit(V),
    Var(String),
    Macro(String),
    Call(String, Vec<Expr>),
}

/// the reference does not cover this expression / value combination
#[derive(Debug)]
struct Unsupported(String);

type R<T> = Result<T, Unsupported>;

fn unsupported<T>(what: impl Into<String>) -> R<T> {
    Err(Unsupported(what.into()))
}

struct ExprReader<'a> {
    s: &'a [u8],
    i: usize,
}

impl<'a> ExprReader<'a> {
    fn new(s: &'a str) -> Self {
        ExprReader { s: s.as_bytes(), i: 0 }
    }
    fn peek(&self) -> Option<u8> {
        self.s.get(self.i).copied()
    }
    fn skip_ws(&mut self) {
        while let Some(b' ' | b'\n' | b'\t' | b'\r') = self.peek() {
            self.i += 1;
        }
    }
    fn rest(&self) -> &'a str {
        std::str::from_utf8(&self.s[self.i.min(self.s.len())..]).unwrap_or("")
    }
    fn word(&mut self, stop: &[u8]) -> String {
        let start = self.i;
        while let Some(c) = self.peek() {
            if stop.contains(&c) {
                break;
            }
            self.i += 1;
        }
        String::from_utf8_lossy(&self.s[start..self.i]).into_owned()
    }
    fn expr(&mut self) -> R<Expr> {
        self.skip_ws();
        match self.peek() {
            None => unsupported("empty expression"),
            Some(b'(') => {
                self.i += 1;
                self.skip_ws();
                let name = self.word(b" \n\t\r),(");
                if name.is_empty() || name.starts_with('.') || name.starts_with('"') {
                    return unsupported(format!("function spelling `{name}`"));
                }
                let mut args = vec![];
                loop {
                    self.skip_ws();
                    match self.peek() {
                        Some(b',') => self.i += 1,
                        Some(b')') => {
                            self.i += 1;
                            return Ok(Expr::Call(name, args));
                        }
                        None => return unsupported("unbalanced expression"),
                        _ => args.push(self.expr()?),
                    }
                }
            }
            Some(b'^') => unsupported("parent inputs"),
            Some(b'.' | b'#') => {
                let mut steps = vec![];
                loop {
                    match self.peek() {
                        Some(b'.') => {
                            self.i += 1;
                            let key = self.word(b" \n\t\r.,=()\"][{}#");
                            if key.bytes().any(|c| c.is_ascii_control()) {
                                return unsupported("control character in a key");
                            }
                            if key.is_empty() {
                                if steps.is_empty() {
                                    return Ok(Expr::Path(vec![]));
                                }
                                return unsupported("empty key");
                            }
                            steps.push(Step::Key(key));
                        }
                        Some(b'#') => {
                            self.i += 1;
                            let d = self.word(b" \n\t\r.,=()\"][{}#");
                            match d.parse::<usize>() {
                                Ok(n) if d.bytes().all(|c| c.is_ascii_digit()) => steps.push(Step::Idx(n)),
                                _ => return unsupported("index spelling"),
                            }
                        }
                        _ => return Ok(Expr::Path(steps)),
                    }
                }
            }
            Some(c @ (b':' | b'@')) => {
                self.i += 1;
                let name = self.word(b" \n\t\r),=");
                if name.is_empty() {
                    return unsupported("empty name");
                }
                Ok(if c == b':' { Expr::Var(name) } else { Expr::Macro(name) })
            }
            Some(b'&' | b'/') => unsupported("input context / selection reference"),
            Some(_) => {
                let mut p = Strict::new(&self.s[self.i..]);
                match p.value() {
                    Ok(v) => {
                        self.i += p.i;
                        Ok(Expr::Lit(v))
                    }
                    Err(e) => unsupported(format!("literal: {e}")),
                }
            }
        }
    }
}

/// a whole option value that must be exactly one expression
fn read_whole(s: &str) -> R<Expr> {
    let mut p = ExprReader::new(s);
    let e = p.expr()?;
    p.skip_ws();
    if p.peek().is_some() {
        return unsupported(format!("trailing text in `{s}`"));
    }
    Ok(e)
}

struct Env {
    vars: HashMap<String, V>,
    macros: HashMap<String, Expr>,
}

fn plain_ascii(s: &str) -> bool {
    s.chars().all(|c| (' '..='~').contains(&c) && c != '"' && c != '\\' && c != '/')
}

/// "the JSON representation" of a scalar; containers and exotic spellings are left out
fn stringify(v: &V) -> R<String> {
    match v {
        V::Null => Ok("null".into()),
        V::Bool(b) => Ok(b.to_string()),
        V::Int(i) => Ok(i.to_string()),
        V::Float(f) if f.abs() >= 1e-4 && f.abs() < 1e15 => Ok(format!("{f}")),
        V::Str(s) if plain_ascii(s) => Ok(format!("\"{s}\"")),
        _ => unsupported(format!("stringify of {}", show(v))),
    }
}

fn eval(e: &Expr, input: &V, env: &Env) -> R<Option<V>> {
    match e {
        Expr::Lit(v) => Ok(Some(v.clone())),
        Expr::Var(n) => Ok(env.vars.get(n).cloned()),
        Expr::Macro(n) => match env.macros.get(n) {
            Some(m) => eval(m, input, env),
            None => Ok(None),
        },
        Expr::Path(steps) => {
            let mut cur = input;
            for s in steps {
                let next = match (s, cur) {
                    (Step::Key(k), V::Obj(kvs)) => kvs.iter().find(|(x, _)| x == k).map(|(_, v)| v),
                    (Step::Idx(i), V::Arr(a)) => a.get(*i),
                    _ => None,
                };
                match next {
                    Some(v) => cur = v,
                    None => return Ok(None),
                }
            }
            Ok(Some(cur.clone()))
        }
        Expr::Call(name, args) => {
            let arity = |lo: usize, hi: usize| -> R<()> {
                if args.len() < lo || args.len() > hi {
                    unsupported(format!("arity of {name}"))
                } else {
                    Ok(())
                }
            };
            match name.as_str() {
                "size" => {
                    arity(1, 1)?;
                    Ok(match eval(&args[0], input, env)? {
                        Some(V::Obj(o)) => Some(V::Int(o.len() as i128)),
                        Some(V::Arr(a)) => Some(V::Int(a.len() as i128)),
                        Some(V::Str(s)) => Some(V::Int(s.chars().count() as i128)),
                        _ => None,
                    })
                }
                "default" => {
                    arity(1, usize::MAX)?;
                    for a in args {
                        if let Some(v) = eval(a, input, env)? {
                            return Ok(Some(v));
                        }
                    }
                    Ok(None)
                }
                "?" => {
                    arity(3, 3)?;
                    match eval(&args[0], input, env)? {
                        Some(V::Bool(true)) => eval(&args[1], input, env),
                        Some(V::Bool(false)) => eval(&args[2], input, env),
                        _ => Ok(None),
                    }
                }
                "number?" | "string?" | "null?" | "boolean?" | "array?" | "object?" => {
                    arity(1, 1)?;
                    let v = eval(&args[0], input, env)?;
                    let yes = match (name.as_str(), &v) {
                        ("number?", Some(V::Int(_) | V::Float(_))) => true,
                        ("string?", Some(V::Str(_))) => true,
                        ("null?", Some(V::Null)) => true,
                        ("boolean?", Some(V::Bool(_))) => true,
                        ("array?", Some(V::Arr(_))) => true,
                        ("object?", Some(V::Obj(_))) => true,
                        _ => false,
                    };
                    Ok(Some(V::Bool(yes)))
                }
                "empty?" => {
                    arity(1, 1)?;
                    Ok(Some(V::Bool(eval(&args[0], input, env)?.is_none())))
                }
                "not" => {
                    arity(1, 1)?;
                    Ok(match eval(&args[0], input, env)? {
                        Some(V::Bool(b)) => Some(V::Bool(!b)),
                        _ => None,
                    })
                }
                "<" | ">" | "<=" | ">=" => {
                    arity(2, 2)?;
                    let (a, b) = (eval(&args[0], input, env)?, eval(&args[1], input, env)?);
                    match (a, b) {
                        (Some(a), Some(b)) => match ref_cmp(&a, &b) {
                            Some(c) => Ok(Some(V::Bool(match name.as_str() {
                                "<" => c == Ordering::Less,
                                ">" => c == Ordering::Greater,
                                "<=" => c != Ordering::Greater,
                                _ => c != Ordering::Less,
                            }))),
                            None => unsupported("order of two different objects"),
                        },
                        _ => Ok(None),
                    }
                }
                "=" => {
                    arity(2, 2)?;
                    let (a, b) = (eval(&args[0], input, env)?, eval(&args[1], input, env)?);
                    match (a, b) {
                        (Some(a), Some(b)) => Ok(Some(V::Bool(v_eq(&a, &b)))),
                        _ => Ok(None),
                    }
                }
                "stringify" => {
                    arity(1, 1)?;
                    match eval(&args[0], input, env)? {
                        Some(v) => Ok(Some(V::Str(stringify(&v)?))),
                        None => Ok(None),
                    }
                }
                "push" => {
                    arity(2, usize::MAX)?;
                    match eval(&args[0], input, env)? {
                        Some(V::Arr(mut a)) => {
                            for x in &args[1..] {
                                if let Some(v) = eval(x, input, env)? {
                                    a.push(v);
                                }
                            }
                            Ok(Some(V::Arr(a)))
                        }
                        _ => Ok(None),
                    }
                }
                _ => unsupported(format!("function {name}")),
            }
        }
    }
}

// ---------------------------------------------------------------------------------- reference pipeline

#[derive(Clone, Debug)]
struct Row {
    input: V,
    results: Vec<(String, Option<V>)>,
}

impl Row {
    /// what is printed / collected for the row: the input, or the object of the selections that gave a value
    fn build(&self) -> V {
        if self.results.is_empty() {
            return self.input.clone();
        }
        let mut kvs: Vec<(String, V)> = vec![];
        for (n, v) in &self.results {
            if let Some(v) = v {
                if let Some(p) = kvs.iter().position(|(k, _)| k == n) {
                    kvs[p].1 = v.clone();
                } else {
                    kvs.push((n.clone(), v.clone()));
                }
            }
        }
        V::Obj(kvs)
    }
    fn same_output(&self, other: &Row) -> bool {
        if self.results.is_empty() != other.results.is_empty() {
            return false;
        }
        if self.results.is_empty() {
            return v_eq(&self.input, &other.input);
        }
        self.results.len() == other.results.len()
            && self.results.iter().zip(&other.results).all(|((_, a), (_, b))| match (a, b) {
                (None, None) => true,
                (Some(a), Some(b)) => v_eq(a, b),
                _ => false,
            })
    }
}

struct SortKey {
    e: Expr,
    desc: bool,
}

fn read_sort(s: &str) -> R<SortKey> {
    let mut p = ExprReader::new(s);
    let e = p.expr()?;
    let dir = p.rest().trim().to_uppercase();
    match dir.as_str() {
        "" | "ASC" => Ok(SortKey { e, desc: false }),
        "DESC" => Ok(SortKey { e, desc: true }),
        _ => unsupported(format!("direction `{dir}`")),
    }
}

fn read_select(s: &str) -> R<(Expr, String)> {
    let mut p = ExprReader::new(s);
    let e = p.expr()?;
    p.skip_ws();
    match p.peek() {
        None => Ok((e, s.to_string())),
        Some(b'=') => {
            p.i += 1;
            p.skip_ws();
            Ok((e, p.rest().to_string()))
        }
        _ => unsupported(format!("selection `{s}`")),
    }
}

fn read_env(sets: &[String]) -> R<Env> {
    let mut env = Env { vars: HashMap::new(), macros: HashMap::new() };
    let empty = Env { vars: HashMap::new(), macros: HashMap::new() };
    for s in sets {
        let Some((k, v)) = s.split_once('=') else { return unsupported("--set without =") };
        let k = k.trim();
        let e = read_whole(v)?;
        if let Some(m) = k.strip_prefix('@') {
            if m.is_empty() || env.macros.insert(m.to_string(), e).is_some() {
                return unsupported("macro name");
            }
        } else {
            match eval(&e, &V::Null, &empty)? {
                Some(val) if !k.is_empty() => {
                    if env.vars.insert(k.to_string(), val).is_some() {
                        return unsupported("duplicate variable");
                    }
                }
                _ => return unsupported("variable without a value"),
            }
        }
    }
    Ok(env)
}

/// lexicographic comparison of the key tuples, the first key the most significant, each in its
/// own direction; `None` when the documented order gives no verdict
fn cmp_keys(a: &[V], b: &[V], keys: &[SortKey]) -> Option<Ordering> {
    for ((x, y), k) in a.iter().zip(b).zip(keys) {
        let c = ref_cmp(x, y)?;
        let c = if k.desc { c.reverse() } else { c };
        if c != Ordering::Equal {
            return Some(c);
        }
    }
    Some(Ordering::Equal)
}

struct Stages {
    env: Env,
    split: Option<Expr>,
    filter: Option<Expr>,
    selects: Vec<(Expr, String)>,
    sorts: Vec<SortKey>,
    group: Option<Option<Expr>>,
}

fn read_stages(spec: &Spec) -> R<Stages> {
    Ok(Stages {
        env: read_env(&spec.sets)?,
        split: spec.split.as_deref().map(read_whole).transpose()?,
        filter: spec.filter.as_deref().map(read_whole).transpose()?,
        selects: spec.selects.iter().map(|s| read_select(s)).collect::<R<Vec<_>>>()?,
        sorts: spec.sorts.iter().map(|s| read_sort(s)).collect::<R<Vec<_>>>()?,
        group: match &spec.group {
            None => None,
            Some(None) => Some(None),
            Some(Some(e)) => Some(Some(read_whole(e)?)),
        },
    })
}

/// The documented stage composition as pure list transformations:
/// only-objects-and-arrays, set, split, filter, select, unique, sort, skip/take, group|merge.
/// Returns the rows to print.
fn reference_pipeline(spec: &Spec, inputs: &[V]) -> R<Vec<V>> {
    let st = read_stages(spec)?;
    let env = &st.env;
    // --only-objects-and-arrays
    let mut rows: Vec<Row> = inputs
        .iter()
        .filter(|v| !spec.ooa || matches!(v, V::Obj(_) | V::Arr(_)))
        .map(|v| Row { input: v.clone(), results: vec![] })
        .collect();
    // --split-by: one row per element of the list; anything but a list gives no row
    if let Some(e) = &st.split {
        let mut next = vec![];
        for r in &rows {
            if let Some(V::Arr(items)) = eval(e, &r.input, env)? {
                for it in items {
                    next.push(Row { input: it, results: vec![] });
                }
            }
        }
        rows = next;
    }
    // --filter: kept when the filter is true
    if let Some(e) = &st.filter {
        let mut next = vec![];
        for r in rows {
            if let Some(V::Bool(true)) = eval(e, &r.input, env)? {
                next.push(r);
            }
        }
        rows = next;
    }
    // --select (in the order given)
    for (e, name) in &st.selects {
        for r in rows.iter_mut() {
            let v = eval(e, &r.input, env)?;
            r.results.push((name.clone(), v));
        }
    }
    // --unique: the first of equal outputs
    if spec.unique {
        let mut next: Vec<Row> = vec![];
        for r in rows {
            if !next.iter().any(|x| x.same_output(&r)) {
                next.push(r);
            }
        }
        rows = next;
    }
    // --sort-by: rows without a key are dropped; stable; first key most significant
    if !st.sorts.is_empty() {
        let mut keyed: Vec<(Vec<V>, Row)> = vec![];
        'rows: for r in rows {
            let mut ks = vec![];
            for k in &st.sorts {
                match eval(&k.e, &r.input, env)? {
                    Some(v) => ks.push(v),
                    None => continue 'rows,
                }
            }
            keyed.push((ks, r));
        }
        // insertion sort: stable, and every comparison made must have a documented answer
        let mut sorted: Vec<(Vec<V>, Row)> = vec![];
        for item in keyed {
            let mut pos = sorted.len();
            while pos > 0 {
                match cmp_keys(&sorted[pos - 1].0, &item.0, &st.sorts) {
                    Some(Ordering::Greater) => pos -= 1,
                    Some(_) => break,
                    None => return unsupported("sort key order undocumented (objects)"),
                }
            }
            sorted.insert(pos, item);
        }
        rows = sorted.into_iter().map(|(_, r)| r).collect();
    }
    // --skip / --take
    let skip = spec.skip.min(rows.len() as u64) as usize;
    rows.drain(..skip);
    if let Some(t) = spec.take {
        rows.truncate(t.min(rows.len() as u64) as usize);
    }
    // --group-by / --merge: one collection
    match &st.group {
        None => Ok(rows.iter().map(|r| r.build()).collect()),
        Some(None) => Ok(vec![V::Arr(rows.iter().map(|r| r.build()).collect())]),
        Some(Some(e)) => {
            let mut groups: Vec<(String, V)> = vec![];
            for r in &rows {
                if let Some(V::Str(k)) = eval(e, &r.input, env)? {
                    let row = r.build();
                    match groups.iter_mut().find(|(x, _)| *x == k) {
                        Some((_, V::Arr(a))) => a.push(row),
                        _ => groups.push((k, V::Arr(vec![row]))),
                    }
                }
            }
            Ok(vec![V::Obj(groups)])
        }
    }
}

fn rowsep(s: &Spec) -> String {
    s.rowsep.clone().unwrap_or("\n".into())
}

fn count_sep(out: &[u8], sep: &[u8]) -> usize {
    if sep.is_empty() {
        return 0;
    }
    let mut n = 0;
    let mut i = 0;
    while i + sep.len() <= out.len() {
        if &out[i..i + sep.len()] == sep {
            n += 1;
            i += sep.len();
        } else {
            i += 1;
        }
    }
    n
}

// ---------------------------------------------------------------------------------- C03

fn c03(g: &Group, obs: &[Obs]) -> Option<String> {
    for (c, o) in g.cases.iter().zip(obs) {
        if c.sources.is_empty() || c.rerr.is_some() || c.wfail.is_some() || c.endless.is_some() {
            continue;
        }
        // one standard input, or input files only (their values in order: files are read one after the other)
        let single_stdin = c.sources.len() == 1 && c.sources[0].name.is_none();
        let all_files = c.sources.iter().all(|s| s.name.is_some());
        if !(single_stdin || all_files) {
            continue;
        }
        let mut inputs: Vec<V> = vec![];
        let mut clean = true;
        for s in &c.sources {
            match parse_stream(&s.bytes) {
                Some(vs) => inputs.extend(vs),
                None => clean = false,
            }
        }
        if !clean {
            continue;
        }
        let want = match reference_pipeline(&c.spec, &inputs) {
            Ok(w) => w,
            Err(Unsupported(why)) => {
                // no verdict; ORACLE_A_DEBUG=1 lists these so that their share can be counted
                if std::env::var("ORACLE_A_DEBUG").is_ok() {
                    eprintln!("ORACLE_A skip {}: {why}", c.id);
                }
                continue;
            }
        };
        if o.res != "ok" {
            return Some(format!("{}: a valid pipeline over a clean stream ended with {} {}", c.id, o.res, o.panic_msg));
        }
        let sep = rowsep(&c.spec);
        match c.spec.style.as_deref() {
            None | Some("json") => {
                let got = match parse_rows(&o.out, &sep) {
                    Ok(r) => r,
                    Err(e) => return Some(format!("{}: {e}", c.id)),
                };
                if got.len() != want.len() {
                    return Some(format!(
                        "{}: the documented stage composition gives {} rows, the program printed {} (first expected {}, first printed {})",
                        c.id,
                        want.len(),
                        got.len(),
                        want.first().map(show).unwrap_or("-".into()),
                        got.first().map(show).unwrap_or("-".into())
                    ));
                }
                for (i, (a, b)) in got.iter().zip(&want).enumerate() {
                    if !same_row(a, b) {
                        return Some(format!("{}: row {i} is {} but the documented stage composition gives {}", c.id, show(a), show(b)));
                    }
                }
            }
            Some(style) => {
                // text / csv: the bytes are C15's business; the number of rows is the pipeline's
                if !plain_rows(&want) {
                    continue;
                }
                let header = if style == "csv" || c.spec.headers { 1 } else { 0 };
                let n = count_sep(&o.out, sep.as_bytes());
                if n != want.len() + header {
                    return Some(format!("{}: {style} output has {n} rows, the documented stage composition gives {}", c.id, want.len() + header));
                }
            }
        }
    }
    // argument-order twins print the same bytes
    if g.cases.len() >= 2 {
        for (c, o) in g.cases.iter().zip(obs).skip(1) {
            if c.spec == g.cases[0].spec && c.sources == g.cases[0].sources && (o.res != obs[0].res || o.out != obs[0].out) {
                return Some(format!("{}: the same options in another order on the command line give a different result ({} vs {})", c.id, o.res, obs[0].res));
            }
        }
    }
    None
}

/// no string anywhere in the rows contains a line break (so rows can be counted in text output)
fn plain_rows(rows: &[V]) -> bool {
    fn ok(v: &V) -> bool {
        match v {
            V::Str(s) => !s.contains('\n') && !s.contains('\r'),
            V::Arr(a) => a.iter().all(ok),
            V::Obj(o) => o.iter().all(|(k, v)| !k.contains('\n') && !k.contains('\r') && ok(v)),
            _ => true,
        }
    }
    rows.iter().all(ok)
}

// ---------------------------------------------------------------------------------- C06

fn tag_num(tag: &str, key: &str) -> Option<usize> {
    tag.split_whitespace().find_map(|t| t.strip_prefix(key).and_then(|v| v.strip_prefix('='))).and_then(|v| v.parse().ok())
}

fn tag_list(tag: &str, key: &str) -> Option<Vec<usize>> {
    let v = tag.split_whitespace().find_map(|t| t.strip_prefix(key).and_then(|v| v.strip_prefix('=')))?;
    if v.is_empty() {
        return Some(vec![]);
    }
    v.split(',').map(|x| x.parse().ok()).collect()
}

fn lines(b: &[u8]) -> Vec<&[u8]> {
    let mut v: Vec<&[u8]> = b.split(|c| *c == b'\n').collect();
    if v.last().map(|l| l.is_empty()).unwrap_or(false) {
        v.pop();
    }
    v
}

fn report_lines(b: &[u8]) -> usize {
    lines(b).iter().filter(|l| l.starts_with(b"error:")).count()
}

fn without_reports(b: &[u8]) -> Vec<u8> {
    let mut out = vec![];
    for l in b.split_inclusive(|c| *c == b'\n') {
        if !l.starts_with(b"error:") {
            out.extend_from_slice(l);
        }
    }
    out
}

/// Where the noise sits: for every malformed region the number of values that precede it.
/// Recomputed from the two streams when the generator's tag is missing (replay).
fn noise_positions(g: &Group, noisy: &[u8]) -> Option<Vec<usize>> {
    if let Some(at) = tag_list(&g.tag, "at") {
        return Some(at);
    }
    // walk the noisy stream: values by the strict reader, anything else is a white-space delimited token
    let mut at = vec![];
    let mut i = 0;
    let mut seen = 0;
    let mut in_region = false;
    while i < noisy.len() {
        let c = noisy[i];
        if matches!(c, b' ' | b'\n' | b'\r' | b'\t') {
            i += 1;
            continue;
        }
        if b"\"-[{0123456789ntf".contains(&c) {
            let mut p = Strict::new(&noisy[i..]);
            p.value().ok()?;
            i += p.i;
            seen += 1;
            in_region = false;
        } else {
            if !in_region {
                at.push(seen);
                in_region = true;
            }
            while i < noisy.len() && !matches!(noisy[i], b' ' | b'\n' | b'\r' | b'\t') {
                i += 1;
            }
        }
    }
    Some(at)
}

#[derive(PartialEq)]
enum C06Spec {
    ContainersOnly,
    Identity,
    SelectSize,
    FilterNotNull,
    UniqueTake(usize),
    Buffered,
    Other,
}

fn c06_spec(s: &Spec) -> C06Spec {
    let plain = s.split.is_none() && s.sets.is_empty() && s.skip == 0 && s.style.is_none() && s.jstyle.is_none() && s.rowsep.is_none();
    if !plain {
        return C06Spec::Other;
    }
    if s.ooa {
        let size_only = s.selects.is_empty() || (s.selects.len() == 1 && s.selects[0] == "(size .)=n");
        return if size_only && s.filter.is_none() && !s.unique && s.take.is_none() && s.sorts.is_empty() && s.group.is_none() { C06Spec::ContainersOnly } else { C06Spec::Other };
    }
    if !s.sorts.is_empty() || s.group.is_some() {
        return C06Spec::Buffered;
    }
    match (s.selects.as_slice(), s.filter.as_deref(), s.unique, s.take) {
        ([], None, false, None) => C06Spec::Identity,
        ([one], None, false, None) if one == "(size .)=n" => C06Spec::SelectSize,
        ([], Some("(not (null? .))"), false, None) => C06Spec::FilterNotNull,
        ([], None, true, Some(t)) => C06Spec::UniqueTake(t as usize),
        _ => C06Spec::Other,
    }
}

/// the very long malformed region: ignore = the clean run, silently and successfully; panic = the parse error after exactly the
/// rows of the values in front of the region
fn c06_huge(g: &Group, obs: &[Obs]) -> Option<String> {
    if g.cases.len() != 3 || obs.len() != 3 {
        return None;
    }
    let (noisy, clean, panic) = (&obs[0], &obs[1], &obs[2]);
    if clean.res != "ok" {
        return Some(format!("{}: the clean stream ended with {}", g.cases[1].id, clean.res));
    }
    if noisy.res != "ok" {
        return Some(format!("{}: --on-error=ignore ended with {} on a long malformed region", g.cases[0].id, noisy.res));
    }
    if noisy.out != clean.out {
        return Some(format!("{}: a long malformed region changed the rows under --on-error=ignore", g.cases[0].id));
    }
    if !noisy.err.is_empty() {
        return Some(format!("{}: --on-error=ignore wrote to stderr", g.cases[0].id));
    }
    let before = tag_num(&g.tag, "before")?;
    if !panic.res.starts_with("err:json") {
        return Some(format!("{}: --on-error=panic ended with {} instead of the parse error", g.cases[2].id, panic.res));
    }
    let cl = lines(&clean.out);
    let mut want: Vec<u8> = vec![];
    for l in cl.iter().take(before) {
        want.extend_from_slice(l);
        want.push(b'\n');
    }
    if panic.out != want {
        return Some(format!("{}: --on-error=panic printed {} rows, expected exactly the {before} rows in front of the malformed region", g.cases[2].id, lines(&panic.out).len()));
    }
    None
}

fn c06(g: &Group, obs: &[Obs]) -> Option<String> {
    if g.tag.starts_with("huge-gap") {
        return c06_huge(g, obs);
    }
    if g.cases.len() != 8 || obs.len() != 8 {
        return None;
    }
    let noisy_bytes = &g.cases[0].sources.first()?.bytes;
    let clean_bytes = &g.cases[1].sources.first()?.bytes;
    let values: Vec<V> = if g.values.is_empty() { parse_stream(clean_bytes)? } else { g.values.clone() };
    let at = noise_positions(g, noisy_bytes)?;
    let regions = tag_num(&g.tag, "regions").unwrap_or(at.len());
    if regions != at.len() {
        return None;
    }
    let kind = c06_spec(&g.cases[0].spec);
    // how far does the run read?  `--take` ends it with the value that gives the last row taken
    let mut stop_after: Option<usize> = None; // index of the value whose row ends the run
    let mut ambiguous = false;
    let rows_before = |k: usize| -> Option<usize> {
        // rows a streaming pipeline has printed once the first k values are processed
        match kind {
            C06Spec::Identity | C06Spec::SelectSize => Some(k),
            C06Spec::FilterNotNull => Some(values[..k.min(values.len())].iter().filter(|v| **v != V::Null).count()),
            C06Spec::ContainersOnly => Some(values[..k.min(values.len())].iter().filter(|v| matches!(v, V::Arr(_) | V::Obj(_))).count()),
            C06Spec::UniqueTake(t) => {
                let mut seen: Vec<&V> = vec![];
                for v in &values[..k.min(values.len())] {
                    if !seen.iter().any(|x| v_eq(x, v)) {
                        seen.push(v);
                    }
                }
                Some(seen.len().min(t))
            }
            _ => None,
        }
    };
    if let C06Spec::UniqueTake(t) = kind {
        // equal-as-JSON but differently written values: whether --unique merges them is C10's question
        for (i, a) in values.iter().enumerate() {
            for b in &values[..i] {
                if v_eq(a, b) && !same_row(a, b) {
                    ambiguous = true;
                }
            }
        }
        if t == 0 {
            stop_after = if values.is_empty() { None } else { Some(0) };
        } else {
            for k in 1..=values.len() {
                if rows_before(k) == Some(t) {
                    stop_after = Some(k - 1);
                    break;
                }
            }
        }
    }
    if ambiguous {
        return None;
    }
    // regions the run gets to see: those in front of a value it reads
    let visible: Vec<usize> = at.iter().copied().filter(|p| stop_after.map(|s| *p <= s).unwrap_or(true)).collect();
    for (pi, pol) in ["ignore", "stderr", "stdout", "panic"].iter().enumerate() {
        let (cn, cc) = (&g.cases[2 * pi], &g.cases[2 * pi + 1]);
        if cn.spec.on_error.as_deref() != Some(*pol) || cc.spec.on_error.as_deref() != Some(*pol) {
            return None;
        }
        let (noisy, clean) = (&obs[2 * pi], &obs[2 * pi + 1]);
        // a clean stream: no report anywhere, success
        if clean.res != "ok" {
            return Some(format!("{}: the clean stream ended with {}", cc.id, clean.res));
        }
        if report_lines(&clean.out) > 0 || report_lines(&clean.err) > 0 {
            return Some(format!("{}: an error report although the stream is clean", cc.id));
        }
        match *pol {
            "ignore" => {
                if noisy.res != "ok" {
                    return Some(format!("{}: --on-error=ignore ended with {}", cn.id, noisy.res));
                }
                if noisy.out != clean.out {
                    return Some(format!("{}: noise between values changed the rows under --on-error=ignore", cn.id));
                }
                if !noisy.err.is_empty() {
                    return Some(format!("{}: --on-error=ignore wrote to stderr", cn.id));
                }
            }
            "stderr" => {
                if noisy.res != "ok" {
                    return Some(format!("{}: --on-error=stderr ended with {}", cn.id, noisy.res));
                }
                if report_lines(&noisy.out) > 0 {
                    return Some(format!("{}: --on-error=stderr wrote an error report to stdout", cn.id));
                }
                if noisy.out != clean.out {
                    return Some(format!("{}: noise between values changed the rows under --on-error=stderr", cn.id));
                }
                let n = report_lines(&noisy.err);
                if n < visible.len() {
                    return Some(format!("{}: {} malformed regions but only {n} `error:` lines on stderr", cn.id, visible.len()));
                }
            }
            "stdout" => {
                if noisy.res != "ok" {
                    return Some(format!("{}: --on-error=stdout ended with {}", cn.id, noisy.res));
                }
                if !noisy.err.is_empty() {
                    return Some(format!("{}: --on-error=stdout wrote to stderr", cn.id));
                }
                if without_reports(&noisy.out) != clean.out {
                    return Some(format!("{}: noise between values changed the rows under --on-error=stdout", cn.id));
                }
                let n = report_lines(&noisy.out);
                if n < visible.len() {
                    return Some(format!("{}: {} malformed regions but only {n} `error:` lines on stdout", cn.id, visible.len()));
                }
            }
            _ => {
                if visible.is_empty() {
                    // nothing malformed is ever read: the run is the clean run
                    if noisy.res != "ok" || noisy.out != clean.out {
                        return Some(format!("{}: no malformed byte is read, yet --on-error=panic gave {} / other rows", cn.id, noisy.res));
                    }
                    continue;
                }
                if noisy.res == "ok" {
                    return Some(format!("{}: --on-error=panic did not fail although the stream has {} malformed regions", cn.id, visible.len()));
                }
                if !noisy.res.starts_with("err:json") {
                    return Some(format!("{}: --on-error=panic ended with {} instead of the parse error", cn.id, noisy.res));
                }
                if report_lines(&noisy.out) > 0 {
                    return Some(format!("{}: --on-error=panic wrote an error report to stdout", cn.id));
                }
                let first = visible[0];
                match rows_before(first) {
                    Some(k) => {
                        // a streaming pipeline: exactly the rows of the values in front of the first malformed byte
                        let cl = lines(&clean.out);
                        let mut want: Vec<u8> = vec![];
                        for l in cl.iter().take(k) {
                            want.extend_from_slice(l);
                            want.push(b'\n');
                        }
                        if cl.len() < k {
                            return None; // the clean run itself is not what the reference expects: other checks' business
                        }
                        if noisy.out != want {
                            return Some(format!(
                                "{}: --on-error=panic with {first} values in front of the first malformed byte printed {} rows, expected exactly the {k} rows of those values",
                                cn.id,
                                lines(&noisy.out).len()
                            ));
                        }
                    }
                    None => {
                        if !clean.out.starts_with(&noisy.out) && kind != C06Spec::Other {
                            return Some(format!("{}: --on-error=panic printed something that is not a prefix of the clean output", cn.id));
                        }
                    }
                }
            }
        }
    }
    None
}

// ---------------------------------------------------------------------------------- C07

fn key_of<'a>(v: &'a V, k: &str) -> Option<&'a V> {
    match v {
        V::Obj(kvs) => kvs.iter().find(|(x, _)| x == k).map(|(_, v)| v),
        _ => None,
    }
}

/// `out` must be the stable sort of `items` by `key`: a permutation, no pair out of order, equal
/// keys in arrival order.  Pairs the documented order says nothing about are accepted.
fn check_sorted<T>(what: &str, items: &[T], out: &[T], same: &dyn Fn(&T, &T) -> bool, cmp: &dyn Fn(&T, &T) -> Option<Ordering>, show_t: &dyn Fn(&T) -> String) -> Option<String> {
    if items.len() != out.len() {
        return Some(format!("{what}: {} sortable items in, {} out", items.len(), out.len()));
    }
    // assign every output item the earliest unused identical input item
    let mut used = vec![false; items.len()];
    let mut arrival = vec![];
    for o in out {
        match (0..items.len()).find(|i| !used[*i] && same(&items[*i], o)) {
            Some(i) => {
                used[i] = true;
                arrival.push(i);
            }
            None => return Some(format!("{what}: {} is in the result but is not one of the (remaining) sortable inputs: not a permutation", show_t(o))),
        }
    }
    for i in 0..out.len() {
        for j in i + 1..out.len() {
            match cmp(&out[i], &out[j]) {
                Some(Ordering::Greater) => {
                    return Some(format!("{what}: {} comes before {} against the documented order", show_t(&out[i]), show_t(&out[j])));
                }
                Some(Ordering::Equal) if arrival[i] > arrival[j] => {
                    return Some(format!("{what}: tie not in arrival order: {} (arrived {}) before {} (arrived {})", show_t(&out[i]), arrival[i], show_t(&out[j]), arrival[j]));
                }
                _ => {}
            }
        }
    }
    None
}

fn c07(g: &Group, obs: &[Obs]) -> Option<String> {
    let (c, o) = (g.cases.first()?, obs.first()?);
    let src = c.sources.first()?;
    let inputs = parse_stream(&src.bytes)?;
    let kind = if !g.tag.is_empty() {
        g.tag.clone()
    } else if c.spec.selects.iter().any(|s| s.ends_with("=ab")) {
        "triple".into()
    } else if c.spec.selects.iter().any(|s| s.ends_with("=sb")) {
        "functions".into()
    } else {
        "rows".into()
    };
    if o.res != "ok" {
        return Some(format!("{}: run gave {} {}", c.id, o.res, o.panic_msg));
    }
    let sep = rowsep(&c.spec);
    let rows = match parse_rows(&o.out, &sep) {
        Ok(r) => r,
        Err(e) => return Some(format!("{}: {e}", c.id)),
    };
    let verdict = match kind.as_str() {
        "triple" => c07_triple(&inputs, &rows),
        "functions" => c07_functions(&inputs, &rows),
        _ => c07_rows(&c.spec, &inputs, &rows),
    };
    verdict.map(|m| format!("{}: {m}", c.id))
}

fn c07_rows(spec: &Spec, inputs: &[V], out: &[V]) -> Option<String> {
    if !spec.selects.is_empty() || spec.filter.is_some() || spec.split.is_some() || spec.group.is_some() || spec.unique || spec.skip != 0 || spec.take.is_some() || spec.ooa
        || spec.style.is_some() || spec.sorts.is_empty()
    {
        return None;
    }
    let env = read_env(&spec.sets).ok()?;
    let keys: Vec<SortKey> = spec.sorts.iter().map(|s| read_sort(s)).collect::<R<Vec<_>>>().ok()?;
    // sortable rows: every key present
    let keyed = |v: &V| -> Option<Option<Vec<V>>> {
        let mut ks = vec![];
        for k in &keys {
            match eval(&k.e, v, &env).ok()? {
                Some(x) => ks.push(x),
                None => return Some(None),
            }
        }
        Some(Some(ks))
    };
    let mut sortable: Vec<(Vec<V>, V)> = vec![];
    for v in inputs {
        if let Some(ks) = keyed(v)? {
            sortable.push((ks, v.clone()));
        }
    }
    let mut outk: Vec<(Vec<V>, V)> = vec![];
    for v in out {
        match keyed(v)? {
            Some(ks) => outk.push((ks, v.clone())),
            None => return Some(format!("--sort-by printed {} although one of its keys is absent", show(v))),
        }
    }
    let what = format!("--sort-by {:?}", spec.sorts);
    check_sorted(
        &what,
        &sortable,
        &outk,
        &|a, b| same_row(&a.1, &b.1),
        &|a, b| cmp_keys(&a.0, &b.0, &keys),
        &|a| format!("{} (keys {})", show(&a.1), a.0.iter().map(show).collect::<Vec<_>>().join(" / ")),
    )
}

fn c07_triple(inputs: &[V], rows: &[V]) -> Option<String> {
    if inputs.len() != 1 || rows.len() != 1 {
        return Some(format!("{} records in, {} rows out", inputs.len(), rows.len()));
    }
    let rec = &inputs[0];
    let (a, b, c) = (key_of(rec, "a")?, key_of(rec, "b")?, key_of(rec, "c")?);
    let row = &rows[0];
    let flag = |n: &str| -> Result<bool, String> {
        match key_of(row, n) {
            Some(V::Bool(x)) => Ok(*x),
            other => Err(format!("comparison `{n}` of {} {} {} gave {} instead of a Boolean", show(a), show(b), show(c), other.map(show).unwrap_or("<nothing>".into()))),
        }
    };
    let get = || -> Result<(bool, bool, bool, bool, bool, bool, bool), String> { Ok((flag("ab")?, flag("ba")?, flag("le")?, flag("ge")?, flag("gt")?, flag("bc")?, flag("ac")?)) };
    let (ab, ba, le, ge, gt, bc, ac) = match get() {
        Ok(t) => t,
        Err(e) => return Some(e),
    };
    let ctx = format!("a={} b={} c={}", show(a), show(b), show(c));
    // agreement with the documented order where it speaks
    for (x, y, lt, name) in [(a, b, ab, "(< a b)"), (b, a, ba, "(< b a)"), (b, c, bc, "(< b c)"), (a, c, ac, "(< a c)")] {
        if let Some(ord) = ref_cmp(x, y) {
            if lt != (ord == Ordering::Less) {
                return Some(format!("{name} = {lt} but the documented order says {:?} ({ctx})", ord));
            }
        }
    }
    if let Some(ord) = ref_cmp(a, b) {
        if le != (ord != Ordering::Greater) || ge != (ord != Ordering::Less) || gt != (ord == Ordering::Greater) {
            return Some(format!("(<= a b)={le} (>= a b)={ge} (> a b)={gt} but the documented order says {:?} ({ctx})", ord));
        }
    }
    // one order: the four functions are views of the same relation, which is total and transitive
    if ab && ba {
        return Some(format!("(< a b) and (< b a) both hold ({ctx})"));
    }
    if le != !ba || ge != !ab || gt != ba {
        return Some(format!("< <= > >= disagree among themselves: lt={ab} gt'={ba} le={le} ge={ge} gt={gt} ({ctx})"));
    }
    if ab && bc && !ac {
        return Some(format!("not transitive: a<b, b<c but not a<c ({ctx})"));
    }
    if !ba && bc && !ac {
        return Some(format!("not transitive: a<=b, b<c but not a<c ({ctx})"));
    }
    // the sort functions on the same three values
    let cmpv = |x: &V, y: &V| ref_cmp(x, y);
    let samev = |x: &V, y: &V| same_row(x, y);
    let showv = |x: &V| show(x);
    match key_of(row, "s") {
        Some(V::Arr(s)) => {
            let items = vec![a.clone(), b.clone(), c.clone()];
            if let Some(m) = check_sorted("(sort [a b c])", &items, s, &samev, &cmpv, &showv) {
                return Some(format!("{m} ({ctx})"));
            }
        }
        other => return Some(format!("(sort [a b c]) gave {} ({ctx})", other.map(show).unwrap_or("<nothing>".into()))),
    }
    match key_of(row, "su") {
        Some(V::Arr(s)) => {
            if let Some(m) = check_sort_unique(&[a.clone(), b.clone(), c.clone(), a.clone()], s) {
                return Some(format!("{m} ({ctx})"));
            }
        }
        other => return Some(format!("(sort_unique [a b c a]) gave {} ({ctx})", other.map(show).unwrap_or("<nothing>".into()))),
    }
    None
}

/// sorted, no two equal neighbours, the same set of values as the input
fn check_sort_unique(items: &[V], out: &[V]) -> Option<String> {
    for i in 0..out.len() {
        for j in i + 1..out.len() {
            match ref_cmp(&out[i], &out[j]) {
                Some(Ordering::Greater) => return Some(format!("sort_unique: {} before {} against the documented order", show(&out[i]), show(&out[j]))),
                Some(Ordering::Equal) => return Some(format!("sort_unique: {} and {} are equal and both kept", show(&out[i]), show(&out[j]))),
                _ => {}
            }
        }
    }
    for x in items {
        if !out.iter().any(|y| v_eq(x, y)) {
            return Some(format!("sort_unique: {} disappeared", show(x)));
        }
    }
    for y in out {
        if !items.iter().any(|x| v_eq(x, y)) {
            return Some(format!("sort_unique: {} is not one of the inputs", show(y)));
        }
    }
    None
}

fn c07_functions(inputs: &[V], rows: &[V]) -> Option<String> {
    if inputs.len() != 1 || rows.len() != 1 {
        return Some(format!("{} records in, {} rows out", inputs.len(), rows.len()));
    }
    let rec = &inputs[0];
    let row = &rows[0];
    let (l, p, o) = match (key_of(rec, "l")?, key_of(rec, "p")?, key_of(rec, "o")?) {
        (V::Arr(l), V::Arr(p), V::Obj(o)) => (l, p, o),
        _ => return None,
    };
    let by_k = |x: &V, y: &V| -> Option<Ordering> {
        match (key_of(x, "k"), key_of(y, "k")) {
            (Some(a), Some(b)) => ref_cmp(a, b),
            _ => None,
        }
    };
    let samev = |x: &V, y: &V| same_row(x, y);
    let showv = |x: &V| show(x);
    // (sort_by .l .k)
    match key_of(row, "sb") {
        Some(V::Arr(s)) => {
            if let Some(m) = check_sorted("(sort_by .l .k)", l, s, &samev, &by_k, &showv) {
                return Some(m);
            }
        }
        other => return Some(format!("(sort_by .l .k) gave {}", other.map(show).unwrap_or("<nothing>".into()))),
    }
    // (sort .p)
    match key_of(row, "so") {
        Some(V::Arr(s)) => {
            if let Some(m) = check_sorted("(sort .p)", p, s, &samev, &|x, y| ref_cmp(x, y), &showv) {
                return Some(m);
            }
        }
        other => return Some(format!("(sort .p) gave {}", other.map(show).unwrap_or("<nothing>".into()))),
    }
    // (sort_unique .p)
    match key_of(row, "su") {
        Some(V::Arr(s)) => {
            if let Some(m) = check_sort_unique(p, s) {
                return Some(m);
            }
        }
        other => return Some(format!("(sort_unique .p) gave {}", other.map(show).unwrap_or("<nothing>".into()))),
    }
    // objects: members as (name, value) pairs in their order
    let same_kv = |x: &(String, V), y: &(String, V)| x.0 == y.0 && same_row(&x.1, &y.1);
    let show_kv = |x: &(String, V)| format!("{:?}: {}", x.0, show(&x.1));
    match key_of(row, "sv") {
        Some(V::Obj(s)) => {
            if let Some(m) = check_sorted("(sort_by_values_by .o .k)", o, s, &same_kv, &|x, y| by_k(&x.1, &y.1), &show_kv) {
                return Some(m);
            }
        }
        other => return Some(format!("(sort_by_values_by .o .k) gave {}", other.map(show).unwrap_or("<nothing>".into()))),
    }
    match key_of(row, "sk") {
        Some(V::Obj(s)) => {
            if let Some(m) = check_sorted("(sort_by_keys .o)", o, s, &same_kv, &|x, y| Some(x.0.chars().cmp(y.0.chars())), &show_kv) {
                return Some(m);
            }
        }
        other => return Some(format!("(sort_by_keys .o) gave {}", other.map(show).unwrap_or("<nothing>".into()))),
    }
    // (sort_by_values (map_values .o .k)): the object of the keys, sorted by value
    let mapped: Vec<(String, V)> = o.iter().filter_map(|(n, v)| key_of(v, "k").map(|k| (n.clone(), k.clone()))).collect();
    if mapped.len() == o.len() {
        match key_of(row, "svv") {
            Some(V::Obj(s)) => {
                if let Some(m) = check_sorted("(sort_by_values (map_values .o .k))", &mapped, s, &same_kv, &|x, y| ref_cmp(&x.1, &y.1), &show_kv) {
                    return Some(m);
                }
            }
            other => return Some(format!("(sort_by_values (map_values .o .k)) gave {}", other.map(show).unwrap_or("<nothing>".into()))),
        }
    }
    let _ = show_opt;
    None
}
