//! Implementation-side oracles (model-free) for C04, C05, C15, C19, C20 and the dedicated
//! generators that go with them: see DESIGN.md §3.4.
//!
//! Everything here is independent reference code: a partial evaluator of the selection language
//! written from the function documentation (`add_description_line` / `add_example` texts), an
//! RFC 4180 reader, exact decimal arithmetic on big integers, and a process-level check of the
//! real binary.  Nothing of jawk's parser or evaluator is used; values are read with the harness's
//! own strict RFC 8259 reader.
use crate::case::Case;
use crate::gen_table::FUNCTION_TABLE;
use crate::gens::{stdin_src, Group};
use crate::rng::Rng;
use crate::runner::Obs;
use crate::value::{self, Strict, V};
use bigdecimal::num_bigint::BigInt;
use std::cmp::Ordering;

pub fn oracle(prop: &str, g: &Group, obs: &[Obs]) -> Option<String> {
    match prop {
        "C04" => c04(g, obs),
        "C05" => c05(g, obs),
        "C15" => c15(g, obs),
        "C19" => c19(g, obs),
        "C20" => c20(g, obs),
        _ => None,
    }
}

fn show(v: &V) -> String {
    let t = value::render(v);
    if t.chars().count() > 160 {
        format!("{}…", t.chars().take(160).collect::<String>())
    } else {
        t
    }
}

// =================================================================================== exact decimals

/// mantissa * 10^exp, normalised (no trailing zero in the mantissa; zero is (0, 0))
#[derive(Clone, Debug, PartialEq)]
pub struct Dec {
    m: BigInt,
    e: i64,
}

fn pow10(k: u64) -> BigInt {
    BigInt::from(10u32).pow(k as u32)
}

impl Dec {
    fn norm(mut self) -> Dec {
        let zero = BigInt::from(0u32);
        if self.m == zero {
            self.e = 0;
            return self;
        }
        let ten = BigInt::from(10u32);
        while (&self.m % &ten) == zero {
            self.m = &self.m / &ten;
            self.e += 1;
        }
        self
    }

    /// `[+-]? digits [. digits*] [(e|E) [+-]? digits]` - the decimal strings of the property
    pub fn parse(s: &str) -> Option<Dec> {
        let b = s.as_bytes();
        let mut i = 0;
        let mut neg = false;
        if i < b.len() && (b[i] == b'+' || b[i] == b'-') {
            neg = b[i] == b'-';
            i += 1;
        }
        let mut digits = String::new();
        let st = i;
        while i < b.len() && b[i].is_ascii_digit() {
            digits.push(b[i] as char);
            i += 1;
        }
        if i == st {
            return None;
        }
        let mut scale: i64 = 0;
        if i < b.len() && b[i] == b'.' {
            i += 1;
            while i < b.len() && b[i].is_ascii_digit() {
                digits.push(b[i] as char);
                scale += 1;
                i += 1;
            }
        }
        let mut exp: i64 = 0;
        if i < b.len() && (b[i] == b'e' || b[i] == b'E') {
            i += 1;
            let mut eneg = false;
            if i < b.len() && (b[i] == b'+' || b[i] == b'-') {
                eneg = b[i] == b'-';
                i += 1;
            }
            let st = i;
            while i < b.len() && b[i].is_ascii_digit() {
                i += 1;
            }
            if i == st || i - st > 6 {
                return None;
            }
            exp = s[st..i].parse().ok()?;
            if eneg {
                exp = -exp;
            }
        }
        if i != b.len() {
            return None;
        }
        let mut m: BigInt = digits.parse().ok()?;
        if neg {
            m = -m;
        }
        Some(Dec { m, e: exp - scale }.norm())
    }

    /// both mantissas at the smaller exponent
    fn align(a: &Dec, b: &Dec) -> Option<(BigInt, BigInt, i64)> {
        let e = a.e.min(b.e);
        if a.e - e > 3000 || b.e - e > 3000 {
            return None;
        }
        Some((&a.m * pow10((a.e - e) as u64), &b.m * pow10((b.e - e) as u64), e))
    }
    fn add(a: &Dec, b: &Dec) -> Option<Dec> {
        let (x, y, e) = Dec::align(a, b)?;
        Some(Dec { m: x + y, e }.norm())
    }
    fn neg(&self) -> Dec {
        Dec { m: -self.m.clone(), e: self.e }
    }
    fn mul(a: &Dec, b: &Dec) -> Dec {
        Dec { m: &a.m * &b.m, e: a.e + b.e }.norm()
    }
    fn abs(&self) -> Dec {
        let zero = BigInt::from(0u32);
        if self.m < zero { self.neg() } else { self.clone() }
    }
    pub fn cmp(a: &Dec, b: &Dec) -> Option<Ordering> {
        let (x, y, _) = Dec::align(a, b)?;
        Some(x.cmp(&y))
    }
    fn show(&self) -> String {
        format!("{}E{}", self.m, self.e)
    }
}

// =================================================================================== expression AST

#[derive(Clone, Debug, PartialEq)]
pub enum Step {
    Key(String),
    Idx(usize),
}

#[derive(Clone, Debug, PartialEq)]
pub enum Ast {
    Lit(V),
    Ext { ups: usize, path: Vec<Step> },
    Call { name: &'static str, args: Vec<Ast> },
}

struct P<'a> {
    b: &'a [u8],
    i: usize,
    depth: usize,
}

fn lookup(name: &str) -> Option<(&'static str, usize, Option<usize>)> {
    FUNCTION_TABLE.iter().find(|(n, aliases, _, _)| *n == name || aliases.contains(&name)).map(|(n, _, lo, hi)| (*n, *lo, *hi))
}

fn is_ws(c: u8) -> bool {
    matches!(c, b' ' | b'\n' | b'\t' | b'\r')
}

/// number spellings whose reading is beyond doubt: plain integers (no `-0`, no leading zero) and
/// short decimals with a non-zero fraction and no exponent
fn num_ok(n: &[u8]) -> bool {
    let Ok(s) = std::str::from_utf8(n) else { return false };
    let (neg, body) = match s.strip_prefix('-') {
        Some(r) => (true, r),
        None => (false, s),
    };
    if body.is_empty() {
        return false;
    }
    let plain = |t: &str| !t.is_empty() && t.bytes().all(|c| c.is_ascii_digit()) && (t == "0" || !t.starts_with('0'));
    if body.bytes().all(|c| c.is_ascii_digit()) {
        return plain(body) && !(neg && body == "0");
    }
    if let Some((ip, fp)) = body.split_once('.') {
        return plain(ip) && !fp.is_empty() && fp.bytes().all(|c| c.is_ascii_digit()) && fp.bytes().any(|c| c != b'0') && ip.len() + fp.len() <= 15;
    }
    false
}

fn numbers_plain(t: &[u8]) -> bool {
    let mut i = 0;
    while i < t.len() {
        match t[i] {
            b'"' => {
                i += 1;
                while i < t.len() && t[i] != b'"' {
                    if t[i] == b'\\' {
                        i += 1;
                    }
                    i += 1;
                }
                i += 1;
            }
            b'-' | b'0'..=b'9' => {
                let st = i;
                while i < t.len() && matches!(t[i], b'-' | b'+' | b'.' | b'e' | b'E' | b'0'..=b'9') {
                    i += 1;
                }
                if !num_ok(&t[st..i]) {
                    return false;
                }
            }
            _ => i += 1,
        }
    }
    true
}

impl<'a> P<'a> {
    fn peek(&self) -> Option<u8> {
        self.b.get(self.i).copied()
    }
    fn ws(&mut self) {
        while let Some(c) = self.peek() {
            if is_ws(c) { self.i += 1 } else { break }
        }
    }
    fn expr(&mut self) -> Option<Ast> {
        self.depth += 1;
        if self.depth > 200 {
            return None;
        }
        self.ws();
        let r = match self.peek()? {
            b'.' | b'#' | b'^' => self.extractor(),
            b'(' => self.call(),
            b':' | b'@' | b'&' | b'/' => None, // variables, macros, input context, earlier selections: not covered
            _ => self.literal(),
        };
        self.depth -= 1;
        r
    }
    fn literal(&mut self) -> Option<Ast> {
        let rest = &self.b[self.i..];
        let mut s = Strict::new(rest);
        let v = s.value().ok()?;
        let used = s.i;
        if !numbers_plain(&rest[..used]) {
            return None;
        }
        self.i += used;
        Some(Ast::Lit(v))
    }
    fn extractor(&mut self) -> Option<Ast> {
        let mut ups = 0;
        while self.peek() == Some(b'^') {
            ups += 1;
            self.i += 1;
        }
        let mut path = vec![];
        loop {
            match self.peek() {
                Some(b'.') => {
                    self.i += 1;
                    let st = self.i;
                    while let Some(c) = self.peek() {
                        let delim = c.is_ascii_whitespace() || c.is_ascii_control() || b".,=()\"][{}#".contains(&c);
                        if delim { break }
                        self.i += 1;
                    }
                    if st == self.i {
                        return if path.is_empty() { Some(Ast::Ext { ups, path }) } else { None };
                    }
                    path.push(Step::Key(String::from_utf8(self.b[st..self.i].to_vec()).ok()?));
                }
                Some(b'#') => {
                    self.i += 1;
                    let st = self.i;
                    while let Some(b'0'..=b'9') = self.peek() {
                        self.i += 1;
                    }
                    if st == self.i {
                        return if path.is_empty() { Some(Ast::Ext { ups, path }) } else { None };
                    }
                    let n: usize = std::str::from_utf8(&self.b[st..self.i]).ok()?.parse().ok()?;
                    path.push(Step::Idx(n));
                }
                _ => return Some(Ast::Ext { ups, path }),
            }
        }
    }
    fn call(&mut self) -> Option<Ast> {
        self.i += 1;
        self.ws();
        let st = self.i;
        while let Some(c) = self.peek() {
            if c.is_ascii_whitespace() || c.is_ascii_control() || c == b',' || c == b'(' || c == b')' { break }
            self.i += 1;
        }
        let mut name = std::str::from_utf8(&self.b[st..self.i]).ok()?;
        let mut args = vec![];
        if let Some(rest) = name.strip_prefix('.') {
            args.push(Ast::Ext { ups: 0, path: vec![] });
            name = rest;
        }
        let (canon, lo, hi) = lookup(name)?;
        loop {
            self.ws();
            match self.peek()? {
                b',' => self.i += 1,
                b')' => {
                    self.i += 1;
                    break;
                }
                _ => args.push(self.expr()?),
            }
        }
        if args.len() < lo || hi.map(|h| args.len() > h).unwrap_or(false) {
            return None;
        }
        Some(Ast::Call { name: canon, args })
    }
}

/// `<expression>[=name]` as given to --select; None = outside the covered sub-language
pub fn parse_selection(text: &str) -> Option<(Ast, String)> {
    let mut p = P { b: text.as_bytes(), i: 0, depth: 0 };
    let a = p.expr()?;
    p.ws();
    match p.peek() {
        None => Some((a, text.to_string())),
        Some(b'=') => {
            p.i += 1;
            p.ws();
            Some((a, String::from_utf8(p.b[p.i..].to_vec()).ok()?))
        }
        _ => None,
    }
}

/// an expression alone (used by the generators to size their boundary arguments)
pub fn parse_expr(text: &str) -> Option<Ast> {
    let mut p = P { b: text.as_bytes(), i: 0, depth: 0 };
    let a = p.expr()?;
    p.ws();
    if p.i == p.b.len() { Some(a) } else { None }
}

// =================================================================================== reference evaluator

/// what the documentation prescribes for an expression on an input
#[derive(Clone, Debug)]
pub enum Rv {
    Val(V),
    /// a number-as-string result: the value is prescribed, its spelling is not
    Dec(Dec),
    Nothing,
    /// the documentation (or this partial evaluator) does not settle the result
    Unknown,
}

enum Cnt {
    N(usize),
    Nothing,
    Unk,
}

/// "a positive integer" argument (N of take, an index, a start, a length)
fn count(a: &Option<V>) -> Cnt {
    match a {
        Some(V::Int(i)) if *i >= 0 && *i < (1i128 << 64) => Cnt::N(usize::try_from(*i as u64).unwrap_or(usize::MAX)),
        Some(V::Int(_)) => Cnt::Nothing,
        Some(V::Float(f)) if f.fract() != 0.0 => Cnt::Nothing,
        Some(V::Float(_)) => Cnt::Unk,
        _ => Cnt::Nothing,
    }
}

fn rank(v: &V) -> u8 {
    match v {
        V::Null => 0,
        V::Bool(false) => 1,
        V::Bool(true) => 2,
        V::Str(_) => 3,
        V::Int(_) | V::Float(_) => 4,
        V::Obj(_) => 5,
        V::Arr(_) => 6,
    }
}

const P53: i128 = 1 << 53;

fn num_cmp(a: &V, b: &V) -> Option<Ordering> {
    match (a, b) {
        (V::Int(x), V::Int(y)) => {
            if x.abs() <= P53 && y.abs() <= P53 {
                return Some(x.cmp(y));
            }
            // the documentation does not say how finely huge numbers are compared
            let (fx, fy) = (*x as f64, *y as f64);
            if fx != fy { fx.partial_cmp(&fy) } else if x == y { Some(Ordering::Equal) } else { None }
        }
        (V::Float(x), V::Float(y)) => x.partial_cmp(y),
        (V::Int(x), V::Float(y)) => {
            let fx = *x as f64;
            if x.abs() <= P53 || fx != *y { fx.partial_cmp(y) } else { None }
        }
        (V::Float(_), V::Int(_)) => num_cmp(b, a).map(|o| o.reverse()),
        _ => None,
    }
}

fn eq_known(a: &V, b: &V) -> Option<bool> {
    if rank(a) != rank(b) {
        // false and true have different ranks
        return Some(false);
    }
    match (a, b) {
        (V::Null, V::Null) => Some(true),
        (V::Bool(x), V::Bool(y)) => Some(x == y),
        (V::Str(x), V::Str(y)) => Some(x == y),
        (V::Int(x), V::Int(y)) => Some(x == y),
        (V::Int(_) | V::Float(_), V::Int(_) | V::Float(_)) => num_cmp(a, b).map(|o| o == Ordering::Equal),
        (V::Arr(x), V::Arr(y)) => {
            if x.len() != y.len() {
                return Some(false);
            }
            let mut unk = false;
            for (p, q) in x.iter().zip(y) {
                match eq_known(p, q) {
                    Some(false) => return Some(false),
                    None => unk = true,
                    _ => {}
                }
            }
            if unk { None } else { Some(true) }
        }
        (V::Obj(x), V::Obj(y)) => {
            if x.len() != y.len() {
                return Some(false);
            }
            let mut unk = false;
            for (k, p) in x {
                match y.iter().find(|(k2, _)| k2 == k) {
                    None => return Some(false),
                    Some((_, q)) => match eq_known(p, q) {
                        Some(false) => return Some(false),
                        None => unk = true,
                        _ => {}
                    },
                }
            }
            let same_order = x.iter().zip(y).all(|((k, _), (k2, _))| k == k2);
            // whether member order matters for equality is not documented
            if unk || !same_order { None } else { Some(true) }
        }
        _ => Some(false),
    }
}

/// null < false < true < strings < numbers < objects < arrays; inside a type only what is beyond doubt
fn ord_known(a: &V, b: &V) -> Option<Ordering> {
    let (ra, rb) = (rank(a), rank(b));
    if ra != rb {
        return Some(ra.cmp(&rb));
    }
    match (a, b) {
        (V::Str(x), V::Str(y)) => Some(x.chars().cmp(y.chars())),
        (V::Int(_) | V::Float(_), _) => num_cmp(a, b),
        (V::Arr(_), _) | (V::Obj(_), _) => {
            if eq_known(a, b) == Some(true) { Some(Ordering::Equal) } else { None }
        }
        _ => Some(Ordering::Equal),
    }
}

pub struct Eval {
    fuel: usize,
}

fn nas_operand(r: &Rv) -> Result<Option<Dec>, ()> {
    match r {
        Rv::Dec(d) => Ok(Some(d.clone())),
        Rv::Val(V::Str(s)) => match Dec::parse(s) {
            Some(d) => Ok(Some(d)),
            None => {
                if s.bytes().any(|c| c.is_ascii_digit()) { Err(()) } else { Ok(None) }
            }
        },
        Rv::Val(_) | Rv::Nothing => Ok(None),
        Rv::Unknown => Err(()),
    }
}

impl Eval {
    pub fn new() -> Eval {
        Eval { fuel: 200_000 }
    }

    pub fn eval(&mut self, a: &Ast, input: &V, parents: &[V]) -> Rv {
        if self.fuel == 0 {
            return Rv::Unknown;
        }
        self.fuel -= 1;
        match a {
            Ast::Lit(v) => Rv::Val(v.clone()),
            Ast::Ext { ups, path } => {
                let mut cur: &V = if *ups == 0 {
                    input
                } else if *ups <= parents.len() {
                    &parents[*ups - 1]
                } else {
                    // `^` outside a functional function is not documented
                    return Rv::Unknown;
                };
                for s in path {
                    let next = match (s, cur) {
                        (Step::Key(k), V::Obj(o)) => o.iter().find(|(x, _)| x == k).map(|(_, v)| v),
                        (Step::Idx(i), V::Arr(l)) => l.get(*i),
                        _ => None,
                    };
                    match next {
                        Some(v) => cur = v,
                        None => return Rv::Nothing,
                    }
                }
                Rv::Val(cur.clone())
            }
            Ast::Call { name, args } => self.call(name, args, input, parents),
        }
    }

    fn call(&mut self, name: &str, args: &[Ast], input: &V, parents: &[V]) -> Rv {
        // ---- functions that do not look at all their arguments
        match name {
            "?" => {
                return match self.eval(&args[0], input, parents) {
                    Rv::Val(V::Bool(true)) => self.eval(&args[1], input, parents),
                    Rv::Val(V::Bool(false)) => self.eval(&args[2], input, parents),
                    Rv::Unknown => Rv::Unknown,
                    _ => Rv::Nothing,
                };
            }
            "default" => {
                for a in args {
                    match self.eval(a, input, parents) {
                        Rv::Nothing => {}
                        other => return other,
                    }
                }
                return Rv::Nothing;
            }
            "map" | "filter" => {
                let list = match self.eval(&args[0], input, parents) {
                    Rv::Val(V::Arr(l)) => l,
                    Rv::Unknown | Rv::Dec(_) => return Rv::Unknown,
                    _ => return Rv::Nothing,
                };
                let mut inner: Vec<V> = Vec::with_capacity(parents.len() + 1);
                inner.push(input.clone());
                inner.extend(parents.iter().cloned());
                let mut out = vec![];
                for el in list {
                    match (name, self.eval(&args[1], &el, &inner)) {
                        (_, Rv::Unknown) | (_, Rv::Dec(_)) => return Rv::Unknown,
                        ("map", Rv::Val(v)) => out.push(v),
                        ("filter", Rv::Val(V::Bool(true))) => out.push(el),
                        _ => {}
                    }
                }
                return Rv::Val(V::Arr(out));
            }
            _ => {}
        }
        let rs: Vec<Rv> = args.iter().map(|a| self.eval(a, input, parents)).collect();
        if rs.iter().any(|r| matches!(r, Rv::Unknown)) {
            return Rv::Unknown;
        }
        // ---- number-as-string functions
        if name.starts_with('"') {
            let mut ds = vec![];
            let mut nothing = false;
            for r in &rs {
                match nas_operand(r) {
                    Err(()) => return Rv::Unknown,
                    Ok(None) => nothing = true,
                    Ok(Some(d)) => ds.push(d),
                }
            }
            if !matches!(name, "\"+\"" | "\"-\"" | "\"*\"" | "\"abs\"" | "\"||\"" | "\"=\"" | "\"!=\"" | "\"<\"" | "\"<=\"" | "\">\"" | "\">=\"") {
                return Rv::Unknown;
            }
            if nothing {
                return Rv::Nothing;
            }
            let cmp = |ds: &[Dec], f: fn(Ordering) -> bool| match Dec::cmp(&ds[0], &ds[1]) {
                Some(o) => Rv::Val(V::Bool(f(o))),
                None => Rv::Unknown,
            };
            return match name {
                "\"+\"" => {
                    let mut acc = ds[0].clone();
                    for d in &ds[1..] {
                        match Dec::add(&acc, d) {
                            Some(s) => acc = s,
                            None => return Rv::Unknown,
                        }
                    }
                    Rv::Dec(acc)
                }
                "\"*\"" => {
                    let mut acc = ds[0].clone();
                    for d in &ds[1..] {
                        acc = Dec::mul(&acc, d);
                    }
                    Rv::Dec(acc)
                }
                "\"-\"" => {
                    if ds.len() == 1 {
                        Rv::Dec(ds[0].neg())
                    } else {
                        match Dec::add(&ds[0], &ds[1].neg()) {
                            Some(s) => Rv::Dec(s),
                            None => Rv::Unknown,
                        }
                    }
                }
                "\"abs\"" => Rv::Dec(ds[0].abs()),
                "\"||\"" => Rv::Dec(ds[0].clone()),
                "\"=\"" => cmp(&ds, |o| o == Ordering::Equal),
                "\"!=\"" => cmp(&ds, |o| o != Ordering::Equal),
                "\"<\"" => cmp(&ds, |o| o == Ordering::Less),
                "\"<=\"" => cmp(&ds, |o| o != Ordering::Greater),
                "\">\"" => cmp(&ds, |o| o == Ordering::Greater),
                _ => cmp(&ds, |o| o != Ordering::Less),
            };
        }
        if rs.iter().any(|r| matches!(r, Rv::Dec(_))) {
            // the spelling of a number-as-string result is not prescribed
            return Rv::Unknown;
        }
        let v: Vec<Option<V>> = rs.into_iter().map(|r| if let Rv::Val(v) = r { Some(v) } else { None }).collect();
        if matches!(name, "keys" | "values" | "entries" | "take" | "take_last" | "sub") {
            if let Some(Some(V::Obj(o))) = v.first() {
                if pairish(o) {
                    return Rv::Unknown;
                }
            }
        }
        let some = |x: V| Rv::Val(x);
        let boolean = |b: bool| Rv::Val(V::Bool(b));
        let arg = |i: usize| v.get(i).cloned().flatten();
        match name {
            "get" => match (arg(0), arg(1)) {
                (Some(V::Arr(l)), i) => match count(&i) {
                    Cnt::N(n) => l.get(n).cloned().map(Rv::Val).unwrap_or(Rv::Nothing),
                    Cnt::Nothing => Rv::Nothing,
                    Cnt::Unk => Rv::Unknown,
                },
                (Some(V::Obj(o)), Some(V::Str(k))) => o.iter().find(|(x, _)| *x == k).map(|(_, v)| Rv::Val(v.clone())).unwrap_or(Rv::Nothing),
                _ => Rv::Nothing,
            },
            "size" => match arg(0) {
                Some(V::Arr(l)) => some(V::Int(l.len() as i128)),
                Some(V::Obj(o)) => some(V::Int(o.len() as i128)),
                Some(V::Str(s)) => some(V::Int(s.chars().count() as i128)),
                _ => Rv::Nothing,
            },
            "take" | "take_last" => {
                let n = match count(&arg(1)) {
                    Cnt::N(n) => n,
                    Cnt::Nothing => return Rv::Nothing,
                    Cnt::Unk => return Rv::Unknown,
                };
                let first = name == "take";
                match arg(0) {
                    Some(V::Arr(l)) => {
                        let k = n.min(l.len());
                        some(V::Arr(if first { l[..k].to_vec() } else { l[l.len() - k..].to_vec() }))
                    }
                    Some(V::Obj(o)) => {
                        let k = n.min(o.len());
                        some(V::Obj(if first { o[..k].to_vec() } else { o[o.len() - k..].to_vec() }))
                    }
                    Some(V::Str(s)) => {
                        let cs: Vec<char> = s.chars().collect();
                        let k = n.min(cs.len());
                        some(V::Str(if first { cs[..k].iter().collect() } else { cs[cs.len() - k..].iter().collect() }))
                    }
                    _ => Rv::Nothing,
                }
            }
            "sub" => {
                let (st, len) = match (count(&arg(1)), count(&arg(2))) {
                    (Cnt::Nothing, _) | (_, Cnt::Nothing) => return Rv::Nothing,
                    (Cnt::Unk, _) | (_, Cnt::Unk) => return Rv::Unknown,
                    (Cnt::N(a), Cnt::N(b)) => (a, b),
                };
                match arg(0) {
                    Some(V::Arr(l)) => some(V::Arr(l.into_iter().skip(st).take(len).collect())),
                    Some(V::Obj(o)) => some(V::Obj(o.into_iter().skip(st).take(len).collect())),
                    Some(V::Str(s)) => some(V::Str(s.chars().skip(st).take(len).collect())),
                    _ => Rv::Nothing,
                }
            }
            "head" | "tail" => match (arg(0), count(&arg(1))) {
                (Some(V::Str(s)), Cnt::N(n)) => {
                    let cs: Vec<char> = s.chars().collect();
                    if name == "head" {
                        some(V::Str(cs.iter().take(n).collect()))
                    } else if n > cs.len() {
                        // (tail "test-123" 20) is documented as "test-123"
                        some(V::Str(s))
                    } else {
                        some(V::Str(cs.iter().skip(n).collect()))
                    }
                }
                (Some(V::Str(_)), Cnt::Unk) => Rv::Unknown,
                _ => Rv::Nothing,
            },
            "first" => match arg(0) {
                Some(V::Arr(l)) => l.first().cloned().map(Rv::Val).unwrap_or(Rv::Nothing),
                _ => Rv::Nothing,
            },
            "last" => match arg(0) {
                Some(V::Arr(l)) => l.last().cloned().map(Rv::Val).unwrap_or(Rv::Nothing),
                _ => Rv::Nothing,
            },
            "pop" => match arg(0) {
                Some(V::Arr(mut l)) => {
                    l.pop();
                    some(V::Arr(l))
                }
                _ => Rv::Nothing,
            },
            "pop_first" => match arg(0) {
                Some(V::Arr(l)) => some(V::Arr(l.into_iter().skip(1).collect())),
                _ => Rv::Nothing,
            },
            "reverese" => match arg(0) {
                Some(V::Arr(mut l)) => {
                    l.reverse();
                    some(V::Arr(l))
                }
                _ => Rv::Nothing,
            },
            "push" | "push_front" => match arg(0) {
                Some(V::Arr(mut l)) => {
                    for x in v.iter().skip(1).flatten() {
                        if name == "push" { l.push(x.clone()) } else { l.insert(0, x.clone()) }
                    }
                    some(V::Arr(l))
                }
                _ => Rv::Nothing,
            },
            "keys" => match arg(0) {
                Some(V::Obj(o)) => some(V::Arr(o.into_iter().map(|(k, _)| V::Str(k)).collect())),
                _ => Rv::Nothing,
            },
            "values" => match arg(0) {
                Some(V::Obj(o)) => some(V::Arr(o.into_iter().map(|(_, v)| v).collect())),
                _ => Rv::Nothing,
            },
            "entries" => match arg(0) {
                Some(V::Obj(o)) => some(V::Arr(o.into_iter().map(|(k, v)| V::Obj(vec![("key".into(), V::Str(k)), ("value".into(), v)])).collect())),
                _ => Rv::Nothing,
            },
            "indexed" => match arg(0) {
                Some(V::Arr(l)) => some(V::Arr(l.into_iter().enumerate().map(|(i, v)| V::Obj(vec![("value".into(), v), ("index".into(), V::Int(i as i128))])).collect())),
                _ => Rv::Nothing,
            },
            "not" => match arg(0) {
                Some(V::Bool(b)) => boolean(!b),
                _ => Rv::Nothing,
            },
            "xor" => match (arg(0), arg(1)) {
                (Some(V::Bool(a)), Some(V::Bool(b))) => boolean(a ^ b),
                _ => Rv::Nothing,
            },
            "and" | "or" => {
                // "nothing if there is a non boolean argument and false if there is a false argument":
                // a false (true for `or`) next to a non-boolean is left open
                let decisive = name == "or";
                let non_bool = v.iter().any(|x| !matches!(x, Some(V::Bool(_))));
                let has_decisive = v.iter().any(|x| *x == Some(V::Bool(decisive)));
                match (non_bool, has_decisive) {
                    (false, d) => boolean(if decisive { d } else { !d }),
                    (true, false) => Rv::Nothing,
                    (true, true) => Rv::Unknown,
                }
            }
            "=" | "!=" => match (arg(0), arg(1)) {
                (Some(a), Some(b)) => match eq_known(&a, &b) {
                    Some(e) => boolean(e == (name == "=")),
                    None => Rv::Unknown,
                },
                _ => Rv::Nothing,
            },
            "<" | "<=" | ">" | ">=" => match (arg(0), arg(1)) {
                (Some(a), Some(b)) => match ord_known(&a, &b) {
                    Some(o) => boolean(match name {
                        "<" => o == Ordering::Less,
                        "<=" => o != Ordering::Greater,
                        ">" => o == Ordering::Greater,
                        _ => o != Ordering::Less,
                    }),
                    None => Rv::Unknown,
                },
                _ => Rv::Nothing,
            },
            "empty?" => boolean(arg(0).is_none()),
            "null?" | "number?" | "string?" | "array?" | "object?" | "bool?" => match arg(0) {
                // what a type predicate says about nothing is not documented
                None => Rv::Unknown,
                Some(x) => boolean(match name {
                    "null?" => matches!(x, V::Null),
                    "number?" => matches!(x, V::Int(_) | V::Float(_)),
                    "string?" => matches!(x, V::Str(_)),
                    "array?" => matches!(x, V::Arr(_)),
                    "object?" => matches!(x, V::Obj(_)),
                    _ => matches!(x, V::Bool(_)),
                }),
            },
            "as_array" | "as_boolean" | "as_number" | "as_object" | "as_string" => match arg(0) {
                Some(x) => {
                    let ok = match name {
                        "as_array" => matches!(x, V::Arr(_)),
                        "as_boolean" => matches!(x, V::Bool(_)),
                        "as_number" => matches!(x, V::Int(_) | V::Float(_)),
                        "as_object" => matches!(x, V::Obj(_)),
                        _ => matches!(x, V::Str(_)),
                    };
                    if ok { some(x) } else { Rv::Nothing }
                }
                None => Rv::Nothing,
            },
            "concat" => {
                let mut s = String::new();
                for x in &v {
                    match x {
                        Some(V::Str(t)) => s.push_str(t),
                        _ => return Rv::Nothing,
                    }
                }
                some(V::Str(s))
            }
            "join" => {
                let sep = if args.len() < 2 {
                    ", ".to_string()
                } else {
                    match arg(1) {
                        Some(V::Str(s)) => s,
                        _ => return Rv::Unknown, // a separator that is not a string: not documented
                    }
                };
                match arg(0) {
                    Some(V::Arr(l)) => {
                        let mut parts = vec![];
                        for x in l {
                            match x {
                                V::Str(t) => parts.push(t),
                                _ => return Rv::Nothing,
                            }
                        }
                        some(V::Str(parts.join(&sep)))
                    }
                    _ => Rv::Nothing,
                }
            }
            "all" => match arg(0) {
                Some(V::Arr(l)) => boolean(!l.is_empty() && l.iter().all(|x| *x == V::Bool(true))),
                _ => Rv::Nothing,
            },
            "any" => match arg(0) {
                Some(V::Arr(l)) => boolean(l.iter().any(|x| *x == V::Bool(true))),
                _ => Rv::Nothing,
            },
            "range" => match count(&arg(0)) {
                Cnt::N(n) if (1..=1000).contains(&n) => some(V::Arr((0..n).map(|i| V::Int(i as i128)).collect())),
                Cnt::N(_) | Cnt::Unk => Rv::Unknown,
                Cnt::Nothing => Rv::Nothing,
            },
            "put" | "insert_if_absent" | "replace_if_exists" => match (arg(0), arg(1), arg(2)) {
                (Some(V::Obj(mut o)), Some(V::Str(k)), Some(x)) => {
                    let pos = o.iter().position(|(k2, _)| *k2 == k);
                    match (name, pos) {
                        ("put", Some(p)) | ("replace_if_exists", Some(p)) => o[p].1 = x,
                        ("put", None) | ("insert_if_absent", None) => o.push((k, x)),
                        _ => {}
                    }
                    some(V::Obj(o))
                }
                _ => Rv::Nothing,
            },
            "stringify" => match arg(0) {
                Some(V::Int(i)) => some(V::Str(i.to_string())),
                Some(V::Bool(b)) => some(V::Str(b.to_string())),
                Some(V::Null) => some(V::Str("null".into())),
                None => Rv::Nothing,
                _ => Rv::Unknown,
            },
            "sort" | "sort_unique" => match arg(0) {
                Some(V::Arr(mut l)) => {
                    // only when the documented order settles every pair
                    for i in 0..l.len() {
                        for j in i + 1..l.len() {
                            match ord_known(&l[i], &l[j]) {
                                None => return Rv::Unknown,
                                Some(Ordering::Equal) if !same(&l[i], &l[j]) => return Rv::Unknown,
                                _ => {}
                            }
                        }
                    }
                    l.sort_by(|a, b| ord_known(a, b).unwrap_or(Ordering::Equal));
                    if name == "sort_unique" {
                        l.dedup_by(|a, b| same(a, b));
                    }
                    some(V::Arr(l))
                }
                _ => Rv::Nothing,
            },
            _ => Rv::Unknown,
        }
    }
}

/// an `entries` / `indexed` item: the text names its two members, the example and the program order them differently
fn pairish(x: &[(String, V)]) -> bool {
    x.iter().any(|(k, _)| k == "value") && x.iter().any(|(k, _)| k == "key" || k == "index")
}

/// equality of a printed result with the prescribed one: element and member order count, integers are exact
pub fn same(a: &V, b: &V) -> bool {
    match (a, b) {
        (V::Int(x), V::Int(y)) => x == y,
        (V::Float(x), V::Float(y)) => x == y,
        (V::Arr(x), V::Arr(y)) => x.len() == y.len() && x.iter().zip(y).all(|(p, q)| same(p, q)),
        (V::Obj(x), V::Obj(y)) => {
            if x.len() != y.len() {
                return false;
            }
            // the two members of an `entries` / `indexed` item: the text names them, the example and
            // the program order them differently
            if pairish(x) {
                return x.iter().all(|(k, p)| y.iter().any(|(k2, q)| k == k2 && same(p, q)));
            }
            x.iter().zip(y).all(|((k, p), (k2, q))| k == k2 && same(p, q))
        }
        _ => a == b,
    }
}

/// the values of a clean white-space separated stream
fn parse_stream(bytes: &[u8]) -> Option<Vec<V>> {
    let mut p = Strict::new(bytes);
    let mut out = vec![];
    while !p.at_end() {
        out.push(p.value().ok()?);
    }
    Some(out)
}

fn stdin_bytes(c: &Case) -> &[u8] {
    c.sources.iter().find(|s| s.name.is_none()).map(|s| s.bytes.as_slice()).unwrap_or(&[])
}

fn plain_select_run(c: &Case) -> bool {
    let s = &c.spec;
    s.filter.is_none() && s.split.is_none() && s.group.is_none() && s.sorts.is_empty() && s.skip == 0 && s.take.is_none() && !s.unique && !s.ooa
        && s.sets.is_empty() && s.style.is_none() && s.jstyle.is_none() && s.rowsep.is_none() && !s.selects.is_empty()
        && c.sources.len() == 1 && c.sources[0].name.is_none()
}

/// compare every selection of a select-only JSON run with the reference evaluator.
/// Ok((known, total)) = number of (record, selection) pairs that were settled and agreed.
fn check_selects(c: &Case, o: &Obs) -> Result<(usize, usize), String> {
    if !plain_select_run(c) {
        return Ok((0, 0));
    }
    let Some(records) = parse_stream(stdin_bytes(c)) else { return Ok((0, 0)) };
    let sels: Vec<Option<(Ast, String)>> = c.spec.selects.iter().map(|s| parse_selection(s)).collect();
    let names: Vec<&String> = sels.iter().flatten().map(|(_, n)| n).collect();
    for (i, n) in names.iter().enumerate() {
        if names[..i].contains(n) {
            return Ok((0, 0));
        }
    }
    let total = records.len() * c.spec.selects.len();
    if sels.iter().all(|s| s.is_none()) {
        return Ok((0, total));
    }
    let rows = crate::props::parse_rows(&o.out, "\n").map_err(|e| format!("{}: {e}", c.id))?;
    if rows.len() != records.len() {
        return Err(format!("{}: {} input values but {} rows", c.id, records.len(), rows.len()));
    }
    let lines: Vec<&[u8]> = o.out.split(|b| *b == b'\n').collect();
    let mut known = 0;
    for (ri, (rec, row)) in records.iter().zip(&rows).enumerate() {
        let V::Obj(members) = row else { return Err(format!("{}: row {ri} is not an object: {}", c.id, show(row))) };
        for (si, sel) in sels.iter().enumerate() {
            let Some((ast, name)) = sel else { continue };
            let want = Eval::new().eval(ast, rec, &[]);
            let got = members.iter().find(|(k, _)| k == name).map(|(_, v)| v);
            let what = || format!("{}: `{}` on {}", c.id, c.spec.selects[si], show(rec));
            match (&want, got) {
                (Rv::Unknown, _) => continue,
                (Rv::Nothing, None) => {}
                (Rv::Nothing, Some(g)) => return Err(format!("{} must be nothing, got {}", what(), show(g))),
                (Rv::Val(w), None) => return Err(format!("{} must be {}, got nothing", what(), show(w))),
                (Rv::Val(w), Some(g)) => {
                    if !same(w, g) {
                        return Err(format!("{} must be {}, got {}", what(), show(w), show(g)));
                    }
                    // a numeric result with zero fractional part is printed as an integer
                    if let (V::Int(i), 1) = (w, members.len()) {
                        let line: String = String::from_utf8_lossy(lines.get(ri).copied().unwrap_or(&[])).chars().filter(|ch| *ch != ' ').collect();
                        let mut key = String::new();
                        value::escape_canonical(name, &mut key);
                        if name.is_ascii() && line != format!("{{{key}:{i}}}") {
                            return Err(format!("{} must be printed as the integer {i}, row is {}", what(), String::from_utf8_lossy(lines[ri])));
                        }
                    }
                }
                (Rv::Dec(_), None) => return Err(format!("{} must be a number as string, got nothing", what())),
                (Rv::Dec(w), Some(g)) => {
                    let gd = if let V::Str(s) = g { Dec::parse(s) } else { None };
                    match gd {
                        Some(d) if d == *w => {}
                        _ => return Err(format!("{} must be the decimal {}, got {}", what(), w.show(), show(g))),
                    }
                }
            }
            known += 1;
        }
    }
    Ok((known, total))
}

// =================================================================================== C04

fn c04(g: &Group, obs: &[Obs]) -> Option<String> {
    for (c, o) in g.cases.iter().zip(obs) {
        match o.res.as_str() {
            "ok" => match check_selects(c, o) {
                Err(e) => return Some(e),
                Ok((k, n)) => {
                    if std::env::var("ORB_STATS").is_ok() {
                        eprintln!("ORBSTAT C04 {} known {k} of {n} {}", if g.labels.iter().any(|l| l == "kind:reference") { "ref" } else { "gen" }, c.spec.selects[0]);
                    }
                }
            },
            // rejected before reading: whether the text is an expression at all is C18's business
            "err:config" | "err:clap" => {}
            "hang" => return Some(format!("{}: evaluating `{}` did not finish within 20 s", c.id, c.spec.selects.join(" ; "))),
            other => {
                // an expression that parsed must evaluate to a value or to nothing, never fail
                let all_parse = c.spec.selects.iter().all(|s| parse_selection(s).is_some());
                if all_parse && plain_select_run(c) && parse_stream(stdin_bytes(c)).is_some() {
                    return Some(format!("{}: evaluating `{}` ended with {other}", c.id, c.spec.selects.join(" ; ")));
                }
            }
        }
    }
    None
}

/// C04 generator: 60 % the type-directed generator over the whole function table, 40 % expressions
/// over exactly the functions the reference evaluator covers, with boundary arguments
/// every comparison of two small number literals around zero, of either sign, integer or with a fraction, at top level and
/// inside a list: the six comparison functions against the reference (equality of numbers is equality of their values)
fn gen_c04_cmp_grid(r: &mut Rng, id: usize) -> Group {
    let lits = ["0", "-0", "0.0", "1", "-1", "-5", "5", "2", "-2", "0.5", "-0.5", "1.0", "-1.0", "100", "-100", "1e2", "-3"];
    let a = r.ps(&lits);
    let b = r.ps(&lits);
    let (x, y) = if r.chance(25) { (format!("[{a}]"), format!("[{b}]")) } else { (a.to_string(), b.to_string()) };
    let mut c = Case { id: format!("C04-{id}-cmp"), mode: "run".into(), ..Default::default() };
    for (i, f) in ["=", "!=", "<", "<=", ">", ">="].iter().enumerate() {
        c.spec.selects.push(format!("({f} {x} {y})=c{i}"));
    }
    c.spec.utf8 = true;
    c.sources.push(stdin_src(b"null".to_vec()));
    let mut g = Group::new(vec![c]);
    g.values = vec![V::Null];
    g.tag = format!("cmp {x} {y}");
    g.labels.push("kind:comparison-grid".into());
    g
}

pub fn gen_c04(r: &mut Rng, id: usize) -> Group {
    if r.chance(4) {
        return gen_c04_cmp_grid(r, id);
    }
    if r.chance(60) {
        let d = r.range(1, 5);
        return safe_expr_case(r, id, "C04", &crate::exprgen::ExprOpts::default(), d);
    }
    gen_c04_ref(r, id)
}

/// `range` applied to anything but a literal <= 1000 can ask for 2^64 items (RESOURCE RULE): such
/// expressions are outside the bounded domain of C04/C05 and are drawn again
pub fn risky_range(e: &str) -> bool {
    let b = e.as_bytes();
    let mut i = 0;
    while let Some(p) = e[i..].find("range") {
        let mut j = i + p + 5;
        i = j;
        while j < b.len() && (b[j] == b' ' || b[j] == b',') {
            j += 1;
        }
        let st = j;
        while j < b.len() && b[j].is_ascii_digit() {
            j += 1;
        }
        let lit_end = j >= b.len() || b[j] == b' ' || b[j] == b',' || b[j] == b')';
        if st == j || !lit_end || j - st > 4 || e[st..j].parse::<usize>().map(|n| n > 1000).unwrap_or(true) {
            return true;
        }
    }
    false
}

pub fn safe_expr_case(r: &mut Rng, id: usize, prop: &str, eo: &crate::exprgen::ExprOpts, depth: usize) -> Group {
    loop {
        let g = crate::gens::gen_expr_case(r, id, prop, eo, depth);
        if !risky_range(&g.tag) {
            return g;
        }
    }
}

fn ref_pool(r: &mut Rng) -> V {
    match r.below(16) {
        0 => V::Int(0),
        1 => V::Int(1),
        2 => V::Int(-3),
        3 => V::Int((1 << 53) + 1),
        4 => V::Int((1i128 << 64) - 1),
        5 => V::Str("".into()),
        6 => V::Str("a".into()),
        7 => V::Str("é".into()),
        8 => V::Str("日本".into()),
        9 => V::Bool(true),
        10 => V::Bool(false),
        11 => V::Null,
        12 => V::Arr(vec![V::Int(1), V::Int(2)]),
        13 => V::Obj(vec![("a".into(), V::Int(1))]),
        14 => V::Float(2.5),
        _ => V::Int(r.below(5) as i128),
    }
}

fn ref_record(r: &mut Rng) -> V {
    if r.chance(12) {
        return ref_pool(r);
    }
    let mut kvs: Vec<(String, V)> = vec![];
    let n = *r.pick(&[0usize, 1, 1, 2, 3, 4, 5]);
    kvs.push(("l".into(), V::Arr((0..n).map(|_| ref_pool(r)).collect())));
    let n = *r.pick(&[0usize, 1, 2, 3, 4]);
    let mut o: Vec<(String, V)> = vec![];
    for k in ["a", "é", "b", "key-1"].iter().take(n) {
        o.push((k.to_string(), ref_pool(r)));
    }
    kvs.push(("o".into(), V::Obj(o)));
    kvs.push(("s".into(), V::Str(r.ps(&["", "a", "abc", "héllo", "日本語", "aé😃b", "x,y z", "ÿ"]).to_string())));
    if r.chance(85) {
        kvs.push(("e".into(), V::Arr(vec![])));
        kvs.push(("eo".into(), V::Obj(vec![])));
        kvs.push(("es".into(), V::Str(String::new())));
    }
    kvs.push(("n".into(), V::Null));
    kvs.push(("t".into(), V::Bool(true)));
    kvs.push(("f".into(), V::Bool(false)));
    kvs.push(("i".into(), V::Int(r.below(4) as i128)));
    kvs.push(("big".into(), V::Int((1i128 << 64) - 1)));
    kvs.push(("neg".into(), V::Int(-3)));
    kvs.push(("fl".into(), V::Float(2.5)));
    kvs.push(("ss".into(), V::Arr((0..r.below(4)).map(|_| V::Str(r.ps(&["a", "é", "x y", "日", ""]).to_string())).collect())));
    V::Obj(kvs)
}

struct RefGen<'a> {
    r: &'a mut Rng,
    rec0: V,
    used: Vec<String>,
}

const WRONG: &[&str] = &["12", "-1", "2.5", "\"x\"", "true", "null", ".zz", ".n", ".i", ".fl", "[1]", "{}", ".l#9", ".o.zz"];

impl<'a> RefGen<'a> {
    fn call(&mut self, f: &str, args: Vec<String>) -> String {
        self.used.push(f.to_string());
        let mut name = f.to_string();
        if self.r.chance(25) {
            if let Some((_, aliases, _, _)) = FUNCTION_TABLE.iter().find(|(n, _, _, _)| *n == f) {
                if !aliases.is_empty() {
                    name = self.r.pick(aliases).to_string();
                }
            }
        }
        let mut s = String::from("(");
        let mut rest: &[String] = &args;
        if !args.is_empty() && args[0] == "." && self.r.chance(40) {
            s.push('.');
            rest = &args[1..];
        }
        s.push_str(&name);
        for a in rest {
            s.push_str(match self.r.below(8) {
                0 => ", ",
                1 => "  ",
                2 => " , ",
                _ => " ",
            });
            s.push_str(a);
        }
        s.push(')');
        s
    }

    fn size_of(&self, e: &str) -> Option<usize> {
        let a = parse_expr(e)?;
        match Eval::new().eval(&a, &self.rec0, &[]) {
            Rv::Val(V::Arr(l)) => Some(l.len()),
            Rv::Val(V::Obj(o)) => Some(o.len()),
            Rv::Val(V::Str(s)) => Some(s.chars().count()),
            _ => None,
        }
    }

    /// N relative to the size of the collection on the first record: 0, 1, size-1, size, size+1, huge; or ill-typed / absent
    fn n_for(&mut self, coll: &str) -> String {
        if self.r.chance(25) {
            return self.r.pick(WRONG).to_string();
        }
        let size = self.size_of(coll).unwrap_or_else(|| self.r.below(4));
        match self.r.below(9) {
            0 => "0".into(),
            1 => "1".into(),
            2 => size.saturating_sub(1).to_string(),
            3 | 4 => size.to_string(),
            5 => (size + 1).to_string(),
            6 => "18446744073709551615".into(),
            7 => self.r.ps(&["9007199254740993", "1000000", "4294967296", "9223372036854775808"]).to_string(),
            _ => self.r.ps(&["2", "3", ".i", "(size .l)", "(size .s)"]).to_string(),
        }
    }

    fn wrong(&mut self) -> String {
        self.r.pick(WRONG).to_string()
    }

    fn list(&mut self, d: usize) -> String {
        if self.r.chance(8) {
            return self.wrong();
        }
        if d == 0 || self.r.chance(25) {
            return self.r.ps(&[".l", ".l", ".e", ".ss", "[1, 2, 3]", "[]", "[\"a\", \"é\", null]", "[[1], [2, 3], []]", "[true, false, true]", "[true]", "(keys .o)", "(values .o)", ".l#3", "."]).to_string();
        }
        let d = d - 1;
        match self.r.below(19) {
            0 | 1 => { let l = self.list(d); let n = self.n_for(&l); self.call("take", vec![l, n]) }
            2 | 3 => { let l = self.list(d); let n = self.n_for(&l); self.call("take_last", vec![l, n]) }
            4 | 5 => { let l = self.list(d); let n = self.n_for(&l); let m = self.n_for(&l); self.call("sub", vec![l, n, m]) }
            6 => { let l = self.list(d); self.call("reverese", vec![l]) }
            7 => { let l = self.list(d); let f = self.r.ps(&["pop", "pop_first"]); self.call(f, vec![l]) }
            8 => { let l = self.list(d); let k = self.r.range(1, 3); let mut v = vec![l]; for _ in 0..k { v.push(self.any(d)); } let f = self.r.ps(&["push", "push_front"]); self.call(f, v) }
            9 => { let l = self.list(d); let b = self.body(d); self.call("map", vec![l, b]) }
            10 => { let l = self.list(d); let b = self.bool_body(d); self.call("filter", vec![l, b]) }
            11 => { let a = self.list(d); let b = self.list(0); self.call("default", vec![a, b]) }
            12 => { let c = self.boolean(d); let a = self.list(d); let b = self.list(d); self.call("?", vec![c, a, b]) }
            13 => { let o = self.obj(d); let f = self.r.ps(&["keys", "values", "entries"]); self.call(f, vec![o]) }
            14 => { let l = self.list(d); self.call("indexed", vec![l]) }
            15 => { let n = self.r.ps(&["1", "2", "5", "-1", "\"2\"", ".i", "(size .l)"]).to_string(); self.call("range", vec![n]) }
            16 => { let l = self.list(d); self.call("as_array", vec![l]) }
            17 => { let l = self.list(d); let f = self.r.ps(&["sort", "sort_unique"]); self.call(f, vec![l]) }
            _ => { let l = self.list(d); let i = self.n_for(&l); self.call("get", vec![l, i]) }
        }
    }

    fn body(&mut self, d: usize) -> String {
        match self.r.below(8) {
            0 => ".".into(),
            1 => "(size .)".into(),
            2 => "^.i".into(),
            3 => "(take . 1)".into(),
            4 => "(push ^.e . ^.i)".into(),
            5 => "(get ^.l .)".into(),
            6 => "(? (number? .) . ^.s)".into(),
            _ => self.any(d.min(1)),
        }
    }

    fn bool_body(&mut self, d: usize) -> String {
        match self.r.below(7) {
            0 => "(number? .)".into(),
            1 => "(string? .)".into(),
            2 => "(= . ^.i)".into(),
            3 => "(< . 2)".into(),
            4 => "(not (null? .))".into(),
            5 => ".".into(),
            _ => self.boolean(d.min(1)),
        }
    }

    fn obj(&mut self, d: usize) -> String {
        if self.r.chance(8) {
            return self.wrong();
        }
        if d == 0 || self.r.chance(30) {
            return self.r.ps(&[".o", ".o", ".eo", ".", "{\"a\": 1, \"b\": [2], \"c\": \"x\"}", "{}", "{\"é\": null}", "{\"k\": {\"k\": 1}, \"a\": 2}"]).to_string();
        }
        let d = d - 1;
        match self.r.below(9) {
            0 | 1 => { let o = self.obj(d); let n = self.n_for(&o); let f = self.r.ps(&["take", "take_last"]); self.call(f, vec![o, n]) }
            2 => { let o = self.obj(d); let n = self.n_for(&o); let m = self.n_for(&o); self.call("sub", vec![o, n, m]) }
            3 | 4 => {
                let o = self.obj(d);
                let k = if self.r.chance(85) { self.r.ps(&["\"a\"", "\"é\"", "\"new\"", "\"\"", ".s", "(first (keys .o))"]).to_string() } else { self.wrong() };
                let v = self.any(d);
                let f = self.r.ps(&["put", "insert_if_absent", "replace_if_exists"]);
                self.call(f, vec![o, k, v])
            }
            5 => { let a = self.obj(d); let b = self.obj(0); self.call("default", vec![a, b]) }
            6 => { let o = self.obj(d); self.call("as_object", vec![o]) }
            7 => { let c = self.boolean(d); let a = self.obj(d); let b = self.obj(d); self.call("?", vec![c, a, b]) }
            _ => { let l = self.r.ps(&["(entries .o)", "(indexed .l)", "[{\"a\": 1}, {}]"]).to_string(); let i = self.n_for(&l); self.call("get", vec![l, i]) }
        }
    }

    fn strg(&mut self, d: usize) -> String {
        if self.r.chance(8) {
            return self.wrong();
        }
        if d == 0 || self.r.chance(30) {
            return self.r.ps(&[".s", ".s", ".es", "\"héllo\"", "\"\"", "\"abc\"", "\"日本語\"", "\"a😃\"", ".ss#0"]).to_string();
        }
        let d = d - 1;
        match self.r.below(10) {
            0 | 1 => { let s = self.strg(d); let n = self.n_for(&s); let f = self.r.ps(&["take", "take_last", "head", "tail"]); self.call(f, vec![s, n]) }
            2 => { let s = self.strg(d); let n = self.n_for(&s); let m = self.n_for(&s); self.call("sub", vec![s, n, m]) }
            3 => { let k = self.r.range(2, 3); let v: Vec<String> = (0..k).map(|_| self.strg(d)).collect(); self.call("concat", v) }
            4 | 5 => {
                let l = if self.r.chance(70) { self.r.ps(&[".ss", "(keys .o)", "[\"a\", \"b\", \"c\"]", "[\"x\"]", "[]", "[\"a\", 1]", "(take .ss 1)"]).to_string() } else { self.list(d) };
                if self.r.chance(50) { self.call("join", vec![l]) } else { let s = self.r.ps(&["\"\"", "\" ; \"", "\"é\"", ".s", "12"]).to_string(); self.call("join", vec![l, s]) }
            }
            6 => { let a = self.strg(d); let b = self.strg(0); self.call("default", vec![a, b]) }
            7 => { let s = self.strg(d); self.call("as_string", vec![s]) }
            8 => { let x = self.r.ps(&[".i", ".big", ".neg", ".t", ".n", "(size .l)", ".zz"]).to_string(); self.call("stringify", vec![x]) }
            _ => { let o = self.obj(d); let k = self.call("keys", vec![o]); let f = self.r.ps(&["first", "last"]); self.call(f, vec![k]) }
        }
    }

    fn boolean(&mut self, d: usize) -> String {
        if self.r.chance(10) {
            return self.wrong();
        }
        if d == 0 || self.r.chance(25) {
            return self.r.ps(&["true", "false", ".t", ".f"]).to_string();
        }
        let d = d - 1;
        match self.r.below(10) {
            0 | 1 | 2 => {
                let a = self.any(d);
                let b = if self.r.chance(35) { a.clone() } else { self.any(d) };
                let f = self.r.ps(&["=", "!=", "<", "<=", ">", ">="]);
                self.call(f, vec![a, b])
            }
            3 | 4 => { let k = self.r.range(2, 4); let v: Vec<String> = (0..k).map(|_| self.boolean(d)).collect(); let f = self.r.ps(&["and", "or"]); self.call(f, v) }
            5 => { let a = self.boolean(d); self.call("not", vec![a]) }
            6 => { let a = self.boolean(d); let b = self.boolean(d); self.call("xor", vec![a, b]) }
            7 => { let a = self.any(d); let f = self.r.ps(&["array?", "bool?", "empty?", "null?", "number?", "object?", "string?"]); self.call(f, vec![a]) }
            8 => { let l = if self.r.chance(60) { self.r.ps(&["[true, true]", "[true, false]", "[]", "[1, true]", "(map .l (number? .))"]).to_string() } else { self.list(d) }; let f = self.r.ps(&["all", "any"]); self.call(f, vec![l]) }
            _ => { let c = self.boolean(d); let a = self.boolean(d); let b = self.boolean(d); self.call("?", vec![c, a, b]) }
        }
    }

    fn any(&mut self, d: usize) -> String {
        match self.r.below(12) {
            0 | 1 => self.list(d),
            2 => self.obj(d),
            3 | 4 => self.strg(d),
            5 => self.boolean(d),
            6 => { let c = match self.r.below(3) { 0 => self.list(d), 1 => self.obj(d), _ => self.strg(d) }; self.call("size", vec![c]) }
            7 => { let l = self.list(d); let f = self.r.ps(&["first", "last"]); self.call(f, vec![l]) }
            8 => { let o = self.obj(d); let k = self.r.ps(&["\"a\"", "\"é\"", "\"zz\"", "0", ".s"]).to_string(); self.call("get", vec![o, k]) }
            9 => self.r.ps(&["0", "1", "-3", "2.5", "18446744073709551615", "9007199254740993", "null", "\"a\"", ".i", ".big", ".neg", ".fl", ".n"]).to_string(),
            10 => { let x = self.any(d.saturating_sub(1)); let f = self.r.ps(&["as_number", "as_boolean", "as_string", "as_array", "as_object"]); self.call(f, vec![x]) }
            _ => { let k = self.r.range(1, 3); let v: Vec<String> = (0..k).map(|_| self.any(d.saturating_sub(1))).collect(); self.call("default", v) }
        }
    }
}

pub fn gen_c04_ref(r: &mut Rng, id: usize) -> Group {
    let n = r.range(1, 3);
    let recs: Vec<V> = (0..n).map(|_| ref_record(r)).collect();
    let depth = r.range(1, 3);
    let (e, used) = {
        let mut g = RefGen { r, rec0: recs[0].clone(), used: vec![] };
        let e = match g.r.below(5) {
            0 => g.list(depth),
            1 => g.obj(depth),
            2 => g.strg(depth),
            3 => g.boolean(depth),
            _ => g.any(depth),
        };
        (e, g.used)
    };
    let mut c = Case { id: format!("C04-{id}"), mode: "run".into(), ..Default::default() };
    c.spec.selects.push(format!("{e}=x"));
    c.spec.utf8 = true;
    let text: Vec<String> = recs.iter().map(value::render).collect();
    c.sources.push(stdin_src(text.join("\n").into_bytes()));
    let mut g = Group::new(vec![c]);
    g.values = recs;
    g.tag = e.clone();
    g.nontrivial = e.matches('(').count() >= 2;
    g.labels.push("kind:reference".into());
    for f in used {
        g.labels.push(format!("fn:{f}"));
    }
    g
}

// =================================================================================== C05

fn c05(g: &Group, obs: &[Obs]) -> Option<String> {
    for (c, o) in g.cases.iter().zip(obs) {
        let res = o.res.replace("+overrun", "");
        if !(res == "ok" || res.starts_with("err:")) {
            return Some(format!("{}: the run ended with `{}` instead of success or an error {}", c.id, o.res, o.panic_msg));
        }
        // well-formed input text gives well-formed output text
        let input_utf8 = c.sources.iter().all(|s| std::str::from_utf8(&s.bytes).is_ok());
        if input_utf8 {
            if let Err(e) = std::str::from_utf8(&o.out) {
                return Some(format!("{}: the input is valid UTF-8 but standard output is not (byte {})", c.id, e.valid_up_to()));
            }
            if let Err(e) = std::str::from_utf8(&o.err) {
                return Some(format!("{}: the input is valid UTF-8 but standard error is not (byte {})", c.id, e.valid_up_to()));
            }
        }
    }
    None
}

fn c05_case(id: usize) -> Case {
    Case { id: format!("C05-{id}"), mode: "run".into(), ..Default::default() }
}

const POLICIES: &[&str] = &["ignore", "panic", "stderr", "stdout"];

/// integers at the edges of every integer type jawk converts through
pub const EDGE_INTS: &[&str] = &["0", "1", "9007199254740992", "9223372036854775808", "18446744073709551615", "-1", "-9223372036854775808"];

fn json_lit(s: &str) -> String {
    let mut t = String::new();
    value::escape_canonical(s, &mut t);
    t
}

/// the additional C05 generators: (a) byte soup over the JSON-significant alphabet, (b) deep nesting,
/// (c) multi-byte characters across byte 30..34 of every kind of expression text, (d) every function
/// of the table called with edge integers and ill-typed arguments
pub fn gen_c05_extra(r: &mut Rng, id: usize) -> Group {
    match r.below(10) {
        0 | 1 | 2 => gen_c05_bytes(r, id),
        3 | 4 => gen_c05_deep(r, id),
        5 | 6 => gen_c05_straddle(r, id),
        _ => gen_c05_calls(r, id),
    }
}

fn gen_c05_bytes(r: &mut Rng, id: usize) -> Group {
    let mut alphabet: Vec<u8> = b"{}[]:,\"\\/u019-+.eEtrnfals \n".to_vec();
    alphabet.extend_from_slice(&[0x80, 0xc3, 0xa9, 0xe6, 0x97, 0xa5, 0xf0, 0x9f, 0x98, 0x83, 0xff, 0xc0, 0xed, 0xa0]);
    let bytes: Vec<u8> = if r.chance(60) {
        let n = r.below(41);
        (0..n).map(|_| *r.pick(&alphabet)).collect()
    } else {
        // a conforming text with a few byte-level accidents: reaches the deep states of the reader
        let o = value::GenOpts::default();
        let mut b = value::render(&value::gen_value(r, &o, 0)).into_bytes();
        b.truncate(40);
        for _ in 0..r.range(1, 3) {
            if b.is_empty() {
                break;
            }
            let p = r.below(b.len());
            match r.below(4) {
                0 => b[p] = *r.pick(&alphabet),
                1 => {
                    b.remove(p);
                }
                2 => b.insert(p, *r.pick(&alphabet)),
                _ => b.truncate(p),
            }
        }
        b
    };
    let mut c = c05_case(id);
    c.spec.on_error = Some(r.pick(POLICIES).to_string());
    match r.below(6) {
        0 => c.spec.selects.push("(size .)=x".into()),
        1 => c.spec.ooa = true,
        2 => c.spec.sorts.push(".".into()),
        _ => {}
    }
    if r.chance(15) {
        c.chunks = vec![1];
    }
    let len = bytes.len();
    c.sources.push(stdin_src(bytes));
    let mut g = Group::new(vec![c]);
    g.labels.push("kind:bytes40".into());
    g.labels.push(format!("len:{}", crate::gens::bucket(len)));
    g
}

fn gen_c05_deep(r: &mut Rng, id: usize) -> Group {
    let depth = *r.pick(&[1usize, 2, 8, 16, 31, 32, 33, 34, 48, 63, 64, 65]);
    let mut open = String::new();
    let mut close = String::new();
    for _ in 0..depth {
        if r.chance(50) {
            open.push('[');
            close.insert(0, ']');
        } else {
            open.push_str("{\"k\":");
            close.insert(0, '}');
        }
    }
    let core = r.ps(&["1", "\"é\"", "null", "[]", "{}", ""]);
    let mut text = format!("{open}{core}{close}");
    match r.below(5) {
        0 => {
            let cut = r.below(text.len() + 1);
            let mut b = text.into_bytes();
            b.truncate(cut);
            text = String::from_utf8_lossy(&b).into_owned();
        }
        1 => text.push_str(&"]}".repeat(r.range(1, 3))),
        _ => {}
    }
    let mut c = c05_case(id);
    c.spec.on_error = Some(r.pick(POLICIES).to_string());
    let kind;
    match r.below(5) {
        0 => {
            // nested data
            kind = "data";
            if r.chance(40) {
                c.spec.selects.push(r.ps(&["(size .)=x", "(stringify .)=x", ".k.k.k=x", "#0#0#0=x", "(= . .)=x", "(sort (push [] . .))=x"]).to_string());
            }
            c.sources.push(stdin_src(text.into_bytes()));
        }
        1 => {
            // the same text as a literal inside an expression
            kind = "literal";
            c.spec.selects.push(format!("(size {text})=x"));
            c.sources.push(stdin_src(b"1".to_vec()));
        }
        2 => {
            kind = "parse";
            c.spec.selects.push(format!("(parse {})=x", json_lit(&text)));
            c.spec.utf8 = true;
            c.sources.push(stdin_src(b"1".to_vec()));
        }
        3 => {
            // nested calls
            kind = "calls";
            let (f, leaf) = *r.pick(&[("not", "true"), ("size", ".l"), ("first", ".l"), ("reverese", ".l"), ("keys", "."), ("\"-\"", "\"1.5\""), ("-", "1"), ("as_array", ".l"), ("parse", "\"[1]\"")]);
            let mut e = leaf.to_string();
            for _ in 0..depth {
                e = format!("({f} {e})");
            }
            c.spec.selects.push(format!("{e}=x"));
            c.sources.push(stdin_src(b"{\"l\":[[[[1]]]],\"k\":{\"k\":1}}".to_vec()));
        }
        _ => {
            kind = "parse_selection";
            let mut e = ".".to_string();
            for _ in 0..depth.min(40) {
                e = format!("(push [] {e})");
            }
            c.spec.selects.push(format!("(parse_selection {})=x", json_lit(&e)));
            c.sources.push(stdin_src(b"1 [2]".to_vec()));
        }
    }
    // every printer has to get down there and back: the three JSON styles, text and csv cells
    match r.below(8) {
        0 | 1 | 2 => c.spec.jstyle = Some("pretty".into()),
        3 => c.spec.jstyle = Some("consise".into()),
        4 => {
            c.spec.style = Some("text".into());
            if c.spec.selects.is_empty() { c.spec.selects.push(".=x".into()); }
        }
        5 => {
            c.spec.style = Some("csv".into());
            if c.spec.selects.is_empty() { c.spec.selects.push(".=x".into()); }
        }
        _ => {}
    }
    let mut g = Group::new(vec![c]);
    g.labels.push(format!("kind:deep:{kind}"));
    g.labels.push(format!("depth:{}", crate::gens::bucket(depth)));
    g
}

fn gen_c05_straddle(r: &mut Rng, id: usize) -> Group {
    // a multi-byte character starting at byte 29..34 of the text handed to a reader
    let ch = r.ps(&["é", "日", "😃", "ÿ", "\u{7ff}", "\u{800}"]);
    let at = r.range(29, 34);
    let tail = "b".repeat(r.below(4));
    let mut c = c05_case(id);
    c.spec.utf8 = r.chance(70);
    let pos = r.below(9);
    // text = prefix + pad + ch + tail + suffix with the character at byte offset `at` of the text
    let build = |prefix: &str, suffix: &str| -> String {
        let pad = at.saturating_sub(prefix.len());
        format!("{prefix}{}{ch}{tail}{suffix}", "a".repeat(pad))
    };
    let kind;
    match pos {
        0 => {
            kind = "select";
            c.spec.selects.push(build("(size \"", "\")=x"));
        }
        1 => {
            kind = "select-key";
            c.spec.selects.push(build(".", "=x"));
        }
        2 => {
            kind = "filter";
            c.spec.filter = Some(build("(string? \"", "\")"));
        }
        3 => {
            kind = "sort";
            c.spec.sorts.push(build("(concat \"", "\" .s)"));
        }
        4 => {
            kind = "group";
            c.spec.group = Some(Some(build("(concat \"", "\" .s)")));
        }
        5 => {
            kind = "set";
            c.spec.sets.push(build("v=\"", "\""));
            c.spec.selects.push(":v=x".into());
        }
        6 => {
            kind = "parse";
            let inner = match r.below(3) {
                0 => build("\"", "\""),
                1 => build("[\"", "\", 1]"),
                _ => build("{\"", "\": 1}"),
            };
            c.spec.selects.push(format!("(parse {})=x", json_lit(&inner)));
        }
        7 => {
            kind = "parse_selection";
            let inner = build("(concat \"", "\" \"x\")");
            c.spec.selects.push(format!("(parse_selection {})=x", json_lit(&inner)));
        }
        _ => {
            kind = "name";
            c.spec.selects.push(format!(".s={}", build("", "")));
            if r.chance(50) {
                c.spec.style = Some("csv".into());
                c.spec.utf8 = false;
            }
        }
    }
    c.sources.push(stdin_src("{\"s\":\"é\"}\n{\"s\":\"a\"}".as_bytes().to_vec()));
    let mut g = Group::new(vec![c]);
    g.labels.push(format!("kind:straddle:{kind}"));
    g
}

const ORACLE_FNS: &[&str] = &["match", "extract_regex_group", "base63_decode", "format_time", "parse_time", "parse_time_with_zone", "\"/\""];

/// jawk's one-line ASCII display of a literal argument (the key under which the model looks a fact up)
fn display_of_literal(a: &str) -> String {
    match value::strict_parse(a.as_bytes()) {
        Ok(V::Str(s)) => {
            let mut out = String::from("\"");
            for ch in s.chars() {
                match ch {
                    '"' => out.push_str("\\\""),
                    '\\' => out.push_str("\\\\"),
                    '/' => out.push_str("\\/"),
                    '\n' => out.push_str("\\n"),
                    '\r' => out.push_str("\\r"),
                    '\t' => out.push_str("\\t"),
                    c if (' '..='~').contains(&c) => out.push(c),
                    c => out.push_str(&format!("\\u{:04x}", c as u32)),
                }
            }
            out.push('"');
            out
        }
        _ => a.to_string(),
    }
}

fn gen_c05_calls(r: &mut Rng, id: usize) -> Group {
    // exec / trigger start processes, now / env read the environment: outside the pure functions
    let table: Vec<&(&str, &[&str], usize, Option<usize>)> = FUNCTION_TABLE.iter().filter(|(n, _, _, _)| !matches!(*n, "exec" | "trigger" | "now" | "env")).collect();
    let (name, aliases, lo, hi) = **r.pick(&table);
    let spelled = if !aliases.is_empty() && r.chance(25) { r.pick(aliases).to_string() } else { name.to_string() };
    let n_args = match hi {
        Some(h) => r.range(lo, h),
        None => r.range(lo, lo + 2),
    };
    // producers never get a huge count (resource exhaustion is outside the property)
    let producer = matches!(name, "range");
    let args: Vec<String> = (0..n_args)
        .map(|_| {
            if producer {
                r.ps(&["0", "1", "5", "1000", "-1", "2.5", "\"3\"", "[1]", "null", ".zz"]).to_string()
            } else if r.chance(55) {
                r.pick(EDGE_INTS).to_string()
            } else {
                r.ps(&["\"abc\"", "\"é\"", "\"\"", "[1, 2, 3]", "[]", "{\"a\": 1}", "{}", ".", ".zz", "null", "true", "2.5", "\"%Y-%m-%d\"", "\"1e3\"", "\"(\"", "\"[a-\"", ".l", ".o", ".s",
                       "(range 3)", "\"18446744073709551615\"", "-0", "1e300"]).to_string()
            }
        })
        .collect();
    // the model treats regular expressions, clocks, base64 and long division as given facts (`orc=`):
    // for those functions the arguments are literals and the fact is obtained from the function itself
    let oracle_backed = ORACLE_FNS.contains(&name);
    let args: Vec<String> = if oracle_backed {
        (0..n_args)
            .map(|_| {
                if r.chance(45) {
                    r.pick(EDGE_INTS).to_string()
                } else {
                    r.ps(&["\"abc\"", "\"é\"", "\"\"", "\"%Y-%m-%d\"", "\"%H:%M %z\"", "\"%\"", "\"1e3\"", "\"3\"", "\"0.00\"", "\"(\"", "\"[a-\"", "\"(a)(b)?\"", "\"2024-02-30\"", "\"1970-01-01\"",
                           "\"YWJj\"", "\"18446744073709551615\"", "2.5", "null", "true", "[1, 2, 3]", "{}"]).to_string()
                }
            })
            .collect()
    } else {
        args
    };
    let e = format!("({spelled} {})", args.join(" "));
    let mut c = c05_case(id);
    c.spec.selects.push(format!("{e}=x"));
    c.spec.utf8 = true;
    if oracle_backed {
        let mut probe = c05_case(id);
        probe.spec.selects.push(format!("({name} {})=x", args.join(" ")));
        probe.sources.push(stdin_src(b"null".to_vec()));
        let scratch = std::mem::ManuallyDrop::new(crate::runner::Scratch { dir: "/nonexistent-orb-probe".into() });
        let o = crate::runner::run_rust(&probe, &scratch);
        if o.res == "ok" {
            let text = String::from_utf8_lossy(&o.out).trim_end().to_string();
            let fact = text.strip_prefix("{\"x\": ").and_then(|x| x.strip_suffix('}')).map(|x| x.to_string());
            if fact.is_some() || text == "{}" {
                c.orc.push((name.to_string(), args.iter().map(|a| display_of_literal(a)).collect(), fact));
            }
        }
    }
    let input = r.ps(&["{\"l\":[1,\"é\",[2]],\"o\":{\"a\":1},\"s\":\"héllo\"}", "18446744073709551615", "-9223372036854775808", "\"日本\"", "[]", "null", "[18446744073709551615, 0, -1]"]);
    c.sources.push(stdin_src(input.as_bytes().to_vec()));
    let mut g = Group::new(vec![c]);
    g.tag = e;
    g.labels.push("kind:edge-call".into());
    g.labels.push(format!("fn:{name}"));
    g
}
// =================================================================================== C15

/// RFC 4180 reader, skip-initial-space dialect: ONE blank after a comma is not part of the field,
/// `""` inside a quoted field is a quote, CR and LF are data inside quotes, a record ends at LF
/// (or CR LF).  Returns the records as lists of field texts.
pub fn csv_read(text: &str) -> Result<Vec<Vec<String>>, String> {
    let cs: Vec<char> = text.chars().collect();
    let mut recs: Vec<Vec<String>> = vec![];
    let mut rec: Vec<String> = vec![];
    let mut i = 0;
    let n = cs.len();
    if n == 0 {
        return Ok(recs);
    }
    loop {
        // at the start of a field
        let mut field = String::new();
        if i < n && cs[i] == '"' {
            i += 1;
            loop {
                if i >= n {
                    return Err(format!("record {}: end of output inside a quoted field", recs.len()));
                }
                if cs[i] == '"' {
                    if i + 1 < n && cs[i + 1] == '"' {
                        field.push('"');
                        i += 2;
                    } else {
                        i += 1;
                        break;
                    }
                } else {
                    field.push(cs[i]);
                    i += 1;
                }
            }
            if i < n && !(cs[i] == ',' || cs[i] == '\n' || (cs[i] == '\r' && i + 1 < n && cs[i + 1] == '\n')) {
                return Err(format!("record {}: `{}` directly after the closing quote of field {}", recs.len(), cs[i], rec.len()));
            }
        } else {
            while i < n && cs[i] != ',' && cs[i] != '\n' && !(cs[i] == '\r' && i + 1 < n && cs[i + 1] == '\n') {
                if cs[i] == '"' {
                    return Err(format!("record {}: a quote inside the unquoted field {}", recs.len(), rec.len()));
                }
                field.push(cs[i]);
                i += 1;
            }
        }
        rec.push(field);
        if i >= n {
            return Err(format!("record {}: the last record is not terminated", recs.len()));
        }
        if cs[i] == ',' {
            i += 1;
            if i < n && cs[i] == ' ' {
                i += 1;
            }
            continue;
        }
        // end of record
        i += if cs[i] == '\r' { 2 } else { 1 };
        recs.push(std::mem::take(&mut rec));
        if i >= n {
            return Ok(recs);
        }
    }
}

fn is_decimal_spelling(t: &str) -> bool {
    let b = t.as_bytes();
    let mut i = 0;
    if i < b.len() && b[i] == b'-' {
        i += 1;
    }
    let st = i;
    while i < b.len() && b[i].is_ascii_digit() {
        i += 1;
    }
    if i == st {
        return false;
    }
    if i < b.len() && b[i] == b'.' {
        i += 1;
        let st = i;
        while i < b.len() && b[i].is_ascii_digit() {
            i += 1;
        }
        if i == st {
            return false;
        }
    }
    if i < b.len() && (b[i] == b'e' || b[i] == b'E') {
        i += 1;
        if i < b.len() && (b[i] == b'+' || b[i] == b'-') {
            i += 1;
        }
        let st = i;
        while i < b.len() && b[i].is_ascii_digit() {
            i += 1;
        }
        if i == st {
            return false;
        }
    }
    i == b.len()
}

/// the selected values of every record: None = the selection could not be evaluated by the reference
fn selected_values(c: &Case) -> Option<(Vec<String>, Vec<Vec<Option<V>>>)> {
    let records = parse_stream(stdin_bytes(c))?;
    let mut names = vec![];
    let mut asts = vec![];
    for s in &c.spec.selects {
        let (a, n) = parse_selection(s)?;
        names.push(n);
        asts.push(a);
    }
    let mut rows = vec![];
    for rec in &records {
        let mut row = vec![];
        for a in &asts {
            match Eval::new().eval(a, rec, &[]) {
                Rv::Val(v) => row.push(Some(v)),
                Rv::Nothing => row.push(None),
                _ => return None,
            }
        }
        rows.push(row);
    }
    Some((names, rows))
}

fn c15(g: &Group, obs: &[Obs]) -> Option<String> {
    let (c, o) = (&g.cases[0], &obs[0]);
    let s = &c.spec;
    if s.filter.is_some() || s.split.is_some() || s.group.is_some() || !s.sorts.is_empty() || s.skip != 0 || s.take.is_some() || s.unique || s.ooa || !s.sets.is_empty() {
        return None;
    }
    let Some((names, rows)) = selected_values(c) else { return None };
    let n = names.len();
    if n == 0 {
        return None;
    }
    if o.res != "ok" {
        return Some(format!("{}: a {} run over clean input ended with {}", c.id, s.style.clone().unwrap_or_default(), o.res));
    }
    let Ok(text) = std::str::from_utf8(&o.out) else { return Some(format!("{}: output is not UTF-8", c.id)) };
    let rowsep = s.rowsep.clone().unwrap_or("\n".into());
    match s.style.as_deref() {
        Some("csv") => {
            if rowsep != "\n" && rowsep != "\r\n" {
                return None;
            }
            let recs = match csv_read(text) {
                Ok(r) => r,
                Err(e) => return Some(format!("{}: the csv output is not RFC 4180: {e}", c.id)),
            };
            if recs.len() != rows.len() + 1 {
                return Some(format!("{}: {} input values must give a header and {} records, the csv reader finds {} records", c.id, rows.len(), rows.len(), recs.len()));
            }
            for (ri, rec) in recs.iter().enumerate() {
                if rec.len() != n {
                    return Some(format!("{}: csv record {ri} has {} fields for {n} selections: {:?}", c.id, rec.len(), rec));
                }
            }
            if recs[0] != names {
                return Some(format!("{}: csv header {:?} is not the selection names {:?}", c.id, recs[0], names));
            }
            for (ri, (rec, want)) in recs[1..].iter().zip(&rows).enumerate() {
                for (fi, (got, w)) in rec.iter().zip(want).enumerate() {
                    let ok = match w {
                        None => got.is_empty(),
                        Some(V::Null) => got == "null",
                        Some(V::Bool(b)) => got == if *b { "True" } else { "False" },
                        Some(V::Str(x)) => got == x,
                        Some(V::Int(i)) => *got == i.to_string(),
                        Some(V::Float(f)) => is_decimal_spelling(got) && got.parse::<f64>().map(|x| x == *f).unwrap_or(false),
                        Some(v) => value::strict_parse(got.as_bytes()).map(|x| same(&x, v)).unwrap_or(false),
                    };
                    if !ok {
                        return Some(format!("{}: csv row {ri} field {fi} ({}) reads back as {:?}, the selected value is {}", c.id, names[fi], got,
                                            w.as_ref().map(show).unwrap_or("absent".into())));
                    }
                }
            }
            None
        }
        Some("text") => c15_text(c, text, &rowsep, n, &rows),
        _ => None,
    }
}

fn c15_text(c: &Case, text: &str, rowsep: &str, n: usize, rows: &[Vec<Option<V>>]) -> Option<String> {
    let s = &c.spec;
    let isep = s.isep.clone().unwrap_or("\t".into());
    let pre = s.spre.clone().unwrap_or_default();
    let post = s.spost.clone().unwrap_or_default();
    let nullkw = s.nullkw.clone().unwrap_or("null".into());
    let truekw = s.truekw.clone().unwrap_or("true".into());
    let falsekw = s.falsekw.clone().unwrap_or("false".into());
    let miss = s.misskw.clone().unwrap_or_default();
    if isep.is_empty() || rowsep.is_empty() {
        return None;
    }
    let esc = |t: &str| -> String {
        let mut out = String::new();
        for ch in t.chars() {
            // the last definition of a character wins
            match s.esc.iter().rev().find(|e| e.chars().next() == Some(ch)) {
                Some(e) => out.push_str(&e[ch.len_utf8()..]),
                None => out.push(ch),
            }
        }
        out
    };
    // a representative text of the field: its first and last characters and every character it can contain
    let hull = |v: &Option<V>| -> String {
        match v {
            None => miss.clone(),
            Some(V::Null) => nullkw.clone(),
            Some(V::Bool(b)) => if *b { truekw.clone() } else { falsekw.clone() },
            Some(V::Str(x)) => format!("{pre}{}{post}", esc(x)),
            Some(V::Int(i)) => i.to_string(),
            Some(V::Float(_)) => "-0123456789.eE+".into(),
            Some(v) => format!("{pre}{}{post}", esc(&value::render(v))),
        }
    };
    let headers = s.headers;
    let names: Vec<String> = c.spec.selects.iter().filter_map(|x| parse_selection(x).map(|(_, nm)| nm)).collect();
    let mut all: Vec<Vec<String>> = vec![];
    if headers {
        all.push(names.iter().map(|nm| format!("{pre}{}{post}", esc(nm))).collect());
    }
    for r in rows {
        all.push(r.iter().map(|v| hull(v)).collect());
    }
    let total_rows = all.len();
    // can `sep` occur inside one of the tokens, or be completed across a token boundary?
    let clash = |tokens: &[String], sep: &str| -> bool {
        let numeric = sep.chars().all(|ch| "-0123456789.eE+".contains(ch));
        tokens.iter().any(|t| t.contains(sep) || (numeric && t == "-0123456789.eE+"))
            || (1..sep.len()).filter(|k| sep.is_char_boundary(*k)).any(|k| tokens.iter().any(|t| t.ends_with(&sep[..k]) || t.starts_with(&sep[k..])))
    };
    let mut tokens: Vec<String> = all.iter().flatten().cloned().collect();
    tokens.push(isep.clone());
    let rows_splittable = !clash(&tokens, rowsep);
    if !rows_splittable {
        let k = text.matches(rowsep).count();
        if k < total_rows {
            return Some(format!("{}: {} rows expected, only {k} row separators written", c.id, total_rows));
        }
        let seps = text.matches(&isep).count();
        if seps < total_rows * (n - 1) {
            return Some(format!("{}: {total_rows} rows of {n} fields need {} item separators, {seps} written", c.id, total_rows * (n - 1)));
        }
        return None;
    }
    if !text.is_empty() && !text.ends_with(rowsep) {
        return Some(format!("{}: the last text row is not terminated by the row separator", c.id));
    }
    let mut lines: Vec<&str> = text.split(rowsep).collect();
    lines.pop();
    if lines.len() != total_rows {
        return Some(format!("{}: {total_rows} text rows expected, {} written", c.id, lines.len()));
    }
    for (li, line) in lines.iter().enumerate() {
        let fields_hull = &all[li];
        let sep_inside = clash(fields_hull, &isep);
        if sep_inside {
            if line.matches(&isep).count() < n - 1 {
                return Some(format!("{}: text row {li} has fewer than {} item separators: {:?}", c.id, n - 1, line));
            }
            continue;
        }
        let fields: Vec<&str> = line.split(&isep).collect();
        if fields.len() != n {
            return Some(format!("{}: text row {li} has {} fields for {n} selections: {:?}", c.id, fields.len(), line));
        }
        if headers && li == 0 {
            continue;
        }
        let want = &rows[li - headers as usize];
        for (fi, (got, w)) in fields.iter().zip(want).enumerate() {
            let ok = match w {
                None => *got == miss,
                Some(V::Null) => *got == nullkw,
                Some(V::Bool(b)) => *got == if *b { &truekw } else { &falsekw },
                Some(V::Int(i)) => *got == i.to_string(),
                Some(V::Str(_)) | Some(V::Arr(_)) | Some(V::Obj(_)) => got.len() >= pre.len() + post.len() && got.starts_with(&pre) && got.ends_with(&post),
                Some(V::Float(f)) => got.parse::<f64>().map(|x| x == *f).unwrap_or(false),
            };
            if !ok {
                return Some(format!("{}: text row {li} field {fi} is {:?}, the selected value is {}", c.id, got, w.as_ref().map(show).unwrap_or("absent".into())));
            }
        }
    }
    None
}
// =================================================================================== C19

/// all numbers of a value, in document order; Err = a number that is not an integer in [-2^63, 2^64)
fn int_leaves(v: &V, out: &mut Vec<i128>) -> Result<(), f64> {
    match v {
        V::Int(i) => out.push(*i),
        V::Float(f) => return Err(*f),
        V::Arr(a) => {
            for x in a {
                int_leaves(x, out)?;
            }
        }
        V::Obj(o) => {
            for (_, x) in o {
                int_leaves(x, out)?;
            }
        }
        _ => {}
    }
    Ok(())
}

fn c19(g: &Group, obs: &[Obs]) -> Option<String> {
    let (c, o) = (&g.cases[0], &obs[0]);
    if o.res != "ok" {
        return Some(format!("{}: the run ended with {}", c.id, o.res));
    }
    let records = parse_stream(stdin_bytes(c))?;
    if plain_select_run(c) {
        // every selection the reference evaluator settles: pass-through positions, collection functions,
        // and the number-as-string functions against exact big-integer arithmetic
        if let Err(e) = check_selects(c, o) {
            return Some(e);
        }
        // (sort l) / (sort_unique l): whatever the order, the integers are those of l
        let rows = crate::props::parse_rows(&o.out, "\n").ok()?;
        for sel in &c.spec.selects {
            let Some((Ast::Call { name, args }, title)) = parse_selection(sel) else { continue };
            if name != "sort" && name != "sort_unique" {
                continue;
            }
            for (rec, row) in records.iter().zip(&rows) {
                let Rv::Val(V::Arr(l)) = Eval::new().eval(&args[0], rec, &[]) else { continue };
                let mut want = vec![];
                if int_leaves(&V::Arr(l), &mut want).is_err() {
                    continue;
                }
                let mut got = vec![];
                match crate::props::get_key(row, &title) {
                    Some(v) => {
                        if let Err(f) = int_leaves(v, &mut got) {
                            return Some(format!("{}: `{sel}` printed the integer list of {} with the non-integer {f}", c.id, show(rec)));
                        }
                    }
                    None => return Some(format!("{}: `{sel}` on {} gave nothing", c.id, show(rec))),
                }
                want.sort();
                got.sort();
                if name == "sort_unique" {
                    want.dedup();
                    got.dedup();
                }
                if want != got {
                    return Some(format!("{}: `{sel}` on {} changed the integers: {:?} became {:?}", c.id, show(rec), want, got));
                }
            }
        }
        return None;
    }
    // pipelines that move whole values around: the integers of the output are the integers of the input
    let s = &c.spec;
    if s.filter.is_some() || s.skip != 0 || s.take.is_some() || !s.selects.is_empty() || s.style.is_some() || s.ooa {
        return None;
    }
    let mut want: Vec<i128> = vec![];
    match &s.split {
        None => {
            for rec in &records {
                int_leaves(rec, &mut want).ok()?;
            }
        }
        Some(e) => {
            let a = parse_expr(e)?;
            for rec in &records {
                match Eval::new().eval(&a, rec, &[]) {
                    Rv::Val(V::Arr(l)) => int_leaves(&V::Arr(l), &mut want).ok()?,
                    Rv::Unknown | Rv::Dec(_) => return None,
                    _ => {}
                }
            }
        }
    }
    let sep = s.rowsep.clone().unwrap_or("\n".into());
    let rows = match crate::props::parse_rows(&o.out, &sep) {
        Ok(r) => r,
        Err(e) => return Some(format!("{}: {e}", c.id)),
    };
    let mut got: Vec<i128> = vec![];
    for row in &rows {
        if let Err(f) = int_leaves(row, &mut got) {
            return Some(format!("{}: the input holds integers only, the output holds the non-integer number {f}", c.id));
        }
    }
    if s.unique {
        // whole rows are dropped only when equal: the set of integers is unchanged
        want.sort();
        want.dedup();
        got.sort();
        got.dedup();
    } else {
        want.sort();
        got.sort();
    }
    if want != got {
        let lost: Vec<&i128> = want.iter().filter(|x| !got.contains(x)).take(3).collect();
        let new: Vec<&i128> = got.iter().filter(|x| !want.contains(x)).take(3).collect();
        return Some(format!("{}: integers changed on the way through the pipeline: {} in, {} out; missing {:?}, unexpected {:?}", c.id, want.len(), got.len(), lost, new));
    }
    None
}

/// another spelling of the same decimal: leading zeros, trailing zeros, a moved point, an exponent
pub fn respell_decimal(r: &mut Rng, s: &str) -> String {
    let Some(d) = Dec::parse(s) else { return s.to_string() };
    let zero = BigInt::from(0u32);
    let neg = d.m < zero;
    let mut digits = if neg { (-d.m.clone()).to_string() } else { d.m.to_string() };
    let mut e = d.e;
    let k = r.below(4);
    digits.push_str(&"0".repeat(k));
    e -= k as i64;
    let p = r.below(digits.len() + 1).min(40);
    let (ip, fp) = digits.split_at(digits.len() - p);
    e += p as i64;
    let mut out = String::new();
    if neg {
        out.push('-');
    } else if r.chance(15) {
        out.push('+');
    }
    out.push_str(&"0".repeat(r.below(3)));
    out.push_str(if ip.is_empty() { "0" } else { ip });
    if !fp.is_empty() || r.chance(10) {
        out.push('.');
        out.push_str(fp);
    }
    if e != 0 || r.chance(20) {
        out.push(if r.chance(50) { 'e' } else { 'E' });
        if e >= 0 && r.chance(40) {
            out.push('+');
        }
        out.push_str(&e.to_string());
    }
    out
}
// =================================================================================== C20

pub struct Spawned {
    pub code: Option<i32>,
    pub out: Vec<u8>,
    pub err: Vec<u8>,
    pub timed_out: bool,
}

#[derive(Clone, Copy, PartialEq, Debug)]
pub enum StdoutKind {
    Pipe,
    /// /dev/full: every write fails with ENOSPC
    Full,
    /// a pipe whose reader has gone: every write fails with EPIPE
    Closed,
}

/// run the real executable (env JAWK_BIN) as a child process with an address-space limit and a 20 s timeout
pub fn spawn_jawk(args: &[String], stdin: &[u8], stdout: StdoutKind) -> Result<Spawned, String> {
    use std::io::{Read, Write};
    use std::process::{Command, Stdio};
    let exe = std::env::var("JAWK_BIN").unwrap_or_else(|_| "/verif/build/repo-target/release/jawk".into());
    if !std::path::Path::new(&exe).exists() {
        return Err(format!("the jawk executable {exe} does not exist (set JAWK_BIN)"));
    }
    let mut cmd = Command::new("bash");
    cmd.arg("-c").arg("ulimit -v 4000000; exec \"$0\" \"$@\"").arg(&exe).args(args);
    cmd.stdin(Stdio::piped()).stderr(Stdio::piped());
    match stdout {
        StdoutKind::Full => {
            let f = std::fs::OpenOptions::new().write(true).open("/dev/full").map_err(|e| format!("/dev/full: {e}"))?;
            cmd.stdout(Stdio::from(f));
        }
        _ => {
            cmd.stdout(Stdio::piped());
        }
    }
    let mut child = cmd.spawn().map_err(|e| format!("cannot spawn {exe}: {e}"))?;
    let mut out_pipe = child.stdout.take();
    if stdout == StdoutKind::Closed {
        // the reader goes away before the child has been given anything to answer
        out_pipe = None;
    }
    let mut err_pipe = child.stderr.take();
    let mut in_pipe = child.stdin.take();
    let data = stdin.to_vec();
    let feeder = std::thread::spawn(move || {
        if let Some(mut p) = in_pipe.take() {
            let _ = p.write_all(&data);
        }
    });
    let out_t = std::thread::spawn(move || {
        let mut b = vec![];
        if let Some(mut p) = out_pipe.take() {
            let _ = p.read_to_end(&mut b);
        }
        b
    });
    let err_t = std::thread::spawn(move || {
        let mut b = vec![];
        if let Some(mut p) = err_pipe.take() {
            let _ = p.read_to_end(&mut b);
        }
        b
    });
    let t0 = std::time::Instant::now();
    let mut timed_out = false;
    let status = loop {
        match child.try_wait() {
            Ok(Some(s)) => break Some(s),
            Ok(None) => {
                if t0.elapsed().as_secs() >= 20 {
                    let _ = child.kill();
                    timed_out = true;
                    break child.wait().ok();
                }
                std::thread::sleep(std::time::Duration::from_millis(2));
            }
            Err(_) => break None,
        }
    };
    let _ = feeder.join();
    let out = out_t.join().unwrap_or_default();
    let err = err_t.join().unwrap_or_default();
    Ok(Spawned { code: status.and_then(|s| s.code()), out, err, timed_out })
}

fn has_error_line(b: &[u8]) -> bool {
    b.split(|c| *c == b'\n').any(|l| l.starts_with(b"error:"))
}

fn c20(g: &Group, obs: &[Obs]) -> Option<String> {
    if g.tag == "missing-file" {
        let c = &g.cases[0];
        let argv = c.argv("/nonexistent-directory-of-the-harness");
        let run = match spawn_jawk(&argv[1..], b"", StdoutKind::Pipe) {
            Ok(r) => r,
            Err(e) => return Some(format!("{}: C20 needs the executable: {e}", c.id)),
        };
        if run.timed_out {
            return Some(format!("{}: the executable did not finish within 20 s", c.id));
        }
        let err_text = String::from_utf8_lossy(&run.err).chars().take(200).collect::<String>();
        match run.code {
            Some(0) => return Some(format!("{}: the input file does not exist, yet the exit status is 0 (stderr: {err_text:?})", c.id)),
            Some(_) => {}
            None => return Some(format!("{}: the executable was killed by a signal on a missing input file (stderr: {err_text:?})", c.id)),
        }
        if run.err.iter().all(|b| b.is_ascii_whitespace()) {
            return Some(format!("{}: a missing input file gives a non-zero exit status without a message on standard error", c.id));
        }
        if !run.out.is_empty() && c.spec.group.is_none() {
            return Some(format!("{}: rows on standard output although the only input file does not exist", c.id));
        }
        return None;
    }
    for (c, lib) in g.cases.iter().zip(obs) {
        if c.mode != "main" {
            continue;
        }
        if c.sources.iter().any(|s| s.name.is_some()) || c.rerr.is_some() || c.endless.is_some() {
            continue;
        }
        let argv = c.argv("/nonexistent");
        let kind = match c.wfail {
            None => StdoutKind::Pipe,
            Some(0) => StdoutKind::Full,
            Some(_) => StdoutKind::Closed,
        };
        let input = stdin_bytes(c);
        let run = match spawn_jawk(&argv[1..], input, kind) {
            Ok(r) => r,
            Err(e) => return Some(format!("{}: C20 needs the executable: {e}", c.id)),
        };
        if run.timed_out {
            return Some(format!("{}: the executable did not finish within 20 s", c.id));
        }
        let Some(code) = run.code else { return Some(format!("{}: the executable was killed by a signal; stderr: {}", c.id, String::from_utf8_lossy(&run.err).chars().take(200).collect::<String>())) };
        // ---- what the case is, from the case alone
        let policy = c.spec.on_error.clone().unwrap_or("ignore".into());
        // (an escaped surrogate pair is conforming JSON, but jawk reads \uD800-\uDFFF escapes as malformed — they are outside
        //  C01's domain —, so "noisy" is what the generator put in, not only what a strict reader rejects)
        let noisy = parse_stream(input).is_none() || g.tag.strip_prefix("noise=").and_then(|n| n.parse::<usize>().ok()).map(|n| n > 0).unwrap_or(false);
        let bad_config = c.spec.selects.iter().any(|s| s.contains("(nope")) || c.spec.sorts.iter().any(|s| s.contains("sideways"));
        // the library entry point on the same case (in-memory streams): did it succeed, did it try to write?
        let lib_ok = lib.res == "ok";
        let lib_rejected = lib.res == "err:config" || lib.res == "err:clap";
        let wrote_something = !lib.out.is_empty() || lib.res == "err:io";
        let what = format!("{} (policy {policy}, {}, {}, stdout {:?})", c.id, if noisy { "noisy input" } else { "clean input" }, if bad_config { "invalid configuration" } else { "valid configuration" }, kind);
        let err_text = String::from_utf8_lossy(&run.err).chars().take(200).collect::<String>();
        // ---- exit status
        // (a report that --on-error=stdout has to write is output too: it cannot go to a stdout that fails — said from the case
        //  alone, not from what the library entry point did with its in-memory stream)
        let report_due = policy == "stdout" && noisy && !bad_config && c.spec.take.is_none();
        let must_fail = bad_config || (policy == "panic" && noisy) || (kind != StdoutKind::Pipe && wrote_something && !lib_rejected)
            || (kind == StdoutKind::Full && report_due);
        // (under the lenient policies every malformed region is skipped or reported, never fatal)
        let must_succeed = !bad_config && kind == StdoutKind::Pipe && (!noisy || policy != "panic");
        if must_fail && code == 0 {
            return Some(format!("{what}: the run failed but the exit status is 0 (stderr: {err_text:?})"));
        }
        if must_succeed && code != 0 {
            return Some(format!("{what}: exit status {code} for a run that has nothing to fail on (stderr: {err_text:?})"));
        }
        if kind == StdoutKind::Pipe && (code == 0) != lib_ok {
            return Some(format!("{what}: exit status {code} but the same run through the library entry point ended with {}", lib.res));
        }
        if code != 0 && run.err.iter().all(|b| b.is_ascii_whitespace()) {
            return Some(format!("{what}: exit status {code} without a message on standard error"));
        }
        // ---- data on stdout, diagnostics where the policy says
        if bad_config && !run.out.is_empty() {
            return Some(format!("{what}: output written although the configuration was rejected"));
        }
        if kind == StdoutKind::Pipe {
            if policy == "stderr" {
                if has_error_line(&run.out) {
                    return Some(format!("{what}: an `error:` line on standard output under --on-error=stderr"));
                }
                if noisy && !bad_config && !has_error_line(&run.err) {
                    return Some(format!("{what}: noisy input but no `error:` line on standard error (stderr: {err_text:?})"));
                }
            }
            if c.wfail.is_none() && c.efail.is_none() && (lib_ok || lib.res == "err:json") && run.out != lib.out {
                return Some(format!("{what}: standard output differs from what the library entry point writes to its output stream: {:?} vs {:?}",
                                    crate::runner::show_bytes(&run.out), crate::runner::show_bytes(&lib.out)));
            }
            if code == 0 {
                // rows never go to standard error: on success it holds diagnostics only
                // (a report quotes the offending character as it is — a line feed included —, so a report may span two lines:
                //  what must never be there is a ROW, i.e. a line that is a JSON value)
                let stray = run.err.split(|b| *b == b'\n').find(|l| !l.is_empty() && !(policy == "stderr" && l.starts_with(b"error:"))
                    && (policy != "stderr" || value::strict_parse(l).is_ok()));
                if let Some(l) = stray {
                    return Some(format!("{what}: unexpected text on standard error of a successful run: {:?}", String::from_utf8_lossy(l).chars().take(120).collect::<String>()));
                }
            }
        }
    }
    None
}
