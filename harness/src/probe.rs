//! `harness probe`: the byte classes of the real code, obtained by running it on EVERY byte.
//!
//! The tables go to `lean/Jawk/Generated/ByteClasses.lean` (written by bin/check), and
//! `Jawk/Props/Tables.lean` proves that the model's `isWs`, `Garbage`, `varStop`, `fnNameStop`, `keyStop`
//! are these tables.  Unlike the syntactic extraction this does not depend on how the source is written.
//!
//! Observations (each one a run of `jawk::go` in-process):
//! * input bytes, all 256:  `ws`      <=> `b7` and `b""` are read as the single rows 7 and "" without any report;
//!                          `kind k`  <=> `b` + the completion of kind k is read as that value, no report;
//!                          `garbage` <=> `b 7` is read as the row 7 with exactly one report (one byte, one error);
//! * expression bytes (every ASCII byte as a character; the bytes >= 0x80 through multi-byte characters):
//!   `fn-stop`  <=> `(len<b>zzz)` does NOT fail with "unknown function `len<b>zzz`";
//!   `key-stop` <=> `.a<b>zzz` does NOT select the member named `a<b>zzz`;
//!   `var-stop` <=> `(default :v<b> 2)` with `v` bound does NOT evaluate to 2 (the name read is not `v<b>`).

use crate::runner::FaultyWriter;
use clap::Parser;
use std::cell::RefCell;
use std::io::Write;
use std::panic::{catch_unwind, AssertUnwindSafe};
use std::rc::Rc;
use std::sync::Arc;

struct Run {
    ok: bool,
    dbg: String,
    disp: String,
    out: Vec<u8>,
    err: Vec<u8>,
}

fn go_once(args: &[&str], stdin: &[u8]) -> Run {
    let mut argv: Vec<String> = vec!["jawk".into()];
    argv.extend(args.iter().map(|s| s.to_string()));
    let cli = match jawk::Cli::try_parse_from(argv.iter()) {
        Ok(c) => c,
        Err(e) => return Run { ok: false, dbg: format!("clap:{:?}", e.kind()), disp: String::new(), out: vec![], err: vec![] },
    };
    let out_buf = Arc::new(std::sync::Mutex::new(Vec::new()));
    let err_buf = Arc::new(std::sync::Mutex::new(Vec::new()));
    let out: Rc<RefCell<dyn Write + Send>> = Rc::new(RefCell::new(FaultyWriter { buf: out_buf.clone(), room: None }));
    let err: Rc<RefCell<dyn Write + Send>> = Rc::new(RefCell::new(FaultyWriter { buf: err_buf.clone(), room: None }));
    let data = stdin.to_vec();
    let factory: Box<dyn Fn() -> std::io::Cursor<Vec<u8>>> = Box::new(move || std::io::Cursor::new(data.clone()));
    let result = catch_unwind(AssertUnwindSafe(|| jawk::go(cli, out.clone(), err.clone(), factory)));
    let (ok, dbg, disp) = match result {
        Ok(Ok(())) => (true, String::new(), String::new()),
        Ok(Err(e)) => (false, format!("{:?}", e), format!("{}", e)),
        Err(_) => (false, "panic".into(), "panic".into()),
    };
    let o = out_buf.lock().unwrap().clone();
    let e = err_buf.lock().unwrap().clone();
    Run { ok, dbg, disp, out: o, err: e }
}

fn lines(b: &[u8]) -> usize {
    b.iter().filter(|&&c| c == b'\n').count()
}

fn json_list(v: &[usize]) -> String {
    format!("[{}]", v.iter().map(|x| x.to_string()).collect::<Vec<_>>().join(", "))
}

/// the characters through which the bytes >= 0x80 are exercised: every lead byte C2..F4 and every
/// continuation byte 80..BF occurs in at least one of them
fn multibyte_chars() -> Vec<char> {
    let mut v = Vec::new();
    for k in 0..64u32 {
        v.push(char::from_u32(0x80 + k).unwrap()); // C2 80..BF
    }
    for lead in 0xC3u32..=0xDF {
        v.push(char::from_u32((lead - 0xC0) << 6).unwrap());
    }
    for c in [0x0800u32, 0x1000, 0x2000, 0x3000, 0x4000, 0x5000, 0x6000, 0x7000, 0x8000, 0x9000, 0xA000, 0xB000, 0xC000, 0xD000, 0xE000, 0xF000,
              0x10000, 0x40000, 0x80000, 0xC0000, 0x100000] {
        v.push(char::from_u32(c).unwrap());
    }
    v
}

fn json_string(s: &str) -> String {
    let mut o = String::from("\"");
    for c in s.chars() {
        match c {
            '"' => o.push_str("\\\""),
            '\\' => o.push_str("\\\\"),
            c if (c as u32) < 0x20 || c as u32 == 0x7f => o.push_str(&format!("\\u{:04x}", c as u32)),
            c => o.push(c),
        }
    }
    o.push('"');
    o
}

fn fn_nonstop(c: char) -> bool {
    let name = format!("len{}zzz", c);
    let r = go_once(&["--select", &format!("({})", name)], b"1");
    !r.ok && (r.disp.contains(&format!("'{}'", name)) || r.dbg.contains(&format!("{:?}", name)))
}

fn key_nonstop(c: char) -> bool {
    let key = format!("a{}zzz", c);
    let input = format!("{{{}: 5, \"a\": 6, \"zzz\": 7}}", json_string(&key));
    let r = go_once(&["--output-style", "text", "--select", &format!(".{}", key)], input.as_bytes());
    r.ok && r.out == b"5\n"
}

fn var_nonstop(c: char) -> bool {
    let r = go_once(&["--output-style", "text", "--set", "v=1", "--select", &format!("(default :v{} 2)", c)], b"0");
    r.ok && r.out == b"2\n"
}

fn stop_table(nonstop: &dyn Fn(char) -> bool, problems: &mut Vec<String>, what: &str) -> Vec<usize> {
    let mut stops = Vec::new();
    for b in 0u32..128 {
        if !nonstop(char::from_u32(b).unwrap()) {
            stops.push(b as usize);
        }
    }
    for c in multibyte_chars() {
        if !nonstop(c) {
            // cannot be attributed to one byte: report all of them
            let mut buf = [0u8; 4];
            for &x in c.encode_utf8(&mut buf).as_bytes() {
                if !stops.contains(&(x as usize)) {
                    stops.push(x as usize);
                }
            }
            problems.push(format!("{what}: the character U+{:04X} ends the name", c as u32));
        }
    }
    stops.sort();
    stops
}

/// how the JSON printer writes every code point (one-character strings, one per row), in one run per string mode:
/// `raw`, `esc:<letter>` (backslash + one character) or `u4` (\u + four lower-case hex digits); anything else is a problem
fn print_classes(utf8: bool, cps: &[u32], problems: &mut Vec<String>) -> Vec<(u32, String)> {
    let mut input = String::new();
    for cp in cps {
        if *cp < 0x10000 {
            input.push_str(&format!("\"\\u{:04x}\"\n", cp));
        } else {
            input.push_str(&format!("\"{}\"\n", char::from_u32(*cp).unwrap()));
        }
    }
    let args: Vec<&str> = if utf8 { vec!["--utf8-strings"] } else { vec![] };
    let r = go_once(&args, input.as_bytes());
    let mut out = Vec::new();
    if !r.ok {
        problems.push(format!("printer probe (utf8={utf8}): the run failed: {}", r.disp));
        return out;
    }
    let text = String::from_utf8_lossy(&r.out).into_owned();
    let rows: Vec<&str> = text.split('\n').filter(|l| !l.is_empty()).collect();
    if rows.len() != cps.len() {
        problems.push(format!("printer probe (utf8={utf8}): {} rows for {} strings", rows.len(), cps.len()));
        return out;
    }
    for (cp, row) in cps.iter().zip(rows) {
        let body = row.strip_prefix('"').and_then(|x| x.strip_suffix('"')).unwrap_or("?");
        let ch = char::from_u32(*cp).unwrap();
        let class = if body.chars().count() == 1 && body.chars().next() == Some(ch) {
            "raw".to_string()
        } else if body.len() == 2 && body.starts_with('\\') {
            format!("esc:{}", body.chars().nth(1).unwrap() as u32)
        } else if body.len() == 6 && body.starts_with("\\u") && body[2..].chars().all(|c| c.is_ascii_digit() || ('a'..='f').contains(&c))
            && u32::from_str_radix(&body[2..], 16).ok() == Some(*cp) {
            "u4".to_string()
        } else {
            format!("other:{}", body.chars().take(12).collect::<String>())
        };
        out.push((*cp, class));
    }
    out
}

/// what `read_string` makes of `\` followed by each byte: the character it denotes, or nothing (an error)
fn parse_escapes() -> Vec<(usize, u32)> {
    let mut v = Vec::new();
    for b in 0usize..128 {
        if b == b'u' as usize {
            continue;
        }
        let input = [b"\"\\".as_slice(), &[b as u8], b"\"".as_slice()].concat();
        let r = go_once(&["--on-error", "stderr", "--output-style", "text"], &input);
        if r.ok && r.err.is_empty() {
            let t = String::from_utf8_lossy(&r.out).into_owned();
            let t = t.strip_suffix('\n').unwrap_or(&t);
            if t.chars().count() == 1 {
                v.push((b, t.chars().next().unwrap() as u32));
            }
        }
    }
    v
}

fn ranges(cps: &[u32]) -> String {
    let mut out: Vec<(u32, u32)> = vec![];
    for c in cps {
        match out.last_mut() {
            Some((_, hi)) if *hi + 1 == *c => *hi = *c,
            _ => out.push((*c, *c)),
        }
    }
    format!("[{}]", out.iter().map(|(a, b)| format!("[{a}, {b}]")).collect::<Vec<_>>().join(", "))
}

pub fn cmd_probe() -> i32 {
    let mut problems: Vec<String> = Vec::new();
    // the printer on every code point of the BMP (surrogates apart) and a sample of the other planes (with --utf8-strings)
    let bmp: Vec<u32> = (0u32..0x10000).filter(|c| !(0xD800..0xE000).contains(c)).collect();
    let astral: Vec<u32> = (0..1024u32).map(|k| 0x10000 + k * 1024 + (k % 7)).filter(|c| *c <= 0x10FFFF).collect();
    let ascii_mode = print_classes(false, &bmp, &mut problems);
    let mut all = bmp.clone();
    all.extend(&astral);
    let utf8_mode = print_classes(true, &all, &mut problems);
    let esc_of = |v: &[(u32, String)]| -> Vec<(u32, u32)> { v.iter().filter_map(|(c, k)| k.strip_prefix("esc:").and_then(|l| l.parse().ok()).map(|l| (*c, l))).collect() };
    let of = |v: &[(u32, String)], k: &str| -> Vec<u32> { v.iter().filter(|(_, x)| x == k).map(|(c, _)| *c).collect() };
    for (c, k) in ascii_mode.iter().chain(utf8_mode.iter()) {
        if k.starts_with("other:") {
            problems.push(format!("printer: U+{:04X} is written as {}", c, &k[6..]));
            break;
        }
    }
    if esc_of(&ascii_mode) != esc_of(&utf8_mode).into_iter().filter(|(c, _)| *c < 0x10000).collect::<Vec<_>>() {
        problems.push("printer: the two-character escapes differ between the two string modes".into());
    }
    // the sample of the other planes: all written as they are with --utf8-strings?
    let astral_raw = utf8_mode.iter().filter(|(c, _)| *c >= 0x10000).all(|(_, k)| k == "raw");
    let utf8_mode: Vec<(u32, String)> = utf8_mode.into_iter().filter(|(c, _)| *c < 0x10000).collect();
    let print_json = format!(
        "{{\"escapes\": [{}], \"raw_ascii\": {}, \"u4_ascii\": {}, \"raw_utf8\": {}, \"u4_utf8\": {}, \"astral_raw_utf8\": {astral_raw}}}",
        esc_of(&ascii_mode).iter().map(|(c, l)| format!("[{c}, {l}]")).collect::<Vec<_>>().join(", "),
        ranges(&of(&ascii_mode, "raw")), ranges(&of(&ascii_mode, "u4")), ranges(&of(&utf8_mode, "raw")), ranges(&of(&utf8_mode, "u4"))
    );
    let pe = parse_escapes();
    let parse_json = format!("[{}]", pe.iter().map(|(b, c)| format!("[{b}, {c}]")).collect::<Vec<_>>().join(", "));
    let kinds: [(&str, &[u8], &[u8]); 8] = [
        ("true", b"rue", b"true\n"),
        ("false", b"alse", b"false\n"),
        ("null", b"ull", b"null\n"),
        ("string", b"\"", b"\"\"\n"),
        ("number", b"", b""),     // a digit on its own: the row is the digit
        ("number", b"1", b""),    // a sign: the row is the byte followed by 1
        ("array", b"]", b"[]\n"),
        ("object", b"}", b"{}\n"),
    ];
    let mut ws = Vec::new();
    let mut garbage = Vec::new();
    let mut starts: Vec<(String, Vec<usize>)> = ["true", "false", "null", "string", "number", "array", "object"].iter().map(|k| (k.to_string(), Vec::new())).collect();
    for b in 0usize..256 {
        let byte = b as u8;
        let r = go_once(&["--on-error", "stderr"], &[byte, b'7']);
        let r2 = go_once(&["--on-error", "stderr"], &[byte, b'"', b'"']);
        if r.ok && r.out == b"7\n" && r.err.is_empty() && r2.ok && r2.out == b"\"\"\n" && r2.err.is_empty() {
            ws.push(b);
            continue;
        }
        let mut kind: Option<&str> = None;
        for (k, compl, expect) in kinds.iter() {
            let mut input = vec![byte];
            input.extend_from_slice(compl);
            let mut want = expect.to_vec();
            if want.is_empty() {
                want = input.clone();
                want.push(b'\n');
            }
            let r = go_once(&["--on-error", "stderr"], &input);
            if r.ok && r.err.is_empty() && r.out == want {
                kind = Some(k);
                break;
            }
        }
        if let Some(k) = kind {
            starts.iter_mut().find(|(n, _)| n == k).unwrap().1.push(b);
            continue;
        }
        let r = go_once(&["--on-error", "stderr"], &[byte, b' ', b'7']);
        if r.ok && r.out == b"7\n" && lines(&r.err) == 1 {
            garbage.push(b);
        } else {
            problems.push(format!("input byte {b}: neither white space, nor the start of a value, nor a one-byte error"));
        }
    }
    let fn_stop = stop_table(&fn_nonstop, &mut problems, "function name");
    let key_stop = stop_table(&key_nonstop, &mut problems, "key");
    let var_stop = stop_table(&var_nonstop, &mut problems, "variable name");
    let starts_json = starts.iter().map(|(k, v)| format!("[\"{}\", {}]", k, json_list(v))).collect::<Vec<_>>().join(", ");
    println!(
        "{{\"whitespace\": {}, \"garbage\": {}, \"value_start\": [{}], \"fn_name_stop\": {}, \"key_stop\": {}, \"var_stop\": {}, \"printer\": {}, \"parse_escapes\": {}, \"runs\": {}, \"problems\": [{}]}}",
        json_list(&ws), json_list(&garbage), starts_json, json_list(&fn_stop), json_list(&key_stop), json_list(&var_stop), print_json, parse_json,
        256 * 11 + 3 * (128 + multibyte_chars().len()),
        problems.iter().map(|p| format!("{:?}", p)).collect::<Vec<_>>().join(", ")
    );
    0
}
