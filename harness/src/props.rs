//! Property table: generator, what is compared with the model, and the implementation-side
//! oracle (a model-free statement of the property on the real code).
use crate::case::{Case, Source, Spec};
use crate::exprgen::{ExprOpts, Gen, Ty};
use crate::gens::*;
use crate::rng::Rng;
use crate::runner::Obs;
use crate::value::{self, GenOpts, Strict, V};

pub const PROPS: &[&str] = &[
    "C01", "C02", "C03", "C04", "C05", "C06", "C07", "C08", "C09", "C10", "C11", "C12", "C13", "C14", "C15", "C16", "C17", "C18", "C19", "C20",
];

pub fn generate(prop: &str, r: &mut Rng, id: usize, thorough: bool) -> Group {
    match prop {
        "C01" => gen_c01(r, id, thorough),
        "C02" => gen_c02(r, id, thorough),
        "C03" => gen_c03(r, id),
        "C04" => if r.chance(8) { gen_c04_arith(r, id) } else if r.chance(7) { gen_c04_order_long(r, id) } else if r.chance(4) { gen_c04_strings(r, id) } else { crate::oracle_b::gen_c04(r, id) },
        "C05" => gen_c05(r, id, thorough),
        "C06" => gen_c06(r, id),
        "C07" => gen_c07(r, id, thorough),
        "C08" => gen_c08(r, id, thorough),
        "C09" => gen_c09(r, id),
        "C10" => gen_c10(r, id, thorough),
        "C11" => gen_c11(r, id),
        "C12" => gen_c12(r, id),
        "C13" => gen_c13(r, id),
        "C14" => gen_c14(r, id),
        "C15" => gen_c15(r, id),
        "C16" => gen_c16(r, id),
        "C17" => gen_c17(r, id),
        "C18" => gen_c18(r, id),
        "C19" => gen_c19(r, id),
        "C20" => gen_c20(r, id),
        _ => panic!("unknown property {prop}"),
    }
}

fn case(id: String) -> Case {
    Case { id, mode: "run".into(), ..Default::default() }
}

// ---------------------------------------------------------------------------------- helpers for oracles

/// split stdout into rows by the row separator and strictly parse each
pub fn parse_rows(out: &[u8], sep: &str) -> Result<Vec<V>, String> {
    let mut rows = vec![];
    let mut p = Strict::new(out);
    let sepb = sep.as_bytes();
    while p.i < out.len() {
        let v = p.value().map_err(|e| format!("row {} is not valid JSON: {e}", rows.len()))?;
        if !out[p.i..].starts_with(sepb) {
            return Err(format!("row {} not followed by the row separator at byte {}", rows.len(), p.i));
        }
        p.i += sepb.len();
        rows.push(v);
    }
    Ok(rows)
}

fn rowsep(s: &Spec) -> String {
    s.rowsep.clone().unwrap_or("\n".into())
}

/// total order of the help text: null < false < true < strings < numbers < objects < arrays
pub fn rank(v: &V) -> u8 {
    match v {
        V::Null => 0,
        V::Bool(false) => 1,
        V::Bool(true) => 2,
        V::Str(_) => 3,
        V::Int(_) | V::Float(_) => 4,
        V::Obj(_) => 5,
        V::Arr(_) => 6,
    }
}

pub fn num_of(v: &V) -> f64 {
    match v {
        V::Int(i) => *i as f64,
        V::Float(f) => *f,
        _ => 0.0,
    }
}

pub fn cmp_v(a: &V, b: &V) -> std::cmp::Ordering {
    use std::cmp::Ordering::*;
    let (ra, rb) = (rank(a), rank(b));
    if ra != rb {
        return ra.cmp(&rb);
    }
    match (a, b) {
        (V::Str(x), V::Str(y)) => x.chars().cmp(y.chars()),
        (V::Int(_) | V::Float(_), V::Int(_) | V::Float(_)) => num_of(a).partial_cmp(&num_of(b)).unwrap_or(Equal),
        (V::Arr(x), V::Arr(y)) => {
            for (p, q) in x.iter().zip(y.iter()) {
                let c = cmp_v(p, q);
                if c != Equal {
                    return c;
                }
            }
            x.len().cmp(&y.len())
        }
        (V::Obj(x), V::Obj(y)) => {
            // the statement only says "objects"; the harness orders them the way the help
            // text implies is unspecified, so object keys are never compared by the oracle
            x.len().cmp(&y.len())
        }
        _ => Equal,
    }
}

pub fn get_key<'a>(v: &'a V, k: &str) -> Option<&'a V> {
    match v {
        V::Obj(kvs) => kvs.iter().find(|(x, _)| x == k).map(|(_, v)| v),
        _ => None,
    }
}

// ---------------------------------------------------------------------------------- C03

/// pipelines over the small key universe (`gen_pipeline`), plus (a) now and then a few top-level
/// arrays / empty containers among the input values, so that --only-objects-and-arrays, --split-by
/// and the extractors see containers that are not records, and (b) for a third of the groups a twin
/// with the same options in another order on the command line.
pub fn gen_c03(r: &mut Rng, id: usize) -> Group {
    let mut g = gen_pipeline(r, id, "C03", &PipeOpts::default(), &key_universe_small(), 40);
    if r.chance(30) {
        let extras = [V::Arr(vec![]), V::Obj(vec![]), V::Arr(vec![V::Int(1)]), V::Arr(vec![V::Arr(vec![])]),
                      V::Arr(vec![V::Obj(vec![("k".into(), V::Int(1)), ("j".into(), V::Int(2))]), V::Str("a".into())])];
        for _ in 0..r.range(1, 3) {
            let pos = r.below(g.values.len() + 1);
            g.values.insert(pos, r.pick(&extras).clone());
        }
        let (bytes, _) = stream_of(r, &g.values, false);
        g.cases[0].sources = vec![stdin_src(bytes)];
        if r.chance(40) {
            g.cases[0].spec.ooa = true;
        }
        g.labels.push("extras:containers".into());
    }
    if r.chance(33) {
        let mut twin = g.cases[0].clone();
        twin.id = format!("{}-reordered", twin.id);
        twin.shuffle = (r.next() | 1) ^ 2;
        g.cases.push(twin);
    }
    g
}

// ---------------------------------------------------------------------------------- C05

/// C04: an arithmetic function with exactly one argument that is not a number (or is absent), at every
/// position, next to zero / ordinary factors — "if all the arguments are number …" otherwise nothing
pub fn gen_c04_arith(r: &mut Rng, id: usize) -> Group {
    let (f, lo, hi) = *r.pick(&[("+", 2usize, 4usize), ("add", 2, 4), ("*", 2, 4), ("times", 2, 4), ("-", 2, 2), ("/", 2, 2), ("%", 2, 2)]);
    let n = r.range(lo, hi);
    let bad_at = r.below(n);
    let args: Vec<String> = (0..n)
        .map(|i| {
            if i == bad_at {
                r.ps(&["\"x\"", "null", "true", "[1]", "{}", ".missing", ".s", "\"3\""]).to_string()
            } else {
                r.ps(&["0", "0.0", "1", "2.5", "-3", ".a", ".z", "1e300"]).to_string()
            }
        })
        .collect();
    let e = format!("({f} {})", args.join(if r.chance(50) { " " } else { ", " }));
    let mut c = case(format!("C04-{id}"));
    c.spec.selects.push(format!("{e}=x"));
    c.spec.utf8 = true;
    c.sources.push(stdin_src(b"{\"a\":7,\"z\":0,\"s\":\"text\"}\n{\"a\":0,\"z\":0.0,\"s\":\"\"}".to_vec()));
    let mut g = Group::new(vec![c]);
    g.tag = format!("arith-illtyped {e}");
    g.nontrivial = true;
    g.labels.push("kind:arith-illtyped".into());
    g.labels.push(format!("fn:{f}"));
    g
}

/// C04: the string functions on lists with EMPTY strings at the start, in the middle, at the end, alone, and with empty
/// separators: `join` puts the separator between ALL items, `split` and `join` are inverse, `concat` skips nothing
pub fn gen_c04_strings(r: &mut Rng, id: usize) -> Group {
    let n = r.range(0, 6);
    let items: Vec<String> = (0..n).map(|_| r.ps(&["", "", "a", "b", "é", " ", ","]).to_string()).collect();
    let sep = r.ps(&["-", "", ", ", ":", "é"]).to_string();
    let q = |t: &str| value::render(&V::Str(t.to_string()));
    let rec = format!("{{\"l\":[{}],\"s\":{}}}", items.iter().map(|x| q(x)).collect::<Vec<_>>().join(","), q(&sep));
    let mut c = case(format!("C04-{id}-strings"));
    c.spec.selects.push("(join .l .s)=j".into());
    c.spec.selects.push("(join .l)=d".into());
    c.spec.selects.push("(concat (join .l .s) \"\" .s)=c".into());
    c.spec.selects.push("(size (join .l .s))=n".into());
    c.spec.utf8 = true;
    c.sources.push(stdin_src(rec.into_bytes()));
    let mut g = Group::new(vec![c]);
    g.tag = format!("strings\u{1}{}\u{1}{}", sep, items.join("\u{2}"));
    g.values = vec![V::Int(n as i128)];
    g.nontrivial = true;
    g.labels.push("kind:string-lists".into());
    g
}

/// C04: "collection functions preserve element and member order" on collections LONGER than the sizes at which
/// library routines switch algorithm (insertion sort below ~20 elements, small-vector/inline storage, hash-map
/// growth): 21..80 elements with keys from a three-value universe, through every order-sensitive function;
/// the model evaluates the same expressions (correspondence) and the reference evaluator the ones it covers
pub fn gen_c04_order_long(r: &mut Rng, id: usize) -> Group {
    let n = r.range(21, 80);
    let keys = ["1", "2", "\"a\"", "null", "2.0", "true"];
    let few: Vec<&str> = (0..3).map(|_| *r.pick(&keys)).collect();
    let mut l = String::from("[");
    let mut o = String::from("{");
    for i in 0..n {
        let k = r.pick(&few);
        if i > 0 { l.push(','); o.push(','); }
        l.push_str(&format!("{{\"k\":{k},\"i\":{i}}}"));
        o.push_str(&format!("\"m{i}\":{{\"k\":{k},\"i\":{i}}}"));
    }
    l.push(']');
    o.push('}');
    let rec = format!("{{\"l\":{l},\"o\":{o},\"n\":{}}}", n / 2);
    let pool = ["(sort_by .l .k)", "(order_by .l .k)", "(group_by .l (stringify .k))", "(map .l .i)", "(filter .l (= .k ^.l#0.k))", "(flat_map .l (push [] .i .k))",
                "(reverese .l)", "(sort (map .l .k))", "(sort_unique (map .l .k))", "(sort_by_values_by .o .k)", "(sort_by_keys .o)", "(keys .o)", "(values .o)",
                "(entries .o)", "(filter_values .o (= .k ^.l#0.k))", "(map_values .o .i)", "(filter_keys .o (!= . \"m3\"))", "(take .l .n)", "(take_last .l .n)",
                "(sub .l 3 .n)", "(first .l)", "(last .l)", "(pop .l)", "(pop_first .l)", "(indexed .l)", "(zip (map .l .i) (map .l .k))", "(take .o .n)",
                "(take_last .o .n)", "(sub .o 3 .n)", "(join (map .l (stringify .i)) \",\")", "(fold .l [] (push .so_far .value.i))", "(any (map .l (= .i 20)))", "(all (map .l (number? .i)))",
                "(map (sort_by .l .k) .i)", "(sum (map .l .i))", "(size .l)", "(size .o)",
                // lists of DIFFERENT lengths side by side, the shorter one first, in the middle, last, empty
                "(zip (take (map .l .i) 2) (map .l .k))", "(zip [] (map .l .i))", "(zip (map .l .i) [])", "(zip (take (map .l .i) 1) (map .l .k) (take (map .l .i) 3))",
                "(zip (map .l .k) (take (map .l .i) 2))", "(cross (take (map .l .i) 2) (take (map .l .k) 3))", "(zip (take (map .l .i) .n) (map .l .k) [])"];
    let mut c = case(format!("C04-{id}"));
    let m = r.range(3, 6);
    for j in 0..m {
        c.spec.selects.push(format!("{}=c{j}", r.pick(&pool)));
    }
    c.spec.utf8 = true;
    let rec_value = value::strict_parse(rec.as_bytes()).ok();
    c.sources.push(stdin_src(rec.into_bytes()));
    let mut g = Group::new(vec![c]);
    g.values = rec_value.into_iter().collect();
    g.nontrivial = true;
    g.labels.push("kind:order-long".into());
    g
}

/// C05 grid: every ordered PAIR of edge integers through every two-argument arithmetic / comparison /
/// collection function, operands as literals and as input data — enumerated, not sampled (the first
/// `c05_grid_size()` group ids of every run)
const C05_GRID_FNS: &[&str] = &["+", "-", "*", "/", "%", "<", "<=", ">", ">=", "=", "!=", "take", "take_last", "sub", "head", "tail", "get", "range", "\"+\"", "\"-\"", "\"*\"", "\"/\"", "\"%\""];
const C05_GRID_INTS: &[&str] = &["0", "1", "-1", "2", "9007199254740993", "9223372036854775807", "9223372036854775808", "18446744073709551615", "-9223372036854775808", "-9223372036854775807", "0.5", "-0.0"];
pub fn c05_grid_size() -> usize {
    C05_GRID_FNS.len() * C05_GRID_INTS.len() * C05_GRID_INTS.len()
}
fn gen_c05_grid(id: usize) -> Group {
    let n = C05_GRID_INTS.len();
    let f = C05_GRID_FNS[id / (n * n)];
    let (a, b) = (C05_GRID_INTS[(id / n) % n], C05_GRID_INTS[id % n]);
    let big = |x: &str| x.len() > 5 && !x.contains('.');
    let mut c = case(format!("C05-{id}"));
    c.spec.utf8 = true;
    let quoted = f.starts_with('"');
    let (la, lb) = if quoted { (format!("\"{a}\""), format!("\"{b}\"")) } else { (a.to_string(), b.to_string()) };
    // never hand a huge count to a producer of collections
    let producer = matches!(f, "range");
    if producer && (big(a) || big(b)) {
        c.spec.selects.push(format!("({f} 3)=x"));
    } else if matches!(f, "take" | "take_last" | "head" | "tail" | "get") {
        c.spec.selects.push(format!("({f} [1, 2, 3] {lb})=x"));
        c.spec.selects.push(format!("({f} \"héllo\" {lb})=y"));
        c.spec.selects.push(format!("({f} . #1)=z"));
    } else if f == "sub" {
        c.spec.selects.push(format!("(sub [1, 2, 3] {la} {lb})=x"));
        c.spec.selects.push(format!("(sub \"héllo\" {la} {lb})=y"));
    } else {
        c.spec.selects.push(format!("({f} {la} {lb})=x"));
        c.spec.selects.push(format!("({f} #0 #1)=y"));
    }
    let input = if quoted { format!("[\"{a}\", \"{b}\"]") } else { format!("[{a}, {b}]") };
    c.sources.push(stdin_src(input.into_bytes()));
    if f == "\"/\"" {
        // long division is an oracle of the model: obtain the fact from the function itself
        let mut probe = case(format!("C05-{id}-probe"));
        probe.spec.selects.push(format!("(\"/\" {la} {lb})=x"));
        probe.spec.utf8 = true;
        probe.sources.push(stdin_src(b"null".to_vec()));
        let scratch = std::mem::ManuallyDrop::new(crate::runner::Scratch { dir: "/nonexistent-grid-probe".into() });
        let o = crate::runner::run_rust(&probe, &scratch);
        if o.res == "ok" {
            let text = String::from_utf8_lossy(&o.out).trim_end().to_string();
            let fact = text.strip_prefix("{\"x\": ").and_then(|x| x.strip_suffix('}')).map(|x| x.to_string());
            if fact.is_some() || text == "{}" {
                c.orc.push(("\"/\"".to_string(), vec![la.clone(), lb.clone()], fact));
            }
        }
    }
    let mut g = Group::new(vec![c]);
    g.tag = format!("grid ({f} {a} {b})");
    g.labels.push("kind:edge-grid".into());
    g.labels.push(format!("fn:{f}"));
    g
}

/// C05 regex grid: every capture-group index 0..4 against patterns with optional / alternative / missing groups
const C05_RE_PATS: &[&str] = &["[a-z ]+([0-9]+)[a-z ]+", "(x)?hello", "(a)|(b)", "(a)(b)?", "no groups"];
const C05_RE_SUBJ: &[&str] = &["hello 200 world", "hello", "b", "a", "no groups", ""];
pub fn c05_regex_grid_size() -> usize {
    C05_RE_PATS.len() * C05_RE_SUBJ.len() * 5
}
fn gen_c05_regex_grid(k: usize) -> Group {
    let (np, ns) = (C05_RE_PATS.len(), C05_RE_SUBJ.len());
    let _ = np;
    let pat = C05_RE_PATS[k / (ns * 5)];
    let subj = C05_RE_SUBJ[(k / 5) % ns];
    let idx = k % 5;
    let q = |t: &str| format!("\"{}\"", t);
    let mut c = case(format!("C05-re{k}"));
    c.spec.utf8 = true;
    c.spec.selects.push(format!("(extract_regex_group {} {} {idx})=x", q(subj), q(pat)));
    c.spec.selects.push(format!("(match {} {})=m", q(subj), q(pat)));
    c.sources.push(stdin_src(b"null".to_vec()));
    // the model takes regular expressions as given facts; they are computed with the `regex` crate directly
    let re = regex::Regex::new(pat).ok();
    let grp = re.as_ref().and_then(|re| re.captures(subj)).and_then(|cp| cp.get(idx).map(|m| q(m.as_str())));
    c.orc.push(("extract_regex_group".into(), vec![q(subj), q(pat), idx.to_string()], grp));
    let m = re.as_ref().map(|re| if re.is_match(subj) { "true".to_string() } else { "false".to_string() });
    c.orc.push(("match".into(), vec![q(subj), q(pat)], m));
    let mut g = Group::new(vec![c]);
    g.tag = format!("regex-grid {pat} {subj} {idx}");
    g.labels.push("kind:regex-grid".into());
    g
}

/// thorough only: EVERY byte string of length 0..=4 over the 24 JSON-significant bytes, as standard input
const C05_ALPHABET: &[u8] = b"{}[]:,\"\\-+.eE01 \ntfnu/\xc3\xff";
pub fn c05_exhaustive_size() -> usize {
    let a = C05_ALPHABET.len();
    1 + a + a * a + a * a * a + a * a * a * a
}
fn gen_c05_exhaustive(mut k: usize) -> Group {
    let a = C05_ALPHABET.len();
    let mut len = 0;
    let mut block = 1;
    while k >= block {
        k -= block;
        block *= a;
        len += 1;
    }
    let mut bytes = vec![0u8; len];
    for i in (0..len).rev() {
        bytes[i] = C05_ALPHABET[k % a];
        k /= a;
    }
    let mut c = case(format!("C05-x{}", crate::case::hex(&bytes)));
    c.spec.on_error = Some(["ignore", "panic", "stderr", "stdout"][len % 4].to_string());
    c.sources.push(stdin_src(bytes));
    let mut g = Group::new(vec![c]);
    g.labels.push("kind:exhaustive-bytes".into());
    g
}

pub fn gen_c05(r: &mut Rng, id: usize, thorough: bool) -> Group {
    if id < c05_grid_size() {
        return gen_c05_grid(id);
    }
    if id < c05_grid_size() + c05_regex_grid_size() {
        return gen_c05_regex_grid(id - c05_grid_size());
    }
    let fixed = c05_grid_size() + c05_regex_grid_size();
    if thorough && id < fixed + c05_exhaustive_size() {
        return gen_c05_exhaustive(id - fixed);
    }
    if r.chance(3) {
        // MORE carets than there are enclosing inputs, at every nesting depth of every function that evaluates an argument once
        // per element (and of the pipe): the documented fall-back is the current input, never a failure
        let carets = "^".repeat(r.range(1, 7));
        let path = r.ps(&["", ".", ".a", ".l", "#0", ".zz.q"]);
        let leaf = format!("{carets}{path}");
        let wrap = |r: &mut Rng, body: String| -> String {
            match r.below(14) {
                0 => format!("(map .l {body})"),
                1 => format!("(filter .l (= {body} .))"),
                2 => format!("(flat_map .l (push [] {body}))"),
                3 => format!("(sort_by .l {body})"),
                4 => format!("(group_by .l (stringify {body}))"),
                5 => format!("(fold .l 0 (push [] .so_far {body}))"),
                6 => format!("(| .l {body})"),
                7 => format!("(| . .l {body} (push [] . {body}))"),
                8 => format!("(map_values .o {body})"),
                9 => format!("(filter_keys .o (= {body} .))"),
                10 => format!("(sort_by_values_by .o {body})"),
                11 => format!("(map_keys .o (stringify {body}))"),
                12 => format!("(map . {body})"),
                _ => format!("(all (map .l (= {body} {body})))"),
            }
        };
        let mut e = leaf;
        for _ in 0..r.range(1, 3) {
            e = wrap(r, e);
        }
        let mut c = case(format!("C05-{id}"));
        match r.below(5) {
            0 => c.spec.filter = Some(format!("(= {e} {e})")),
            1 => { c.spec.split = Some(".l".into()); c.spec.selects.push(format!("{e}=x")); }
            2 => c.spec.sorts.push(e.clone()),
            3 => { c.spec.sets.push(format!("@m={e}")); c.spec.selects.push("@m=x".into()); }
            _ => c.spec.selects.push(format!("{e}=x")),
        }
        c.sources.push(stdin_src(b"{\"a\": 1, \"l\": [[1, 2], {\"a\": 5, \"l\": [7]}, 3], \"o\": {\"p\": [4], \"q\": {\"a\": 2}}}\n[[1, 2], [3]]\n7\n".to_vec()));
        let mut g = Group::new(vec![c]);
        g.labels.push("kind:excess-carets".into());
        return g;
    }
    if r.chance(5) {
        // \uXXXX escapes of every class and every pair of classes (high surrogate, low surrogate, BMP, bad hex, cut short), as
        // strings, member names and through `parse`
        let classes = ["\\ud83d", "\\ude00", "\\u00e9", "\\ud800", "\\udbff", "\\udc00", "\\udfff", "\\u12g4", "\\u12", "\\uD83D", "\\u0000", "\\uffff", "a", ""];
        let a = r.pick(&classes);
        let b = r.pick(&classes);
        let tail = r.ps(&["", "x", "\\n", "\\"]);
        let lit = format!("\"{a}{b}{tail}\"");
        let mut c = case(format!("C05-{id}"));
        c.spec.on_error = Some(r.ps(&["ignore", "panic", "stderr", "stdout"]).to_string());
        match r.below(4) {
            0 => c.sources.push(stdin_src(format!("{lit} 1").into_bytes())),
            1 => c.sources.push(stdin_src(format!("[{lit}, {{{lit}: {lit}}}] 2").into_bytes())),
            2 => {
                c.spec.selects.push("(parse .)=x".into());
                c.sources.push(stdin_src(value::render(&V::Str(lit.replace("\\\\", "\\"))).into_bytes()));
            }
            _ => {
                c.spec.selects.push(format!("(size {lit})=x"));
                c.sources.push(stdin_src(b"1".to_vec()));
            }
        }
        let mut g = Group::new(vec![c]);
        g.labels.push("kind:unicode-escapes".into());
        return g;
    }
    if r.chance(4) {
        // an invalid UTF-8 byte after a run of valid text of every length and alignment (1-, 2-, 3-, 4-byte characters in front of
        // it), under the policies that have to FORMAT the error
        let unit = r.ps(&["a", "é", "€", "😃", "ab€"]);
        let k = r.range(0, 40);
        let pad = r.ps(&["", "a", "ab", "abc"]);
        let bad: &[u8] = *r.pick(&[&[0xFFu8][..], &[0xC3][..], &[0xE2, 0x82][..], &[0xF0, 0x9F, 0x98][..], &[0x80][..], &[0xED, 0xA0, 0x80][..]]);
        let mut bytes: Vec<u8> = vec![];
        let wrap = r.below(3);
        if wrap == 1 { bytes.extend_from_slice(b"[1, "); }
        if wrap == 2 { bytes.extend_from_slice(b"{\"k\": "); }
        bytes.push(b'"');
        bytes.extend_from_slice(unit.repeat(k).as_bytes());
        bytes.extend_from_slice(pad.as_bytes());
        bytes.extend_from_slice(bad);
        bytes.extend_from_slice(r.ps(&["", "z", "€"]).as_bytes());
        bytes.push(b'"');
        if wrap == 1 { bytes.extend_from_slice(b"]"); }
        if wrap == 2 { bytes.extend_from_slice(b"}"); }
        bytes.extend_from_slice(b" 7\n");
        let mut c = case(format!("C05-{id}"));
        c.spec.on_error = Some(r.ps(&["stderr", "stdout", "panic", "ignore"]).to_string());
        if r.chance(25) {
            // the same bytes as a key / through parse
            c.spec.selects.push("(size .)=x".into());
        }
        c.sources.push(stdin_src(bytes));
        let mut g = Group::new(vec![c]);
        g.labels.push("kind:invalid-utf8-in-long-string".into());
        return g;
    }
    if r.chance(6) {
        // more than 20 numbers around the edges of u64 / i64 / 2^53, where integer and double comparison meet:
        // std's sort panics on a comparison that is not a total order, only on slices longer than 20
        let edge = ["18446744073709551615", "18446744073709551614", "18446744073709551616", "18446744073709550592", "18446744073709551000", "1.8446744073709552e19",
                    "9223372036854775807", "9223372036854775808", "9223372036854775809", "-9223372036854775808", "-9223372036854775807", "-9223372036854775809",
                    "-9223372036854775810", "-9.223372036854776e18", "9007199254740992", "9007199254740993", "9007199254740992.0", "9007199254740994", "0", "-0", "0.0",
                    "-0.0", "1", "1.0", "1e0", "0.1", "1e308", "-1e308", "5e-324"];
        let n = r.range(21, 70);
        let few: Vec<&str> = (0..r.range(3, 8)).map(|_| *r.pick(&edge)).collect();
        let items: Vec<&str> = (0..n).map(|_| *r.pick(&few)).collect();
        // (integers beyond 2^53 that collapse to one double are ties for jawk's order — outside C07's domain |n| < 2^53 —, and
        //  which of them comes first is left to the implementation: these cases are judged on their OUTCOME, see `differs`)
        let mut c = case(format!("C05-{id}-edgeorder"));
        match r.below(3) {
            0 => {
                // (not sort_unique: it sorts unstably, and integers beyond 2^53 that collapse to one double are ties that are not `==`:
                //  their relative order is unspecified there — outside C07's domain |n| < 2^53)
                for (j, e) in ["(sort .)", "(sort_by . .)", "(sort_by_values (map_values (fold . {} (put .so_far (stringify .index) .value)) .))", "(null? (sort_unique .))"].iter().enumerate() {
                    c.spec.selects.push(format!("{e}=s{j}"));
                }
                c.sources.push(stdin_src(format!("[{}]", items.join(",")).into_bytes()));
            }
            1 => {
                c.spec.sorts.push(if r.chance(50) { ".".into() } else { ". DESC".into() });
                if r.chance(50) { c.spec.unique = true; }
                c.sources.push(stdin_src(items.join("\n").into_bytes()));
            }
            _ => {
                c.spec.sorts.push(".k".into());
                c.spec.sorts.push(".j DESC".into());
                let rows: Vec<String> = items.iter().enumerate().map(|(i, v)| format!("{{\"k\":{v},\"j\":{},\"i\":{i}}}", items[(i * 7 + 3) % items.len()])).collect();
                c.sources.push(stdin_src(rows.join("\n").into_bytes()));
            }
        }
        let mut g = Group::new(vec![c]);
        g.labels.push("kind:sort-edge-long".into());
        return g;
    }
    if r.chance(50) {
        return crate::oracle_b::gen_c05_extra(r, id);
    }
    match r.below(3) {
        0 => {
            // malformed byte stream over the JSON-significant alphabet
            let alphabet: &[u8] = b"{}[]:,\"\\-+.eE01 \ntfnu/\xc3\xa9\xff";
            let n = if r.chance(10) { r.range(50, 4096) } else { r.range(0, 24) };
            let bytes: Vec<u8> = (0..n).map(|_| *r.pick(alphabet)).collect();
            let mut c = case(format!("C05-{id}"));
            c.spec.on_error = Some(r.ps(&["ignore", "panic", "stderr", "stdout"]).to_string());
            if r.chance(30) {
                c.spec.selects.push("(size .)=x".into());
            }
            c.sources.push(stdin_src(bytes));
            let mut g = Group::new(vec![c]);
            g.labels.push("kind:bytes".into());
            g
        }
        1 => {
            let eo = ExprOpts { ill_typed: 45, ..Default::default() };
            let mut g = { let d_ = r.range(1, 5); crate::oracle_b::safe_expr_case(r, id, "C05", &eo, d_) };
            g.labels.push("kind:ill-typed".into());
            g
        }
        _ => {
            // multi-byte characters at every offset of a string handed to the slicing functions
            let pad = r.below(41);
            let s: String = "a".repeat(pad) + r.ps(&["é", "日", "😃", "ÿ"]) + &"b".repeat(r.below(5));
            let f = r.ps(&["take", "take_last", "head", "tail", "sub", "size", "split", "concat", "parse", "parse_selection", "stringify"]);
            let n = r.pick(&[0usize, 1, 2, pad, pad + 1, pad + 2, 31, 32, 33, 40, 1000]).to_string();
            let lit = {
                let mut t = String::new();
                value::escape_canonical(&s, &mut t);
                t
            };
            let e = match f {
                "sub" => format!("(sub {lit} {n} {})", r.ps(&["0", "1", "2", "18446744073709551615"])),
                "size" | "parse" | "stringify" => format!("({f} {lit})"),
                "parse_selection" => format!("(parse_selection {})", {
                    let mut t = String::new();
                    value::escape_canonical(&format!("(concat {lit} \"x\")"), &mut t);
                    t
                }),
                "split" | "concat" => format!("({f} {lit} \"a\")"),
                _ => format!("({f} {lit} {n})"),
            };
            let mut c = case(format!("C05-{id}"));
            c.spec.selects.push(format!("{e}=x"));
            c.spec.utf8 = true;
            c.sources.push(stdin_src(b"1".to_vec()));
            let mut g = Group::new(vec![c]);
            g.tag = e;
            g.labels.push(format!("kind:multibyte:{f}"));
            g
        }
    }
}

// ---------------------------------------------------------------------------------- C06

pub fn garbage_token(r: &mut Rng) -> Vec<u8> {
    // bytes that are neither white space nor able to start a value
    let pool: Vec<u8> = (0u16..256)
        .map(|b| b as u8)
        .filter(|b| !b" \n\r\t\"-[{0123456789ntf".contains(b))
        .collect();
    let n = if r.chance(70) { 1 } else { r.range(2, 4) };
    (0..n).map(|_| if r.chance(50) { *r.pick(b"}],:.eE+x") } else { *r.pick(&pool) }).collect()
}

/// C06 noise token: ~30 % are ONE byte drawn uniformly from a short list of suspicious bytes
/// (control characters that some notions of "white space" swallow, bytes >= 0x80, JSON punctuation),
/// so that a malformed region often consists of a single byte class; the rest as `garbage_token`.
pub fn garbage_token_c06(r: &mut Rng) -> Vec<u8> {
    const SUSPICIOUS: &[u8] = &[0x0C, 0x0B, 0x00, 0x1F, 0x7F, 0x85, 0xA0, 0xC2, 0xFF, b'}', b']', b',', b':', b'.', b'e', b'E', b'+', b'x', b'/', b'\\'];
    if r.chance(30) {
        return vec![*r.pick(SUSPICIOUS)];
    }
    garbage_token(r)
}

/// one gap holding a LONG malformed region (tens of thousands of white-space delimited garbage tokens), run on a thread with a
/// small stack (see `cmd_worker`): whatever a reader does per malformed byte — a report it builds, a frame it pushes, a buffer
/// it grows — must stay bounded.  Only the policies that do not print one line per byte: ignore (same rows as the clean
/// stream, silent, success) and panic.  (The model needs time quadratic in the length of such a region — `Reader.nextJson`
/// measures the rest of the input for its fuel on every call —, hence tens of KiB and a small stack, not megabytes.)
fn gen_c06_huge_gap(r: &mut Rng, id: usize) -> Group {
    let total = r.range(40_000, 70_000);
    let mut noise: Vec<u8> = Vec::with_capacity(total + 16);
    let single = if r.chance(40) { Some(garbage_token_c06(r)) } else { None };
    let glued = r.chance(30);
    while noise.len() < total {
        match &single {
            Some(t) => noise.extend_from_slice(t),
            None => noise.extend_from_slice(&garbage_token_c06(r)),
        }
        if !glued || r.chance(1) {
            noise.push(*r.pick(b" \n"));
        }
    }
    noise.push(b'\n');
    let before = r.range(0, 2);
    let after = r.range(1, 3);
    let o = GenOpts::default();
    let vals: Vec<V> = (0..before + after).map(|_| value::gen_value(r, &o, 1)).collect();
    let mut clean: Vec<u8> = vec![];
    let mut noisy: Vec<u8> = vec![];
    for (i, v) in vals.iter().enumerate() {
        if i == before {
            noisy.extend_from_slice(&noise);
        }
        let t = value::render(v);
        clean.extend_from_slice(t.as_bytes());
        clean.push(b'\n');
        noisy.extend_from_slice(t.as_bytes());
        noisy.push(b'\n');
    }
    let mut cases = vec![];
    for (pol, which, bytes) in [("ignore", "noisy", &noisy), ("ignore", "clean", &clean), ("panic", "noisy", &noisy)] {
        let mut c = case(format!("C06-{id}-smallstack-{pol}-{which}"));
        c.spec.on_error = Some(pol.to_string());
        c.sources.push(stdin_src(bytes.clone()));
        cases.push(c);
    }
    let mut g = Group::new(cases);
    g.values = vals;
    g.tag = format!("huge-gap before={before}");
    g.nontrivial = true;
    g.labels.push("kind:huge-malformed-region".into());
    g
}

pub fn gen_c06(r: &mut Rng, id: usize) -> Group {
    if r.below(70) == 0 {
        return gen_c06_huge_gap(r, id);
    }
    let o = GenOpts::default();
    let n = r.range(1, 8);
    let vals: Vec<V> = (0..n).map(|_| value::gen_value(r, &o, 1)).collect();
    // clean stream, values separated by single newlines; noise is inserted at gaps, white-space delimited
    let mut clean: Vec<u8> = vec![];
    let mut noisy: Vec<u8> = vec![];
    // for every malformed region: the number of values in front of it
    let mut at: Vec<usize> = vec![];
    for (i, v) in vals.iter().enumerate() {
        let t = value::render(v);
        let mut gap_noise = |noisy: &mut Vec<u8>, r: &mut Rng, before: usize| {
            if r.chance(45) {
                let k = r.range(1, 2);
                // a region made of one repeated token (one byte class) now and then
                let same = if r.chance(35) { Some(garbage_token_c06(r)) } else { None };
                for _ in 0..k {
                    let tok = match &same {
                        Some(t) => t.clone(),
                        None => garbage_token_c06(r),
                    };
                    noisy.extend_from_slice(&tok);
                    noisy.push(*r.pick(b" \n"));
                }
                at.push(before);
            }
        };
        if i == 0 {
            gap_noise(&mut noisy, r, 0);
        }
        clean.extend_from_slice(t.as_bytes());
        clean.push(b'\n');
        noisy.extend_from_slice(t.as_bytes());
        noisy.push(b'\n');
        gap_noise(&mut noisy, r, i + 1);
    }
    let regions = at.len();
    let spec = {
        let mut s = Spec::default();
        match r.below(11) {
            // values the options make jawk skip are not errors: no report for them, under any policy
            9 => s.ooa = true,
            10 => {
                s.ooa = true;
                s.selects.push("(size .)=n".into());
            }
            // the ordinal of a value counts VALUES: malformed regions in front of it do not move it
            6 => {
                s.selects.push("&index=i".into());
                s.selects.push(".=v".into());
            }
            7 => {
                s.selects.push("&index-in-file=f".into());
                s.selects.push("(+ &index 0)=i".into());
            }
            8 => {
                s.filter = Some("(= 0 (% &index 2))".into());
            }
            0 => s.selects.push("(size .)=n".into()),
            1 => s.filter = Some("(not (null? .))".into()),
            2 => s.sorts.push(".".into()),
            3 => s.group = Some(None),
            4 => {
                s.unique = true;
                s.take = Some(3);
            }
            _ => {}
        }
        s
    };
    let mut cases = vec![];
    for pol in ["ignore", "stderr", "stdout", "panic"].iter() {
        for (which, bytes) in [("noisy", &noisy), ("clean", &clean)] {
            let mut c = case(format!("C06-{id}-{pol}-{which}"));
            c.spec = spec.clone();
            c.spec.on_error = Some(pol.to_string());
            c.sources.push(stdin_src(bytes.clone()));
            cases.push(c);
        }
    }
    let mut g = Group::new(cases);
    g.values = vals;
    // regions = number of malformed regions; first = values in front of the first one; at = values in front of each
    g.tag = format!(
        "regions={regions} first={} at={}",
        at.first().map(|x| x.to_string()).unwrap_or("-".into()),
        at.iter().map(|x| x.to_string()).collect::<Vec<_>>().join(",")
    );
    g.nontrivial = regions >= 2;
    g.labels.push(format!("regions:{}", bucket(regions)));
    g
}

// ---------------------------------------------------------------------------------- C07

/// thorough only: EVERY ordered pair of the universe (with a third value drawn at random) through the six comparison
/// functions and the two sort functions
pub fn c07_exhaustive_size() -> usize {
    let n = key_universe_large().len();
    n * n
}

pub fn gen_c07(r: &mut Rng, id: usize, thorough: bool) -> Group {
    let u = key_universe_large();
    let exhaustive = thorough && id < c07_exhaustive_size();
    if exhaustive || r.chance(35) {
        // order axioms / comparison functions on triples through the expression functions
        let (a, b) = if exhaustive { (u[id / u.len()].clone(), u[id % u.len()].clone()) } else { (r.pick(&u).clone(), r.pick(&u).clone()) };
        let c3 = r.pick(&u).clone();
        let rec = V::Obj(vec![("a".into(), a), ("b".into(), b), ("c".into(), c3)]);
        let mut c = case(format!("C07-{id}"));
        for (n, e) in [("ab", "(< .a .b)"), ("ba", "(< .b .a)"), ("le", "(<= .a .b)"), ("ge", "(>= .a .b)"), ("gt", "(> .a .b)"), ("bc", "(< .b .c)"), ("ac", "(< .a .c)"), ("eq", "(= .a .b)"),
                       ("s", "(sort (push [] .a .b .c))"), ("su", "(sort_unique (push [] .a .b .c .a))")] {
            c.spec.selects.push(format!("{e}={n}"));
        }
        c.spec.utf8 = true;
        c.sources.push(stdin_src(value::render(&rec).into_bytes()));
        let mut g = Group::new(vec![c]);
        g.values = vec![rec];
        g.tag = "triple".into();
        g.labels.push(if exhaustive { "kind:exhaustive-pairs".into() } else { "kind:triple".into() });
        return g;
    }
    if r.chance(8) {
        // the sort functions with a key that depends on the ENCLOSING record, over several records that share their list:
        // each record must be sorted by its own keys (nothing computed for one record may serve the next)
        let n = r.range(2, 9);
        let list: Vec<i128> = (0..n).map(|_| r.below(4) as i128).collect();
        let recs: Vec<V> = (0..r.range(2, 4)).map(|_| {
            let sign = if r.chance(50) { 1 } else { -1 };
            let p = if r.chance(50) { "a" } else { "b" };
            V::Obj(vec![("n".into(), V::Arr(list.iter().map(|x| V::Int(*x)).collect())), ("sign".into(), V::Int(sign)), ("p".into(), V::Str(p.into()))])
        }).collect();
        let mut c = case(format!("C07-{id}-ctx"));
        c.spec.selects.push("(sort_by .n (* . ^.sign))=s".into());
        c.spec.selects.push("(sort_by (push [] {\"a\":1,\"b\":2} {\"a\":2,\"b\":1} {\"a\":1,\"b\":3}) (get . ^.p))=t".into());
        c.spec.selects.push(".sign=sign".into());
        c.spec.selects.push(".p=p".into());
        let text: String = recs.iter().map(|v| value::render(v) + "\n").collect();
        c.sources.push(stdin_src(text.into_bytes()));
        let mut g = Group::new(vec![c]);
        g.values = recs;
        g.tag = "functions-ctx".into();
        g.nontrivial = true;
        g.labels.push("kind:functions-ctx".into());
        return g;
    }
    if r.chance(25) {
        // the sorting functions
        let big = r.chance(30);
        let n = if big { r.range(33, 60) } else { r.range(0, 8) };
        // long lists draw their keys from three values only, so that there are many ties
        let few: Vec<V> = (0..3).map(|_| r.pick(&u).clone()).collect();
        let l: Vec<V> = (0..n).map(|i| V::Obj(vec![("k".into(), if big { r.pick(&few).clone() } else { r.pick(&u).clone() }), ("i".into(), V::Int(i as i128))])).collect();
        let keys: Vec<V> = (0..n).map(|_| r.pick(&u).clone()).collect();
        let obj = V::Obj(l.iter().enumerate().map(|(i, v)| (format!("m{i}"), v.clone())).collect());
        let rec = V::Obj(vec![("l".into(), V::Arr(l)), ("p".into(), V::Arr(keys)), ("o".into(), obj)]);
        let mut c = case(format!("C07-{id}"));
        for (n, e) in [("sb", "(sort_by .l .k)"), ("so", "(sort .p)"), ("su", "(sort_unique .p)"), ("sv", "(sort_by_values_by .o .k)"), ("sk", "(sort_by_keys .o)"),
                       ("svv", "(sort_by_values (map_values .o .k))")] {
            c.spec.selects.push(format!("{e}={n}"));
        }
        c.spec.utf8 = true;
        c.sources.push(stdin_src(value::render(&rec).into_bytes()));
        let mut g = Group::new(vec![c]);
        g.values = vec![rec];
        g.tag = "functions".into();
        g.labels.push("kind:functions".into());
        return g;
    }
    let p = PipeOpts { sorts: true, force_sort: true, limit: false, group: false, unique: false, split: false, filter: false, select: false, sets: false, text: false, ..Default::default() };
    // include the integer literal -0 among the keys (reads as Negative(0))
    let mut rows = { let n_ = r.range(0, 40); gen_rows(r, n_, &u) };
    let mut text = String::new();
    for row in rows.iter_mut() {
        let mut t = value::render(row);
        if r.chance(6) {
            t = t.replacen("\"k\":0", "\"k\":-0", 1);
        }
        text.push_str(&t);
        text.push('\n');
    }
    let mut c = case(format!("C07-{id}"));
    c.spec = gen_pipe_spec(r, &p);
    c.spec.utf8 = true;
    c.sources.push(stdin_src(text.into_bytes()));
    let ties = {
        let mut ks: Vec<String> = rows.iter().filter_map(|v| get_key(v, "k").map(value::render)).collect();
        let n = ks.len();
        ks.sort();
        ks.dedup();
        n > ks.len() && ks.len() >= 2
    };
    let mut g = Group::new(vec![c]);
    g.values = rows;
    g.tag = "rows".into();
    g.nontrivial = ties;
    g.labels.push("kind:rows".into());
    g
}

// ---------------------------------------------------------------------------------- C08 / C09 / C10

/// thorough only: EVERY stream of 0..=4 records over 3 keys x S in 0..=3 x T in {absent, 0..=3} x
/// {no sort, sort asc, sort desc} x {none, group, merge}
pub fn c08_exhaustive_size() -> usize {
    (1 + 3 + 9 + 27 + 81) * 4 * 5 * 3 * 3
}
fn gen_c08_exhaustive(mut k: usize) -> Group {
    let grouping = k % 3; k /= 3;
    let sorting = k % 3; k /= 3;
    let t = k % 5; k /= 5;
    let s_ = k % 4; k /= 4;
    let mut len = 0;
    let mut block = 1;
    while k >= block { k -= block; block *= 3; len += 1; }
    let mut text = String::new();
    let mut kk = k;
    let mut keys = vec![0usize; len];
    for i in (0..len).rev() { keys[i] = kk % 3; kk /= 3; }
    for (i, key) in keys.iter().enumerate() {
        text.push_str(&format!("{{\"id\":{i},\"k\":{},\"g\":\"{}\"}}\n", ["1", "2", "null"][*key], ["a", "b", "a"][*key]));
    }
    let mut c = case(format!("C08-x{k}-{s_}-{t}-{sorting}-{grouping}-{len}"));
    c.spec.skip = s_ as u64;
    c.spec.take = if t == 0 { None } else { Some((t - 1) as u64) };
    match sorting { 1 => c.spec.sorts.push(".k".into()), 2 => c.spec.sorts.push(".k DESC".into()), _ => {} }
    match grouping { 1 => c.spec.group = Some(Some(".g".into())), 2 => c.spec.group = Some(None), _ => {} }
    if c.spec.skip == 0 && c.spec.take.is_none() { c.spec.take = Some(2); }
    c.sources.push(stdin_src(text.into_bytes()));
    let mut twin = c.clone();
    twin.id = format!("{}-unlimited", twin.id);
    twin.spec.skip = 0;
    twin.spec.take = None;
    let mut cases = vec![c.clone(), twin];
    if c.spec.group.is_some() {
        let mut t2 = c.clone();
        t2.id = format!("{}-ungrouped", t2.id);
        t2.spec.group = None;
        cases.push(t2);
    }
    let mut g = Group::new(cases);
    g.nontrivial = len >= 2;
    g.labels.push("kind:exhaustive-small".into());
    g
}

pub fn gen_c08(r: &mut Rng, id: usize, thorough: bool) -> Group {
    if thorough && id < c08_exhaustive_size() {
        return gen_c08_exhaustive(id);
    }
    let p = PipeOpts { force_limit: true, text: false, ..Default::default() };
    let mut g = gen_pipeline(r, id, "C08", &p, &key_universe_small(), 40);
    // option values at the edge of u64: S + T must not wrap or trap (rows S.. of a short result are no rows)
    if r.below(16) == 0 {
        let edge = [u64::MAX, u64::MAX - 1, 1u64 << 63, 1u64 << 32, u64::MAX - 3];
        if r.below(3) != 0 {
            g.cases[0].spec.skip = edge[r.below(edge.len())];
        }
        if r.below(3) == 0 {
            g.cases[0].spec.take = Some(edge[r.below(edge.len())]);
        } else if g.cases[0].spec.take.is_none() {
            g.cases[0].spec.take = Some(1 + r.below(4) as u64);
        }
        g.labels.push("kind:edge-u64".into());
    }
    // metamorphic twin: the same run without --skip/--take
    let mut twin = g.cases[0].clone();
    twin.id = format!("{}-unlimited", twin.id);
    twin.spec.skip = 0;
    twin.spec.take = None;
    // and, when grouping, the ungrouped limited run
    let mut cases = vec![g.cases[0].clone(), twin];
    if g.cases[0].spec.group.is_some() {
        let mut t2 = g.cases[0].clone();
        t2.id = format!("{}-ungrouped", t2.id);
        t2.spec.group = None;
        cases.push(t2);
    }
    g.cases = cases;
    g
}

pub fn gen_c09(r: &mut Rng, id: usize) -> Group {
    let p = PipeOpts { force_group: true, ..Default::default() };
    let mut g = gen_pipeline(r, id, "C09", &p, &key_universe_small(), 40);
    if r.chance(4) {
        // option values at the edge of u64 in front of the collector: whatever a stage sizes from --take / --skip, the one
        // collection still comes out (of all rows for a huge --take, of no rows for a huge --skip)
        let edge = [u64::MAX, u64::MAX - 1, 1u64 << 63, 1u64 << 40, 1_000_000_000_000u64];
        if r.chance(60) {
            g.cases[0].spec.take = Some(edge[r.below(edge.len())]);
        } else {
            g.cases[0].spec.skip = edge[r.below(edge.len())];
        }
        g.labels.push("kind:edge-u64".into());
    }
    let mut twin = g.cases[0].clone();
    twin.id = format!("{}-ungrouped", twin.id);
    twin.spec.group = None;
    if twin.spec.style.as_deref() == Some("csv") || twin.spec.style.as_deref() == Some("text") {
        // the ungrouped twin is observed as JSON rows
    }
    // the grouping key of every surviving row, observed through an extra selection is not possible
    // without changing the rows; the oracle recomputes keys from the ungrouped JSON rows when
    // nothing is selected, and otherwise checks count/containment.
    // a third run observes the grouping key of every surviving row through a selection of its own (the key expression means
    // the same as a selection: C13); with it the expected object follows from the rows alone
    let mut keyed = twin.clone();
    keyed.id = format!("{}-keys", g.cases[0].id);
    if let Some(Some(key)) = &g.cases[0].spec.group {
        keyed.spec.style = None;
        keyed.spec.jstyle = None;
        keyed.spec.selects.push(format!("{key}=__k"));
    }
    g.cases.push(twin);
    g.cases.push(keyed);
    g
}

/// thorough only: EVERY ordered pair of the pool's spellings as a stream `a b a b` under --unique, with what `=`
/// says about the pair
pub const C10_POOL_SIZE: usize = 69;
pub fn c10_exhaustive_size() -> usize {
    C10_POOL_SIZE * C10_POOL_SIZE
}

pub fn gen_c10(r: &mut Rng, id: usize, thorough: bool) -> Group {
    if !(thorough && id < c10_exhaustive_size()) && r.chance(8) {
        // rows are compared on their SELECTED values: selections that read more than the current input (the ordinal, the
        // enclosing record after --split-by) make rows with equal inputs different — and runs of equal inputs are the rule here
        let mut c = case(format!("C10-{id}-ctx"));
        c.spec.unique = true;
        let small = ["1", "2", "\"a\"", "[1]", "null"];
        let mut text = String::new();
        if r.chance(50) {
            for _ in 0..r.range(2, 12) {
                let v = r.pick(&small);
                for _ in 0..r.range(1, 3) {
                    text.push_str(v);
                    text.push('\n');
                }
            }
            c.spec.selects.push(r.ps(&["&index=i", "&index-in-file=i", "(+ &index 1)=i"]).to_string());
            c.spec.selects.push(".=v".into());
        } else {
            for i in 0..r.range(2, 6) {
                let items: Vec<&str> = (0..r.range(1, 4)).map(|_| *r.pick(&small)).collect();
                let items: Vec<&str> = items.iter().flat_map(|x| std::iter::repeat(*x).take(r.range(1, 2))).collect();
                text.push_str(&format!("{{\"id\":{},\"l\":[{}]}}\n", i % 2 + r.below(2), items.join(",")));
            }
            c.spec.split = Some(".l".into());
            c.spec.selects.push("^.id=p".into());
            c.spec.selects.push(".=v".into());
        }
        c.sources.push(stdin_src(text.into_bytes()));
        let mut twin = c.clone();
        twin.id = format!("{}-nounique", twin.id);
        twin.spec.unique = false;
        let mut g = Group::new(vec![c, twin]);
        g.tag = "ctx-unique".into();
        g.nontrivial = true;
        g.labels.push("kind:ctx-unique".into());
        return g;
    }
    let forced: Option<(usize, usize)> = if thorough && id < c10_exhaustive_size() { Some((id / C10_POOL_SIZE, id % C10_POOL_SIZE)) } else { None };
    // universe with many repeats and numerically equal spellings; serialised with spelling variety
    let spell_pool: &[&str] = &["1", "1.0", "1e0", "10e-1", "2", "2.0", "\"a\"", "\"\\u0061\"", "\"b\"", "null", "true", "[1,2]", "[1.0,2]", "[1, 2]", "{\"a\":1}", "{\"a\":1.0}", "{\"a\": 1}",
                              "0.5", "5e-1", "\"\"", "[]", "{}", "[[1]]", "[[1.0]]", "\"é\"", "\"\\u00e9\"", "100", "1e2", "1E2",
                              // zero in its (non-negative) spellings: all the same number
                              "0", "0.0", "0e0", "0.00", "0E3", "[0,1]", "[0.0,1]", "{\"a\":0}", "{\"a\":0.0}",
                              // neighbouring doubles: different numbers, however close
                              "0.3", "0.30000000000000004", "[0.3]", "[0.30000000000000004]", "{\"a\":0.3}", "{\"a\":0.30000000000000004}", "1e-20", "2e-20",
                              "0.1", "0.10000000000000002", "3e-1",
                              // different values made of the same scalars in the same order: nested versus hoisted, split versus joined
                              "{\"a\":{\"b\":1}}", "{\"a\":{},\"b\":1}", "[[1,2],3]", "[[1],2,3]", "[[1,2,3]]", "[\"ab\",\"c\"]", "[\"a\",\"bc\"]",
                              "{\"k\":{\"x\":1,\"y\":2}}", "{\"k\":{\"x\":1},\"y\":2}", "[[],[1]]", "[[1],[]]",
                              // integers beyond 32 bits and at 2^53 in the spellings that denote exactly them: the same number
                              "5000000000", "5e9", "5000000000.0", "4294967295", "4.294967295e9", "[4294967296,1]", "[4.294967296e9,1]",
                              "9007199254740992", "9007199254740992.0"];
    assert_eq!(spell_pool.len(), C10_POOL_SIZE);
    let n = if forced.is_some() { 4 } else { r.range(0, 40) };
    let mut text = String::new();
    let selections = if forced.is_some() { id % 2 } else { r.below(3) };
    // which spelling every row carries in `k` / `j` (None = member absent): the oracle needs it
    let mut row_keys: Vec<(Option<usize>, Option<usize>)> = vec![];
    // a run draws from a small part of the pool, so that every pair of its spellings can be put to `=`
    let sub: Vec<usize> = match forced { Some((a, b)) => vec![a, b], None => (0..r.range(2, 9)).map(|_| r.below(spell_pool.len())).collect() };
    for i in 0..n {
        let ki = match forced { Some((a, b)) => if i % 2 == 0 { a } else { b }, None => *r.pick(&sub) };
        let k = spell_pool[ki];
        if selections > 0 {
            let mut fields = vec![];
            let mut rk = (None, None);
            if r.chance(85) {
                fields.push(format!("\"k\":{k}"));
                rk.0 = Some(ki);
            }
            if r.chance(70) {
                let ji = *r.pick(&sub);
                fields.push(format!("\"j\":{}", spell_pool[ji]));
                rk.1 = Some(ji);
            }
            row_keys.push(rk);
            text.push_str(&format!("{{\"id\":{i},{}}}\n", fields.join(",")).replace(",}", "}"));
        } else {
            row_keys.push((Some(ki), None));
            text.push_str(k);
            text.push('\n');
        }
    }
    let mut c = case(format!("C10-{id}"));
    c.spec.unique = true;
    // (now and then both selections under ONE title: the printed object then shows the last one only, but rows are compared
    //  on the selected values, column by column)
    let same_title = selections >= 2 && r.chance(30);
    if selections >= 1 {
        c.spec.selects.push(if same_title { ".k=v".into() } else { ".k=k".into() });
    }
    if selections >= 2 {
        c.spec.selects.push(if same_title { ".j=v".into() } else { ".j=j".into() });
    }
    if same_title {
        // csv shows every column (and quotes strings), so that the kept rows can be told apart in the output
        c.spec.style = Some("csv".into());
    }
    if r.chance(25) {
        c.spec.filter = Some("(not (null? .))".into());
    }
    c.sources.push(stdin_src(text.into_bytes()));
    let mut twin = c.clone();
    twin.id = format!("{}-nounique", twin.id);
    twin.spec.unique = false;
    // third case: what `=` says about every pair of spellings of this run
    let mut used: Vec<usize> = sub.clone();
    used.sort();
    used.dedup();
    let mut pairs: Vec<(usize, usize)> = vec![];
    let mut ptext = String::new();
    for (x, a) in used.iter().enumerate() {
        for b in used.iter().skip(x + 1) {
            pairs.push((*a, *b));
            ptext.push_str(&format!("{{\"a\":{},\"b\":{}}}\n", spell_pool[*a], spell_pool[*b]));
        }
    }
    let mut eqc = case(format!("C10-{id}-eq"));
    eqc.spec.selects.push("(= .a .b)=e".into());
    eqc.sources.push(stdin_src(ptext.into_bytes()));
    let filter_nulls = c.spec.filter.is_some();
    let mut g = Group::new(vec![c, twin, eqc]);
    g.nontrivial = n >= 4;
    g.tag = format!(
        "sel={selections};fn={};pairs={};rows={}",
        filter_nulls as u8,
        pairs.iter().map(|(a, b)| format!("{a}-{b}")).collect::<Vec<_>>().join(","),
        row_keys.iter().map(|(k, j)| format!("{}/{}", k.map(|x| x.to_string()).unwrap_or("-".into()), j.map(|x| x.to_string()).unwrap_or("-".into())))
            .collect::<Vec<_>>().join(",")
    );
    // spelling index of `null` (rows dropped by the filter when nothing is selected)
    g.labels.push(format!("selections:{selections}"));
    g.labels.push(format!("rows:{}", bucket(n)));
    if forced.is_some() {
        g.labels.push("kind:exhaustive-pairs".into());
    }
    g
}

/// index of the spelling `null` in gen_c10's pool
const C10_NULL_SPELLING: usize = 9;

// ---------------------------------------------------------------------------------- C11

pub fn stateless_spec(r: &mut Rng) -> Spec {
    let p = PipeOpts { sorts: false, limit: false, group: false, unique: false, ..Default::default() };
    let mut s = gen_pipe_spec(r, &p);
    if r.chance(40) {
        let eo = ExprOpts { bindings: true, ..Default::default() };
        // (RESOURCE RULE: `range` applied to anything but a small literal can ask for 2^64 items)
        let mut e = { let mut g = Gen::new(r, &eo); g.expr(Ty::Any, 2) };
        for _ in 0..20 {
            if !crate::oracle_b::risky_range(&e) { break; }
            e = { let mut g = Gen::new(r, &eo); g.expr(Ty::Any, 2) };
        }
        if crate::oracle_b::risky_range(&e) { e = ".k".into(); }
        s.selects.push(format!("{e}=gen"));
        if s.style.as_deref() == Some("csv") && s.selects.is_empty() {
            s.style = None;
        }
    }
    s
}

/// records whose split elements repeat across record boundaries while their parents differ, and objects
/// that are `==` but list their members in a different order: per-record behaviour must not depend on
/// the record processed just before
fn gen_c11_parent_rows(r: &mut Rng, n: usize) -> Vec<V> {
    let elems = [V::Int(1), V::Int(2), V::Obj(vec![("a".into(), V::Int(1)), ("b".into(), V::Int(2))]),
                 V::Obj(vec![("b".into(), V::Int(2)), ("a".into(), V::Int(1))]), V::Str("x".into())];
    (0..n)
        .map(|i| {
            let k = r.range(0, 3);
            let items: Vec<V> = (0..k).map(|_| r.pick(&elems).clone()).collect();
            V::Obj(vec![("id".into(), V::Int(i as i128)), ("keep".into(), V::Bool(r.chance(50))), ("k".into(), r.pick(&elems).clone()), ("items".into(), V::Arr(items))])
        })
        .collect()
}

/// the same value with the members of every object in reverse order: equal by `=`, another text
fn perm_twin(v: &V) -> V {
    match v {
        V::Obj(kvs) => V::Obj(kvs.iter().rev().map(|(k, x)| (k.clone(), perm_twin(x))).collect()),
        V::Arr(xs) => V::Arr(xs.iter().map(perm_twin).collect()),
        x => x.clone(),
    }
}

pub fn gen_c11(r: &mut Rng, id: usize) -> Group {
    let u = key_universe_small();
    let special = r.chance(25);
    // long streams of small records full of empty and nested containers: whatever the reader or a stage accumulates
    // per record (depth counters, caches, buffers) must not leak into the records that follow
    let long = !special && r.chance(12);
    let long_rows = |r: &mut Rng, n: usize| -> Vec<V> {
        (0..n).map(|i| match r.below(7) {
            0 => V::Arr(vec![]),
            1 => V::Obj(vec![]),
            2 => V::Obj(vec![("id".into(), V::Int(i as i128)), ("k".into(), V::Arr(vec![])), ("l".into(), V::Obj(vec![]))]),
            3 => V::Arr(vec![V::Arr(vec![]), V::Obj(vec![]), V::Arr(vec![V::Obj(vec![])])]),
            4 => { let mut v = V::Arr(vec![]); for _ in 0..r.range(2, 30) { v = V::Arr(vec![v]); } v }
            5 => { let mut v = V::Obj(vec![]); for d in 0..r.range(2, 20) { v = V::Obj(vec![(format!("d{d}"), v)]); } v }
            _ => gen_rows(r, 1, &u).pop().unwrap(),
        }).collect()
    };
    let a = if special { let n_ = r.range(1, 8); gen_c11_parent_rows(r, n_) } else if long { let n_ = r.range(30, 120); long_rows(r, n_) } else { let n_ = r.range(0, 20); gen_rows(r, n_, &u) };
    let b = if special { let n_ = r.range(1, 8); gen_c11_parent_rows(r, n_) } else if long { let n_ = r.range(30, 120); long_rows(r, n_) } else { let n_ = r.range(0, 20); gen_rows(r, n_, &u) };
    // small rows and rows of several KiB side by side, in every output style: whatever the output stage batches, rows leave in
    // the order of the records
    let bigrows = !special && !long && r.chance(3);
    let big_rows = |r: &mut Rng, n: usize| -> Vec<V> {
        (0..n).map(|i| {
            let len = if r.chance(35) { r.range(4090, 5200) } else { r.range(0, 30) };
            V::Obj(vec![("id".into(), V::Int(i as i128)), ("k".into(), V::Str(r.ps(&["x", "y", "é"]).repeat(len)))])
        }).collect()
    };
    let (a, b) = if bigrows { let na = r.range(1, 6); let nb = r.range(1, 6); (big_rows(r, na), big_rows(r, nb)) } else { (a, b) };
    // streams of tens of KiB made almost entirely of LONG digit runs (integers of 15..20 digits, long fractions, exponents):
    // whatever block size the reader uses, digit runs straddle its block boundaries, at other offsets in A.B than in B alone
    let longnums = !special && !long && !bigrows && r.chance(3);
    let num_rows = |r: &mut Rng, bytes: usize| -> Vec<V> {
        let mut out = vec![];
        let mut size = 0usize;
        while size < bytes {
            let v = match r.below(6) {
                0 => V::Int((r.next() >> r.below(8) as u32) as i128),
                1 => V::Int(-((r.next() >> (1 + r.below(8) as u32)) as i128)),
                2 => value::norm_float((r.next() >> 11) as f64 / 9007199254740992.0),
                3 => value::norm_float(((r.next() >> 11) as f64 / 9007199254740992.0) * 1e-200),
                4 => V::Arr((0..r.below(3)).map(|_| V::Int((r.next() >> 2) as i128)).collect()),
                _ => V::Int((r.next() % 10_000_000_000_000_000_000u64) as i128),
            };
            size += value::render(&v).len() + 1;
            out.push(v);
        }
        out
    };
    let (a, b) = if longnums { let na = r.range(5_000, 20_000); let nb = r.range(200, 12_000); (num_rows(r, na), num_rows(r, nb)) } else { (a, b) };
    // records that SHARE their parts (the same list, the same subject string) but differ in what the expressions read from the
    // enclosing record: a value computed for a part of one record must not be reused for the equal part of another
    let ctxdep = !special && !long && !bigrows && r.chance(14);
    let ctx_rows = |r: &mut Rng, n: usize| -> Vec<V> {
        (0..n).map(|_| V::Obj(vec![
            ("k".into(), V::Int(r.below(4) as i128)),
            ("sign".into(), V::Int(if r.chance(50) { 1 } else { -1 })),
            ("l".into(), V::Arr(vec![V::Int(1), V::Int(2), V::Int(3), V::Int(2)])),
            ("s".into(), V::Str(r.ps(&["abc", "xb", "a1"]).into())),
            ("p".into(), V::Str(r.ps(&["^a", "b$", "[0-9]", "c"]).into())),
        ])).collect()
    };
    let (a, b) = if ctxdep { let na = r.range(1, 5); let nb = r.range(1, 5); (ctx_rows(r, na), ctx_rows(r, nb)) } else { (a, b) };
    // runs of records that are EQUAL to their predecessor (`=`, and the equality of the implementation, ignore member order) without
    // being the same text: whatever a stage remembers about the previous record, the rows of this one are made from this one
    let twins = !special && !long && !bigrows && !ctxdep && r.chance(10);
    let twin_rows = |r: &mut Rng, n: usize| -> Vec<V> {
        let ab = V::Obj(vec![("a".into(), V::Int(1)), ("b".into(), V::Int(2))]);
        let base = [ab.clone(), V::Arr(vec![ab.clone()]), V::Arr(vec![ab.clone(), V::Int(3), ab.clone()]),
                    V::Obj(vec![("a".into(), V::Obj(vec![("x".into(), V::Int(1)), ("y".into(), V::Arr(vec![V::Int(1), ab.clone()]))])), ("b".into(), V::Str("s".into()))]),
                    V::Obj(vec![("k".into(), V::Str("é".into())), ("id".into(), V::Int(7)), ("l".into(), V::Arr(vec![]))])];
        let mut out = vec![];
        for _ in 0..n {
            let v = r.pick(&base).clone();
            out.push(v.clone());
            if r.chance(75) {
                out.push(perm_twin(&v));
            }
            if r.chance(30) {
                out.push(v);
            }
        }
        out
    };
    let (a, b) = if twins { let na = r.range(1, 4); let nb = r.range(1, 4); (twin_rows(r, na), twin_rows(r, nb)) } else { (a, b) };
    let spec = if twins {
        let mut s = Spec::default();
        match r.below(7) {
            0 => {}
            1 => { s.split = Some("(keys .)".into()); s.style = Some("text".into()); }
            2 => s.split = Some(".".into()),
            3 => { s.selects.push("(stringify .)=s".into()); s.selects.push("(keys .)=k".into()); }
            4 => { s.selects.push("(values .)=v".into()); s.selects.push(".=w".into()); }
            5 => { s.filter = Some("(= (get (keys .) 0) \"a\")".into()); }
            _ => { s.split = Some("(entries .)".into()); s.selects.push(".=e".into()); }
        }
        s
    } else if bigrows {
        let mut s = Spec::default();
        s.selects.push(".id=id".into());
        s.selects.push(".k=k".into());
        match r.below(4) {
            0 => s.style = Some("text".into()),
            1 => s.style = Some("csv".into()),
            2 => { s.style = Some("text".into()); s.headers = true; }
            _ => {}
        }
        s
    } else if ctxdep {
        let mut s = Spec::default();
        s.sets.push("@addk=(+ . ^.k)".into());
        s.sets.push("@cmp=(> . ^.k)".into());
        let pool = ["(map .l (+ . ^.k))", "(filter .l (> . ^.k))", "(sort_by .l (* . ^.sign))", "(match .s .p)", "(map .l @addk)", "(filter .l @cmp)",
                    "(group_by .l (stringify (> . ^.k)))", "(map .l (| . (+ . ^^^.k)))", "(extract_regex_group .s .p 0)"];
        if r.chance(50) {
            s.cache = Some(r.range(1, 4));
        }
        if r.chance(30) {
            s.split = Some(".l".into());
            s.selects.push("(+ . ^.k)=x".into());
            s.selects.push("@addk=y".into());
            s.selects.push("(* . ^.sign)=z".into());
        } else {
            for j in 0..r.range(2, 4) {
                s.selects.push(format!("{}=c{j}", r.pick(&pool)));
            }
        }
        s
    } else if longnums {
        let mut s = Spec::default();
        match r.below(4) {
            0 => {}
            1 => { s.selects.push(".=value".into()); s.selects.push("(number? .)=is_number".into()); }
            2 => { s.style = Some("text".into()); s.selects.push(".=v".into()); }
            _ => { s.filter = Some("(number? .)".into()); }
        }
        s
    } else if special {
        let mut s = Spec::default();
        match r.below(3) {
            0 => {
                s.split = Some(".items".into());
                s.filter = Some("^.keep".into());
            }
            1 => {
                s.split = Some(".items".into());
                s.filter = Some("(= ^.k .)".into());
                s.selects.push("^.id=parent".into());
            }
            _ => {
                s.filter = Some("(= (stringify .k) \"{\\\"a\\\": 1, \\\"b\\\": 2}\")".into());
            }
        }
        s.selects.push(".=v".into());
        s
    } else {
        stateless_spec(r)
    };
    // what the regex crate says about every (subject, pattern) of these records: handed to the model as facts
    let mut facts: Vec<(String, Vec<String>, Option<String>)> = vec![];
    if ctxdep {
        let q = |t: &str| format!("\"{t}\"");
        for sj in ["abc", "xb", "a1"] {
            for pt in ["^a", "b$", "[0-9]", "c"] {
                let re = regex::Regex::new(pt).unwrap();
                facts.push(("match".into(), vec![q(sj), q(pt)], Some(if re.is_match(sj) { "true".into() } else { "false".into() })));
                let g0 = re.captures(sj).and_then(|c| c.get(0).map(|m| q(m.as_str())));
                facts.push(("extract_regex_group".into(), vec![q(sj), q(pt), "0".into()], g0));
            }
        }
    }
    let mk = |name: &str, rows: &[V], r: &mut Rng| {
        let mut c = case(format!("C11-{id}-{name}"));
        c.spec = spec.clone();
        c.orc = facts.clone();
        let (bytes, _) = stream_of(r, rows, false);
        let mut bytes = bytes;
        if !bytes.is_empty() {
            bytes.push(b'\n');
        }
        c.sources.push(stdin_src(bytes));
        c
    };
    let mut ab = a.clone();
    ab.extend(b.iter().cloned());
    let mut rev = a.clone();
    rev.reverse();
    let mut dup = a.clone();
    dup.extend(a.iter().cloned());
    let mut cases = vec![mk("A", &a, r), mk("B", &b, r), mk("AB", &ab, r), mk("revA", &rev, r), mk("AA", &dup, r)];
    if twins || (!long && !bigrows && a.len() <= 6 && r.chance(15)) {
        for (i, rec) in a.iter().enumerate() {
            cases.push(mk(&format!("rec{i}"), std::slice::from_ref(rec), r));
        }
    }
    let mut g = Group::new(cases);
    g.nontrivial = !a.is_empty() && !b.is_empty();
    g.labels.push(format!("style:{}", spec.style.clone().unwrap_or("json".into())));
    if long {
        g.labels.push("kind:long-stream".into());
    }
    if ctxdep {
        g.labels.push("kind:shared-parts".into());
    }
    if bigrows {
        g.labels.push("kind:big-rows".into());
    }
    if twins {
        g.labels.push("kind:equal-neighbours".into());
    }
    if longnums {
        g.labels.push("kind:long-digit-runs".into());
    }
    g
}

// ---------------------------------------------------------------------------------- C12

pub fn gen_c12(r: &mut Rng, id: usize) -> Group {
    // e uses ^ / ^^ under map / filter / pipe; the bound form must equal the substituted form
    let inner: &[&str] = &["^.name", "^^.name", "(concat ^.name \"-\" (stringify .))", "(size ^.arr)", "^.k", "(= . ^.one)", "(+ . ^.one)", "^", "(get ^.arr 0)", "(| . ^.name)", "(| ^.arr (size .))"];
    let body = r.pick(inner).to_string();
    let val_lits: &[&str] = &["1", "\"v\"", "[1, 2]", "{\"q\": 1}", "null"];
    let x = r.pick(val_lits).to_string();
    let uses_var = r.chance(60);
    let (bound, plain) = match r.below(10) {
        // a reference directly followed by the comma that separates arguments: the name ends there
        7 => (format!("(map .arr (set \"x\" {x} (push [] :x, {body})))"), format!("(map .arr (push [] {x}, {body}))")),
        8 => (format!("(map .arr (define \"m\" {body} (push [] @m, @m,1)))"), format!("(map .arr (push [] {body}, {body},1))")),
        9 => (format!("(map .arr (set \"x\" {x} (? (null? :x),:x,:x)))"), format!("(map .arr (? (null? {x}),{x},{x}))")),
        // a macro defined while :x has one value and USED where :x has been bound again: the body reads the binding current where
        // it is used (macro bodies are late bound: finding F21) — in particular it is not frozen at the definition
        5 => (format!("(map .arr (set \"x\" 1 (define \"m\" (push [] :x {body}) (set \"x\" {x} @m))))"), format!("(map .arr (push [] {x} {body}))")),
        6 => (format!("(set \"x\" 0 (define \"m\" :x (map .arr (set \"x\" . (push [] @m {body})))))"), format!("(map .arr (push [] . {body}))")),
        0 => {
            // (set "x" v e) with e not mentioning :x  ==  e
            (format!("(map .arr (set \"x\" {x} {body}))"), format!("(map .arr {body})"))
        }
        1 if uses_var => (format!("(map .arr (set \"x\" {x} (push [] {body} :x)))"), format!("(map .arr (push [] {body} {x}))")),
        2 => (format!("(filter .arr (define \"m\" {body} (not (empty? @m))))"), format!("(filter .arr (not (empty? {body})))")),
        3 => (format!("(map .arr (define \"m\" {body} (push [] @m @m)))"), format!("(map .arr (push [] {body} {body}))")),
        _ => {
            // nested and shadowing
            (format!("(map .arr (set \"x\" 0 (set \"x\" {x} (push [] :x {body}))))"), format!("(map .arr (push [] {x} {body}))"))
        }
    };
    // (the last record shares its elements with the first one, under another name, number and list: what a binding means for an
    // element of one record must not be remembered for the equal element of another)
    let rec = "{\"name\": \"n\", \"one\": 1, \"k\": [true], \"arr\": [1, 2, \"s\"]}\n{\"name\": \"é\", \"one\": 2, \"arr\": []}\n{\"arr\": [3]}\n{\"name\": \"m\", \"one\": 7, \"k\": [false, 0], \"arr\": [2, 1, 1, \"s\"]}";
    let mut c = case(format!("C12-{id}"));
    // position among 1..4 selects: every select must see the same input and parents
    let pos = r.below(3);
    for i in 0..pos {
        c.spec.selects.push(format!(".name=p{i}"));
    }
    c.spec.selects.push(format!("{bound}=bound"));
    c.spec.selects.push(format!("{plain}=plain"));
    if r.chance(45) {
        // --set forms: variable and macro predefined on the command line
        // (now and then the variable and the macro carry the SAME name: `:n` and `@n` are two namespaces)
        let (vn, mn) = if r.chance(35) { ("same", "same") } else { ("pv", "pm") };
        c.spec.sets.push(format!("{vn}={x}"));
        c.spec.sets.push(format!("@{mn}={body}"));
        c.spec.selects.push(format!("(map .arr (push [] :{vn} @{mn}))=bound2"));
        c.spec.selects.push(format!("(map .arr (push [] {x} {body}))=plain2"));
    }
    if r.chance(30) {
        // every --select sees the same input and parents as the first one, also after --split-by
        c.spec.split = Some(".arr".into());
        let e = r.ps(&["^.name", "(concat ^.name \"!\")", "(map (push [] 1) ^^.name)", "(set \"q\" 1 ^.one)"]).to_string();
        c.spec.selects.insert(0, format!("{e}=viaSplit0"));
        c.spec.selects.push(format!("{e}=viaSplit"));
    }
    if r.chance(40) {
        // (| a b): b sees a's value as input and the previous input as its parent; the inputs further out stay where
        // they were, one level up — each pipe form against the same expression written without the pipe
        let pipes: &[(&str, &str)] = &[
            // the documented chain of `pipe.rs`: the pipe first repeats its input as a frame of its own (so in the FIRST
            // stage `^` is the input again and `^^` the enclosing input), then every stage pushes the value before it
            ("(| .one ^.name)", ".name"),
            ("(| .one ^^.name)", ".name"),
            ("(| .one (| ^^.arr ^^^^.name))", ".name"),
            ("(| .one (| ^^.arr (size .)))", "(size .arr)"),
            ("(| .one (+ . 1))", "(+ .one 1)"),
            ("(map .arr (| (stringify .) ^^^.name))", "(map .arr ^.name)"),
            ("(map .arr (| (stringify .) ^))", "(map .arr .)"),
            ("(| .arr (map . ^^.name))", "(map .arr ^.name)"),
            ("(| .arr (map . (| . ^^^^^.one)))", "(map .arr ^.one)"),
            ("(filter .arr (| . (= ^^^.one 1)))", "(filter .arr (= ^.one 1))"),
            ("(| .arr (| (size .) (push [] . ^ ^^^^.name)))", "(push [] (size .arr) .arr .name)"),
            ("(set \"x\" 5 (| .one (+ . :x)))", "(+ .one 5)"),
            ("(| .one (set \"x\" ^.name (push [] . :x ^.name)))", "(push [] .one .name .name)"),
        ];
        let (pe, eq) = *r.pick(pipes);
        // (a pipe whose first stage is nothing is nothing: compare on the records that have every member used)
        c.spec.selects.push(format!("(? (and (string? .name) (number? .one)) {pe} \"skip\")=bound3"));
        c.spec.selects.push(format!("(? (and (string? .name) (number? .one)) {eq} \"skip\")=plain3"));
    }
    if r.chance(35) {
        // bindings whose VALUE comes from the record (so it differs from record to record), and bodies that read an earlier
        // selection by name: still nothing but substitution
        let guard = "(and (string? .name) (number? .one))";
        let pairs4: &[(&str, &str)] = &[
            ("(define \"m\" /sel0/ (push [] @m 1))", "(push [] /sel0/ 1)"),
            ("(set \"x\" .one (map .arr (push [] . :x)))", "(map .arr (push [] . ^.one))"),
            ("(set \"x\" .name (define \"m\" (concat :x \"!\") @m))", "(concat .name \"!\")"),
            ("(set \"x\" .one (push [] :x :x (set \"x\" .name :x) :x))", "(push [] .one .one .name .one)"),
            ("(define \"m\" (concat /sel0/ .name) (set \"y\" 1 @m))", "(concat /sel0/ .name)"),
        ];
        let (b4, p4) = *r.pick(pairs4);
        c.spec.selects.insert(0, ".name=sel0".into());
        c.spec.selects.push(format!("(? {guard} {b4} \"skip\")=bound4"));
        c.spec.selects.push(format!("(? {guard} {p4} \"skip\")=plain4"));
    }
    c.sources.push(stdin_src(rec.as_bytes().to_vec()));
    let mut g = Group::new(vec![c]);
    g.tag = "pairs".into();
    g.nontrivial = body.contains('^');
    g
}

// ---------------------------------------------------------------------------------- C13

/// C13, cache size: the same regex expressions over records whose patterns vary and interleave, under
/// `--regular-expression-cache-size` 0, 1, 2, 3 and 64 — the five outputs must be identical.  The model is
/// given the match facts computed with the `regex` crate directly (not through jawk).
pub fn gen_c13_cache(r: &mut Rng, id: usize) -> Group {
    let pats = ["^a", "b$", "[0-9]+", "^(x)(y)?", "o.o", "(", "é"];
    let subjects = ["abc", "xb", "a1b22", "xy", "foo", "", "héé", "x"];
    let k = r.range(2, 4);
    let chosen: Vec<&str> = (0..k).map(|_| *r.pick(&pats)).collect();
    let n = r.range(3, 12);
    let recs: Vec<(String, String)> = (0..n).map(|_| (r.pick(&subjects).to_string(), r.pick(&chosen).to_string())).collect();
    let mut bytes = vec![];
    for (s_, p_) in &recs {
        bytes.extend_from_slice(format!("{{\"s\":{},\"p\":{}}}\n", value::render(&V::Str(s_.clone())), value::render(&V::Str(p_.clone()))).as_bytes());
    }
    let disp = |t: &str| -> String {
        let mut out = String::from("\"");
        for ch in t.chars() {
            match ch {
                '"' => out.push_str("\\\""),
                '\\' => out.push_str("\\\\"),
                '/' => out.push_str("\\/"),
                c if (' '..='~').contains(&c) => out.push(c),
                c => out.push_str(&format!("\\u{:04x}", c as u32)),
            }
        }
        out.push('"');
        out
    };
    let mut facts: Vec<(String, Vec<String>, Option<String>)> = vec![];
    for (s_, p_) in &recs {
        let re = regex::Regex::new(p_).ok();
        let m = re.as_ref().map(|re| if re.is_match(s_) { "true".to_string() } else { "false".to_string() });
        facts.push(("match".into(), vec![disp(s_), disp(p_)], m));
        let g1 = re.as_ref().and_then(|re| re.captures(s_)).and_then(|c| c.get(1).map(|m| disp(m.as_str())));
        facts.push(("extract_regex_group".into(), vec![disp(s_), disp(p_), "1".into()], g1));
    }
    facts.sort();
    facts.dedup();
    let mut cases = vec![];
    for cache in [0usize, 1, 2, 3, 64] {
        let mut c = case(format!("C13-{id}-cache{cache}"));
        c.spec.selects.push("(match .s .p)=m".into());
        c.spec.selects.push("(extract_regex_group .s .p 1)=g".into());
        if r.chance(50) {
            c.spec.filter = Some("(default (match_regex .s \"[a-z]\") true)".into());
        }
        c.spec.cache = Some(cache);
        c.orc = facts.clone();
        if c.spec.filter.is_some() {
            for (s_, _) in &recs {
                let m = if regex::Regex::new("[a-z]").unwrap().is_match(s_) { "true" } else { "false" };
                c.orc.push(("match".into(), vec![disp(s_), disp("[a-z]")], Some(m.to_string())));
            }
            c.orc.sort();
            c.orc.dedup();
        }
        c.sources.push(stdin_src(bytes.clone()));
        cases.push(c);
    }
    // all five share the filter choice of the first
    let f0 = cases[0].spec.filter.clone();
    let o0 = cases[0].orc.clone();
    for c in cases.iter_mut() {
        c.spec.filter = f0.clone();
        c.orc = o0.clone();
    }
    let mut g = Group::new(cases);
    g.tag = "cache".into();
    g.nontrivial = k >= 2 && n >= 3;
    g.labels.push("position:cache-size".into());
    g
}

/// C13, separators after bindings: `:var` and `@macro` arguments followed by a comma instead of a blank
pub fn gen_c13_bindings(r: &mut Rng, id: usize) -> Group {
    let (canon, respelled) = match r.below(13) {
        // the sugar `:name` / `@name` against the call form, under the canonical name and under its alias, with literal arguments
        6 => ("(+ :n .a)", "(+ (: \"n\") .a)"),
        7 => ("(+ :n .a)", "(+ (get_variable \"n\") .a)"),
        8 => ("(push [] :n :s .a)", "(push [] (get_variable \"n\"), (: \"s\") .a)"),
        9 => ("(| .a @inc @inc)", "(| .a (@ \"inc\") @inc)"),
        10 => ("(set \"q\" .a (+ :q :n))", "(set \"q\" .a (+ (get_variable \"q\") (get_variable \"n\")))"),
        11 => ("(define \"d\" (+ . :n) (| .a @d))", "(macro \"d\" (+ . (get_variable \"n\")) (| .a (@ \"d\")))"),
        12 => ("(map .l (+ :n .))", "(map .l (+ (get_variable \"n\") .))"),
        0 => ("(+ :n .a)", "(+ :n, .a)"),
        1 => ("(+ :n .a)", "(+ :n,.a)"),
        2 => ("(| .a @inc @inc)", "(| .a, @inc, @inc)"),
        3 => ("(push [] :n :s .a)", "(push [],:n,:s,.a)"),
        4 => ("(map .l (+ :n .))", "(map .l, (+ :n, .))"),
        _ => ("(? (= :n 5) @inc :s)", "(? (= :n, 5), @inc, :s)"),
    };
    let pos = r.below(5);
    let mk = |name: &str, e: &str| {
        let mut c = case(format!("C13-{id}-{name}"));
        c.spec.sets.push("n=5".into());
        c.spec.sets.push("s=\"str\"".into());
        c.spec.sets.push("@inc=(+ . 1)".into());
        match pos {
            0 => c.spec.selects.push(format!("{e}=x")),
            1 => c.spec.filter = Some(format!("(= {e} {e})")),
            2 => c.spec.sorts.push(e.to_string()),
            3 => { c.spec.sets.push(format!("@body={e}")); c.spec.selects.push("@body=x".into()); }
            _ => c.spec.group = Some(Some(format!("(stringify {e})"))),
        }
        c.spec.utf8 = true;
        c.sources.push(stdin_src(b"{\"a\":1,\"l\":[1,2]}\n{\"a\":-2,\"l\":[]}\n{\"l\":[7]}".to_vec()));
        c
    };
    let cases = vec![mk("canon", canon), mk("respelled", respelled), mk("canon2", canon)];
    let mut g = Group::new(cases);
    g.tag = format!("{canon} ~ {respelled}");
    g.nontrivial = true;
    g.labels.push(format!("position:bindings{pos}"));
    g
}

pub fn gen_c13(r: &mut Rng, id: usize) -> Group {
    if r.chance(20) {
        return gen_c13_cache(r, id);
    }
    if r.chance(10) {
        return gen_c13_bindings(r, id);
    }
    if r.chance(8) {
        // the enclosing inputs are the same in every position: after --split-by, an expression that reads the record the
        // element came from (`^`), as the FIRST selection (the reference), as a later selection, as sort key, as group key
        let e = r.ps(&["(concat ^.k \"-\" (stringify .))", "(concat (stringify .) \"/\" ^.k)", "(concat ^.k ^.k)"]);
        let mut text = String::new();
        for _ in 0..r.range(1, 5) {
            let items: Vec<String> = (0..r.range(0, 4)).map(|_| r.below(4).to_string()).collect();
            text.push_str(&format!("{{\"k\":\"{}\",\"l\":[{}]}}\n", r.ps(&["a", "b", "c"]), items.join(",")));
        }
        let mk = |name: &str| {
            let mut c = case(format!("C13-{id}-{name}"));
            c.spec.split = Some(".l".into());
            c.sources.push(stdin_src(text.clone().into_bytes()));
            c
        };
        let via_macro = r.chance(40);
        let mk = |name: &str| {
            let mut c = mk(name);
            if via_macro && name != "first" {
                c.spec.sets.push(format!("@pm={e}"));
            }
            c
        };
        let used: &str = if via_macro { "@pm" } else { e };
        let mut first = mk("first");
        first.spec.selects.push(format!("{e}=x"));
        let mut later = mk("later");
        later.spec.selects.push(".=e".into());
        later.spec.selects.push("(+ . 1)=f".into());
        later.spec.selects.push(format!("{used}=x"));
        let mut sorted = mk("sort");
        sorted.spec.selects.push(".=e".into());
        sorted.spec.selects.push(format!("{used}=x"));
        sorted.spec.sorts.push(used.to_string());
        let mut grouped = mk("group");
        grouped.spec.selects.push(".=e".into());
        grouped.spec.group = Some(Some(used.to_string()));
        let mut g = Group::new(vec![first, later, sorted, grouped]);
        g.tag = "parentpos".into();
        g.nontrivial = true;
        g.labels.push("kind:parent-in-position".into());
        return g;
    }
    if r.chance(10) {
        // the bindings in scope are the same in every position: an expression over `--set` variables and macros, in
        // each of the five option positions, against the same expression with the bound values written out
        let v = r.ps(&["2", "\"b\"", "\"k\"", "[1, 2]", "1"]);
        let m = r.ps(&[".k", "(size .l)", "(get . \"k\")", "(default .j 0)"]);
        let shapes: &[(&str, &str)] = &[
            ("(push [] :v @m)", "(push [] {v} {m})"),
            ("(get . :v)", "(get . {v})"),
            ("(? (= @m :v) .k .j)", "(? (= {m} {v}) .k .j)"),
            ("(default @m :v)", "(default {m} {v})"),
            ("(push (default .l []) :v)", "(push (default .l []) {v})"),
            // a variable bound INSIDE the expression to a value of the record: another value for every record
            // (a binding to nothing does not evaluate its body: only records that have the member)
            ("(? (number? .id) (set \"w\" .id (push [] :w (+ :w 1) :v)) \"none\")", "(? (number? .id) (push [] .id (+ .id 1) {v}) \"none\")"),
            ("(? (number? .id) (set \"w\" .id (define \"q\" (+ :w 1) (push [] @q :w @m))) \"none\")", "(? (number? .id) (push [] (+ .id 1) .id {m}) \"none\")"),
            ("(? (number? .id) (map (push [] 1 2) (set \"w\" (+ . ^.id) (* :w :w))) \"none\")", "(? (number? .id) (map (push [] 1 2) (* (+ . ^.id) (+ . ^.id))) \"none\")"),
        ];
        let (with, without) = *r.pick(shapes);
        let plain = without.replace("{v}", v).replace("{m}", m);
        let u = key_universe_small();
        let rows = { let n_ = r.range(1, 8); gen_rows(r, n_, &u) };
        let (bytes, _) = stream_of(r, &rows, false);
        let pos = r.below(5);
        let mk = |name: &str, e: &str, sets: bool| {
            let mut c = case(format!("C13-{id}-{name}"));
            if sets {
                c.spec.sets.push(format!("v={v}"));
                c.spec.sets.push(format!("@m={m}"));
            }
            match pos {
                0 => c.spec.selects.push(format!("{e}=x")),
                1 => c.spec.filter = Some(format!("(not (empty? (stringify {e})))")),
                2 => c.spec.sorts.push(format!("(stringify {e})")),
                3 => c.spec.group = Some(Some(format!("(stringify {e})"))),
                _ => c.spec.split = Some(format!("(push [] {e} .id)")),
            }
            if pos != 0 {
                c.spec.selects.push(".id=id".into());
                c.spec.selects.push(format!("{e}=x"));
            }
            if pos == 3 {
                c.spec.selects.clear();
            }
            c.spec.utf8 = true;
            c.sources.push(stdin_src(bytes.clone()));
            c
        };
        let mut g = Group::new(vec![mk("bound", with, true), mk("written-out", &plain, false)]);
        g.tag = "boundpos".into();
        g.nontrivial = true;
        g.labels.push(format!("position:{pos}"));
        g.labels.push("kind:bindings-in-position".into());
        return g;
    }
    // the same expression canonical vs respelled (alias, commas, padding, dot sugar), in the five positions
    let ty = *r.pick(&[Ty::Any, Ty::Str, Ty::Bool, Ty::Arr, Ty::Num]);
    let depth = r.range(1, 4);
    // (RESOURCE RULE: `range` applied to anything but a small literal can ask for 2^64 items: drawn again)
    let mut canon = String::new();
    for attempt in 0..30 {
        let seed = r.next();
        let eo = ExprOpts { respell: false, ill_typed: 10, bindings: false, ..Default::default() };
        let mut rr = Rng::new(seed);
        let mut g = Gen::new(&mut rr, &eo);
        canon = g.expr(ty, depth);
        if !crate::oracle_b::risky_range(&canon) { break; }
        if attempt == 29 { canon = "(size .)".into(); }
    }
    // respelling must make the same structural choices: same rng stream is not guaranteed once
    // spelling draws differ, so respell textually from the canonical form instead
    let respelled = respell(r, &canon);
    let go = GenOpts::default();
    let recs: Vec<V> = (0..r.range(1, 6)).map(|_| crate::exprgen::gen_record(r, &go)).collect();
    let (bytes, _) = stream_of(r, &recs, false);
    let pos = r.below(5);
    let mk = |name: &str, e: &str| {
        let mut c = case(format!("C13-{id}-{name}"));
        match pos {
            0 => c.spec.selects.push(format!("{e}=x")),
            1 => {
                c.spec.filter = Some(format!("(= {e} {e})"));
            }
            2 => c.spec.sorts.push(e.to_string()),
            3 => c.spec.group = Some(Some(format!("(stringify {e})"))),
            _ => c.spec.split = Some(format!("(push [] {e})")),
        }
        c.spec.utf8 = true;
        c.sources.push(stdin_src(bytes.clone()));
        c
    };
    let mut cases = vec![mk("canon", &canon), mk("respelled", &respelled)];
    // macro / variable positions: value through @m and through --select must agree
    let mut c = case(format!("C13-{id}-macro"));
    c.spec.sets.push(format!("@m={canon}"));
    c.spec.selects.push("@m=viaMacro".into());
    c.spec.selects.push(format!("{canon}=direct"));
    c.spec.utf8 = true;
    c.sources.push(stdin_src(bytes.clone()));
    cases.push(c);
    let mut g = Group::new(cases);
    g.tag = format!("{canon} ~ {respelled}");
    g.nontrivial = canon != respelled;
    g.labels.push(format!("position:{pos}"));
    g
}

/// textual respelling of a canonical expression: aliases, comma/space separators, padding
pub fn respell(r: &mut Rng, e: &str) -> String {
    use crate::gen_table::FUNCTION_TABLE;
    let b: Vec<char> = e.chars().collect();
    let mut out = String::new();
    let mut i = 0;
    let mut in_str = false;
    let mut depth_stack: Vec<bool> = vec![]; // inside a JSON literal ([ or {)?
    let mut json_depth = 0usize;
    while i < b.len() {
        let c = b[i];
        if in_str {
            out.push(c);
            if c == '\\' {
                i += 1;
                if i < b.len() {
                    out.push(b[i]);
                }
            } else if c == '"' {
                in_str = false;
            }
            i += 1;
            continue;
        }
        match c {
            '"' => {
                // a function name such as "+" directly after '(' is not a string literal
                in_str = true;
                out.push(c);
                i += 1;
            }
            '[' | '{' => {
                json_depth += 1;
                out.push(c);
                i += 1;
            }
            ']' | '}' => {
                json_depth = json_depth.saturating_sub(1);
                out.push(c);
                i += 1;
            }
            '(' if json_depth == 0 => {
                depth_stack.push(true);
                out.push('(');
                // function name up to space or ')'
                let mut j = i + 1;
                let mut name = String::new();
                while j < b.len() && b[j] != ' ' && b[j] != ')' {
                    name.push(b[j]);
                    j += 1;
                }
                let mut spelled = name.clone();
                if let Some((_, aliases, _, _)) = FUNCTION_TABLE.iter().find(|(n, _, _, _)| *n == name) {
                    if !aliases.is_empty() && r.chance(60) {
                        spelled = r.pick(aliases).to_string();
                    }
                }
                // dot sugar: (f . x) -> (.f x)
                let rest: String = b[j..].iter().collect();
                if rest.starts_with(" . ") && r.chance(50) && !spelled.starts_with('"') {
                    out.push('.');
                    out.push_str(&spelled);
                    i = j + 2;
                } else {
                    out.push_str(&spelled);
                    i = j;
                }
            }
            ')' if json_depth == 0 => {
                depth_stack.pop();
                if r.chance(15) {
                    out.push(' ');
                }
                out.push(')');
                i += 1;
            }
            ' ' if json_depth == 0 && !depth_stack.is_empty() => {
                match r.below(5) {
                    0 => out.push_str(", "),
                    1 => out.push_str(" , "),
                    2 => out.push_str("   "),
                    3 => out.push_str(" ,"),
                    _ => out.push(' '),
                }
                i += 1;
            }
            _ => {
                out.push(c);
                i += 1;
            }
        }
    }
    out
}

// ---------------------------------------------------------------------------------- C14

pub fn gen_c14(r: &mut Rng, id: usize) -> Group {
    if r.chance(12) {
        // several input files: once --take is satisfied inside one file, the files after it are not read at all.
        // What makes a later file observable without an endless file: it holds malformed bytes, and
        // --on-error=stderr would report them if they were read; its values never reach the limiter (duplicates under
        // --unique, or filtered out), so a Break that got lost between files would go unnoticed on standard output
        let t = r.range(1, 4) as u64;
        let mut c = case(format!("C14-{id}-files"));
        c.spec.take = Some(t);
        c.spec.on_error = Some("stderr".into());
        let drop_by_unique = r.chance(50);
        if drop_by_unique {
            c.spec.unique = true;
        } else {
            c.spec.filter = Some("(< .id 100)".into());
        }
        // (now and then the file that satisfies --take is LARGE: then only its beginning is read — a bounded number of bytes past
        //  the value that gave the last row —, which the bytes this process reads while `go` runs show)
        let big = r.chance(35);
        let extra = if big { r.range(12_000, 30_000) as u64 } else { r.below(3) as u64 };
        let f0: String = (0..t + extra).map(|i| format!("{{\"id\":{i}}}\n")).collect();
        let tail_rows: String = (0..r.range(1, 5)).map(|i| if drop_by_unique { format!("{{\"id\":{}}}\n", i as u64 % t) } else { format!("{{\"id\":{}}}\n", 100 + i) }).collect();
        let f1 = format!("{} {}{}", r.ps(&["x", "} ]", "@@ #", ", :"]), tail_rows, r.ps(&["", "?", "]"]));
        let nfiles_before = r.below(2);
        for i in 0..nfiles_before {
            c.sources.push(Source { name: Some(format!("empty{i}.json")), bytes: b" \n".to_vec() });
        }
        c.sources.push(Source { name: Some("in0.json".into()), bytes: f0.into_bytes() });
        c.sources.push(Source { name: Some("in1.json".into()), bytes: f1.into_bytes() });
        if r.chance(40) {
            c.sources.push(Source { name: Some("in2.json".into()), bytes: b"oops {\"id\":0}".to_vec() });
        }
        let mut g = Group::new(vec![c]);
        if big {
            g.labels.push("kind:large-file".into());
        }
        g.tag = "files-after-take".into();
        g.nontrivial = true;
        g.labels.push("kind:files-after-take".into());
        return g;
    }
    let u = key_universe_small();
    let rows = { let n_ = r.range(0, 14); gen_rows(r, n_, &u) };
    let mut c = case(format!("C14-{id}"));
    let p = PipeOpts { sorts: false, group: false, limit: false, text: false, filter: false, ..Default::default() };
    c.spec = gen_pipe_spec(r, &p);
    // filters that the endless tail satisfies ("qualifying values")
    if r.chance(40) {
        c.spec.filter = Some(r.ps(&["(number? .k)", "(> .j 0)", "(not (empty? .k))", "true", "(< .k 2)"]).to_string());
    }
    // with --unique the selected values of the tail rows must be distinct
    if c.spec.unique && !c.spec.selects.is_empty() {
        c.spec.selects.push(".id=id".into());
    }
    c.spec.take = Some(r.below(6) as u64);
    c.spec.skip = r.below(4) as u64;
    if r.chance(20) {
        c.spec.ooa = true;
    }
    let (mut bytes, _) = stream_of(r, &rows, false);
    if !bytes.is_empty() {
        bytes.push(b'\n');
    }
    c.sources.push(stdin_src(bytes));
    // endless repetition of a qualifying value: distinct ids, every field the stages look at,
    // and list elements that qualify themselves when --split-by is used
    c.endless = Some(if r.chance(50) {
        b"{\"id\":@@@@@@,\"k\":1,\"j\":2,\"g\":\"x\",\"l\":[{\"id\":@@@@@@,\"k\":1,\"j\":2,\"t\":0},{\"id\":@@@@@@,\"k\":1,\"j\":2,\"t\":1}]}\n".to_vec()
    } else {
        // every list a singleton: a Break answered on the LAST element of a split list must still stop the read loop
        b"{\"id\":@@@@@@,\"k\":1,\"j\":2,\"g\":\"x\",\"l\":[{\"id\":@@@@@@,\"k\":1,\"j\":2,\"t\":0}]}\n".to_vec()
    });
    // values need not sit on lines of their own: the endless tail may never contain a line feed at all
    if let Some(t) = c.endless.as_mut() {
        let sep = *r.pick(&[b'\n', b'\n', b' ', b'\t', b'\r']);
        if let Some(last) = t.last_mut() {
            *last = sep;
        }
    }
    let mut g = Group::new(vec![c]);
    g.values = rows;
    g
}

// ---------------------------------------------------------------------------------- C15

pub fn gen_c15(r: &mut Rng, id: usize) -> Group {
    let n_sel = r.range(1, 5);
    let names = ["c0", "c1", "c2", "c3", "c4"];
    let mut twin_universe = false;
    let pool: Vec<V> = {
        let mut p = vec![V::Null, V::Bool(true), V::Bool(false), V::Int(0), V::Int(-12), V::Int((1 << 64) - 1), V::Float(0.5), V::Float(1e-7), V::Float(1e21)];
        for s in ["", "plain", "q\"uote", "com,ma", "line\nbreak", "cr\rlf\r\n", "tab\t", "é日本", "\"", "\"\"", ", ", " lead", "a\"b,c\nd", "null", "True"] {
            p.push(V::Str(s.into()));
        }
        p.push(V::Arr(vec![V::Int(1), V::Str("q\"".into())]));
        p.push(V::Obj(vec![("k".into(), V::Str("v,w".into()))]));
        p.push(V::Arr(vec![]));
        // arrays and objects are written as concise JSON text WITH its non-ASCII characters as they are
        p.push(V::Arr(vec![V::Str("café".into()), V::Str("日本".into())]));
        p.push(V::Obj(vec![("clé".into(), V::Str("ÿ".into())), ("n".into(), V::Arr(vec![V::Str("😃".into())]))]));
        // random strings over the characters csv and text output have to get right
        let alphabet: Vec<char> = "\",\n\r\t ';|ab1é日\\/".chars().collect();
        for _ in 0..5 {
            let n = r.below(7);
            p.push(V::Str((0..n).map(|_| *r.pick(&alphabet)).collect()));
        }
        for _ in 0..4 {
            p.push(V::Int(*r.pick(&value::boundary_ints())));
        }
        p.push(V::Float(*r.pick(&value::interesting_floats())));
        p.push(V::Obj(vec![("a\"b".into(), V::Arr(vec![V::Null, V::Str("x\ny".into())])), ("é".into(), V::Float(2.5))]));
        if r.chance(15) {
            // a small universe of nested values that are EQUAL (`=`: member order ignored, an integer against the double of the same
            // magnitude) without being the same text, so that neighbouring fields and neighbouring rows often are such twins: every
            // field is the text of ITS value
            let ab = V::Obj(vec![("a".into(), V::Int(1)), ("b".into(), V::Int(2))]);
            let deep = V::Obj(vec![("x".into(), V::Arr(vec![ab.clone(), V::Str("q\"".into())])), ("y".into(), ab.clone())]);
            p = vec![ab.clone(), perm_twin(&ab), V::Arr(vec![ab.clone()]), V::Arr(vec![perm_twin(&ab)]), deep.clone(), perm_twin(&deep),
                     V::Arr(vec![V::Int((1 << 64) - 1)]), V::Arr(vec![V::Float(18446744073709551616.0)]),
                     V::Obj(vec![("n".into(), V::Int(9007199254740993))]), V::Obj(vec![("n".into(), V::Float(9007199254740992.0))]),
                     V::Int(1), V::Str("s".into())];
            twin_universe = true;
        }
        p
    };
    let rows: Vec<V> = (0..if twin_universe { r.range(2, 9) } else { r.range(0, 6) })
        .map(|_| {
            let mut kvs = vec![];
            for i in 0..n_sel {
                if r.chance(80) {
                    kvs.push((names[i].to_string(), r.pick(&pool).clone()));
                }
            }
            V::Obj(kvs)
        })
        .collect();
    let mut c = case(format!("C15-{id}"));
    // column titles: mostly the key, sometimes a title with characters the header row has to quote
    let titles = ["na me", "q\"t", "a,b", "é", "x=y", "t\tab", "'s'"];
    for i in 0..n_sel {
        // (now and then a title that an earlier column already has: every selection still is a column of its own)
        let title = if i > 0 && r.chance(12) { "same".to_string() } else if r.chance(25) { format!("{}{}", titles[r.below(titles.len())], i) } else { names[i].to_string() };
        let title = if i == 0 && n_sel > 1 && r.chance(20) { "same".to_string() } else { title };
        c.spec.selects.push(format!(".{}={}", names[i], title));
    }
    let csv = r.chance(55);
    if csv {
        c.spec.style = Some("csv".into());
    } else {
        c.spec.style = Some("text".into());
        if r.chance(40) {
            c.spec.isep = Some(r.ps(&[";", " | ", ","]).to_string());
        }
        if r.chance(30) {
            c.spec.spre = Some("'".into());
            c.spec.spost = Some("'".into());
        }
        if r.chance(40) {
            c.spec.headers = true;
        }
        if r.chance(30) {
            c.spec.esc.push("'\\'".into());
        }
        if r.chance(20) {
            c.spec.esc.push("\n\\n".into());
        }
        if r.chance(18) {
            // the documented use of --escape-sequance: make the rows splittable again by escaping the separator itself (and the line
            // breaks) in the data — here the separator is the comma
            c.spec.isep = Some(",".into());
            c.spec.esc = vec![",\\,".into(), "\n\\n".into(), "\r\\r".into(), "\\\\\\".into()];
            c.spec.spre = None;
            c.spec.spost = None;
        }
        if r.chance(30) {
            c.spec.misskw = Some("N/A".into());
        }
        if r.chance(20) {
            c.spec.nullkw = Some("NULL".into());
            c.spec.truekw = Some("yes".into());
            c.spec.falsekw = Some("no".into());
        }
    }
    if r.chance(15) {
        c.spec.rowsep = Some("\r\n".into());
    }
    let (bytes, _) = stream_of(r, &rows, false);
    c.sources.push(stdin_src(bytes));
    let mut g = Group::new(vec![c]);
    g.nontrivial = rows.iter().any(|v| {
        let t = value::render(v);
        t.contains("\\\"") || t.contains(',') || t.contains("\\n") || t.contains("\\r")
    });
    g.values = rows;
    if twin_universe {
        g.labels.push("kind:equal-neighbours".into());
    }
    g.labels.push(format!("style:{}", if csv { "csv" } else { "text" }));
    g.labels.push(format!("selections:{n_sel}"));
    g
}

// ---------------------------------------------------------------------------------- C16

pub fn gen_c16(r: &mut Rng, id: usize) -> Group {
    let u = key_universe_small();
    let rows = { let n_ = r.range(1, 8); gen_rows(r, n_, &u) };
    let (mut bytes, _) = stream_of(r, &rows, false);
    // malformed regions (between values, at the end, or nothing else at all): under --on-error=stdout the reports are part
    // of the output, and a write that fails inside a report is a write failure like any other
    let noisy = r.chance(35);
    if noisy {
        if r.chance(25) {
            bytes.clear();
        }
        for _ in 0..r.range(1, 4) {
            bytes.push(b' ');
            bytes.extend_from_slice(&garbage_token(r));
        }
        bytes.push(b'\n');
    }
    let mut base = case(format!("C16-{id}-base"));
    let p = PipeOpts { text: true, ..Default::default() };
    base.spec = gen_pipe_spec(r, &p);
    base.spec.on_error = Some(r.ps(&["ignore", "panic", "stderr", "stdout"]).to_string());
    base.sources.push(stdin_src(bytes.clone()));
    if r.below(6) == 0 {
        // input files, one of which does not exist: the rows of the files before it, then an I/O error — no panic
        let nfiles = r.range(1, 3);
        let missing = r.below(nfiles);
        base.sources.clear();
        for i in 0..nfiles {
            let rows_i = { let n_ = r.range(0, 4); gen_rows(r, n_, &u) };
            let (b, _) = stream_of(r, &rows_i, false);
            base.sources.push(Source { name: Some(format!("in{i}.json")), bytes: b });
        }
        let mut rf = base.clone();
        rf.id = format!("C16-{id}-missing-file{missing}");
        rf.rerr = Some((missing, 0));
        let mut wf = base.clone();
        let woff = r.below(200);
        wf.id = format!("C16-{id}-write@{woff}");
        wf.wfail = Some(woff);
        let mut g = Group::new(vec![base.clone(), rf, wf]);
        g.nontrivial = missing > 0;
        g.tag = "missing-file".into();
        g.labels.push(format!("policy:{}", base.spec.on_error.clone().unwrap()));
        g.labels.push("kind:missing-file".into());
        return g;
    }
    let mut cases = vec![base.clone()];
    // a read fault at an offset (after Interrupted results and short reads)
    let off = r.below(bytes.len() + 1);
    let mut rf = base.clone();
    rf.id = format!("C16-{id}-read@{off}");
    rf.rerr = Some((0, off));
    rf.chunks = match r.below(3) {
        0 => vec![1],
        1 => vec![3, 0, 1, 0, 0, 7],
        _ => vec![],
    };
    cases.push(rf);
    // a write fault at an offset of the output
    let mut wf = base.clone();
    let woff = r.below(200);
    wf.id = format!("C16-{id}-write@{woff}");
    wf.wfail = Some(woff);
    cases.push(wf);
    let mut g = Group::new(cases);
    g.values = rows;
    g.nontrivial = off > 0 && off < bytes.len();
    g.labels.push(format!("policy:{}", base.spec.on_error.clone().unwrap()));
    if noisy {
        g.labels.push("input:noisy".into());
    }
    g
}

// ---------------------------------------------------------------------------------- C17

pub fn gen_c17(r: &mut Rng, id: usize) -> Group {
    let o = GenOpts::default();
    let n = r.range(1, 10);
    let vals: Vec<V> = (0..n).map(|_| value::gen_value(r, &o, 1)).collect();
    // white-space separated (incl. CR, LF, CRLF), optionally noisy
    let mut text = String::new();
    let mut cuts: Vec<usize> = vec![];
    let mut spans: Vec<(usize, usize)> = vec![];
    let mut noisy = false;
    if r.chance(12) {
        // bytes at the very start of the input that are not data: a UTF-8 byte order mark, a shebang-like word — they are
        // garbage like any other, whichever way the input is delivered
        text.push_str(r.ps(&["\u{feff}", "\u{feff} ", "\u{feff}\n", "\u{fffe}", "# ", "\u{feff}\u{feff}"]));
        noisy = true;
    }
    for v in &vals {
        // jawk accepts raw control characters inside strings: a raw line feed there still is a line break
        let mut t = value::render(v);
        if r.chance(25) {
            t = t.replace("\\n", "\n").replace("\\t", "\t");
        }
        spans.push((text.len(), text.len() + t.len()));
        text.push_str(&t);
        text.push_str(r.ps(&[" ", "\n", "\r\n", "\n\n", "\t", " \n"]));
        cuts.push(text.len());
        if r.chance(10) {
            text.push_str("} ");
            noisy = true;
        }
    }
    let bytes = text.clone().into_bytes();
    let sel = |c: &mut Case| {
        for (n, e) in [("v", "."), ("i", "&index"), ("f", "&index-in-file"), ("n", "&file-name"), ("sl", "&started-at-line-number"), ("sc", "&started-at-char-number"),
                       ("el", "&ended-at-line-number"), ("ec", "&ended-at-char-number")] {
            c.spec.selects.push(format!("{e}={n}"));
        }
    };
    let ooa = r.chance(25);
    let mut whole = case(format!("C17-{id}-whole"));
    sel(&mut whole);
    whole.spec.ooa = ooa;
    whole.sources.push(stdin_src(bytes.clone()));
    let mut one = whole.clone();
    one.id = format!("C17-{id}-1byte");
    one.chunks = vec![1];
    let mut rnd = whole.clone();
    rnd.id = format!("C17-{id}-chunks");
    rnd.chunks = (0..r.range(1, 6)).map(|_| r.below(9)).collect();
    if rnd.chunks.iter().all(|c| *c == 0) {
        rnd.chunks.push(2);
    }
    // one file with the same bytes
    let mut file = whole.clone();
    file.id = format!("C17-{id}-file");
    file.sources = vec![Source { name: Some("in0.json".into()), bytes: bytes.clone() }];
    // a partition into 1..4 files, cutting between values or inside a value
    let k = r.range(1, 4);
    let mut points: Vec<usize> = (0..k - 1)
        .map(|_| if r.chance(70) && !cuts.is_empty() { *r.pick(&cuts) } else { r.below(bytes.len() + 1) })
        .collect();
    points.sort();
    let mut parts = vec![];
    let mut prev = 0;
    for p in points.iter().chain(std::iter::once(&bytes.len())) {
        parts.push(bytes[prev..*p].to_vec());
        prev = *p;
    }
    let mut multi = whole.clone();
    multi.id = format!("C17-{id}-files{k}");
    multi.sources = parts.iter().enumerate().map(|(i, b)| Source { name: Some(format!("part{i}.json")), bytes: b.clone() }).collect();
    // every part on its own: "files stay separate" means the run over f1..fn is the runs over each, one after the other
    let mut cases = vec![whole.clone(), one, rnd, file, multi];
    for (i, b) in parts.iter().enumerate() {
        let mut alone = whole.clone();
        alone.id = format!("C17-{id}-part{i}-alone");
        alone.sources = vec![Source { name: Some(format!("part{i}.json")), bytes: b.clone() }];
        cases.push(alone);
    }
    let mut g = Group::new(cases);
    g.values = vals;
    g.tag = format!("files={k} noisy={} ooa={} spans={}", noisy as u8, ooa as u8, spans.iter().map(|(a, b)| format!("{a}-{b}")).collect::<Vec<_>>().join(","));
    g.nontrivial = text.matches('\n').count() >= 1 || k >= 2;
    g.labels.push(format!("files:{k}"));
    g
}

// ---------------------------------------------------------------------------------- C18

pub fn corrupt(r: &mut Rng, e: &str) -> (String, &'static str) {
    match r.below(7) {
        0 => {
            let n = e.chars().count();
            if n <= 1 { (String::new(), "truncate") } else { (e.chars().take(r.range(1, n - 1)).collect(), "truncate") }
        }
        1 => (format!("{e})"), "unbalanced"),
        2 => (format!("({e}"), "unbalanced"),
        3 => {
            // an expression without a call has no name to corrupt: wrap it in an unknown function
            if e.contains('(') { (e.replacen("(", "(no_such_function_", 1), "unknown-name") }
            else { (format!("(no_such_function_ {e})"), "unknown-name") }
        }
        4 if r.chance(40) => (r.ps(&["(.no_such_method)", "(+ 1 (.lenx))", "(.sizes .)", "(map . (.nope))"]).to_string(), "unknown-method"),
        4 => (format!("{e} garbage("), "trailing-garbage"),
        5 => {
            // arity +1 on the first call
            if let Some(p) = e.rfind(')') {
                let mut s = e.to_string();
                s.insert_str(p, " 1 2 3 4");
                (s, "arity+")
            } else {
                (format!("(not {e} {e})"), "arity+")
            }
        }
        _ => {
            // one argument too few / too many for ANY function of the table (fixed arity, optional arguments, any number of
            // arguments), under its name or an alias, nested or not
            use crate::gen_table::FUNCTION_TABLE;
            let table: Vec<_> = FUNCTION_TABLE.iter().filter(|(n, _, lo, hi)| !["exec", "trigger", "env", "now"].contains(n) && (*lo >= 1 || hi.is_some())).collect();
            let (name, aliases, lo, hi) = **r.pick(&table);
            let spelled = if !aliases.is_empty() && r.chance(30) { r.pick(aliases).to_string() } else { name.to_string() };
            let few = lo >= 1 && (hi.is_none() || r.chance(60));
            let n = if few { lo - 1 } else { hi.unwrap() + 1 };
            let fill = ["1", ".k", "\"s\"", ".l", "true", "(size .l)"];
            let args: Vec<&str> = (0..n).map(|i| fill[(i + r.below(3)) % fill.len()]).collect();
            let call = if args.is_empty() { format!("({spelled})") } else { format!("({spelled} {})", args.join(" ")) };
            let call = if r.chance(30) { format!("(default {call} 1)") } else { call };
            (call, if few { "arity-" } else { "arity+" })
        }
    }
}

pub fn gen_c18(r: &mut Rng, id: usize) -> Group {
    let u = key_universe_small();
    let rows = { let n_ = r.range(1, 4); gen_rows(r, n_, &u) };
    let (bytes, _) = stream_of(r, &rows, false);
    let mut c = case(format!("C18-{id}"));
    let p = PipeOpts { sets: true, ..Default::default() };
    c.spec = gen_pipe_spec(r, &p);
    if c.spec.selects.is_empty() {
        c.spec.selects.push(".k=x".into());
    }
    if c.spec.sorts.is_empty() && r.chance(50) {
        c.spec.sorts.push(".k".into());
    }
    if c.spec.filter.is_none() && r.chance(50) {
        c.spec.filter = Some("(number? .k)".into());
    }
    c.sources.push(stdin_src(bytes));
    let valid = c.clone();
    // one fault
    let kind;
    match r.below(13) {
        0 => {
            let (e, k) = corrupt(r, &c.spec.selects[0].split('=').next().unwrap_or(".k").to_string());
            c.spec.selects[0] = format!("{e}=x");
            kind = format!("select:{k}");
        }
        1 => {
            let (e, k) = corrupt(r, &c.spec.filter.clone().unwrap_or("(number? .k)".into()));
            c.spec.filter = Some(e);
            kind = format!("filter:{k}");
        }
        2 => {
            let (e, k) = corrupt(r, "(size .l)");
            c.spec.sorts.push(e);
            kind = format!("sort:{k}");
        }
        3 => {
            c.spec.sorts.push(format!(".k {}", r.ps(&["up", "descending", "a s c", "1", "DESK", "DESC garbage", "asc )", "desc .b", "ASC DESC", "Desc  x", "asc\tasc"])));
            kind = "sort:bad-direction".into();
        }
        4 => {
            let (e, k) = corrupt(r, "(stringify .k)");
            c.spec.group = Some(Some(e));
            if c.spec.style.as_deref() == Some("csv") {
                c.spec.style = None;
            }
            kind = format!("group:{k}");
        }
        5 => {
            let (e, k) = corrupt(r, "(default .l [])");
            c.spec.split = Some(e);
            kind = format!("split:{k}");
        }
        6 => {
            c.spec.sets.push(r.ps(&["novalue", "=1", "@=.", "a=", "b=(nope 1)", "c=.zz"]).to_string());
            kind = "set:malformed".into();
        }
        7 => {
            c.spec.sets = vec!["a=1".into(), "a=2".into()];
            kind = "set:duplicate".into();
        }
        8 => {
            // output options that do not belong to the style
            match r.below(3) {
                0 => {
                    c.spec.style = Some("csv".into());
                    c.spec.jstyle = Some("pretty".into());
                }
                1 => {
                    c.spec.style = Some("text".into());
                    c.spec.utf8 = true;
                    c.spec.jstyle = None;
                }
                _ => {
                    c.spec.style = None;
                    c.spec.jstyle = None;
                    c.spec.headers = true;
                }
            }
            kind = "style:mismatch".into();
        }
        9 => {
            c.spec.style = Some("csv".into());
            c.spec.jstyle = None;
            c.spec.utf8 = false;
            c.spec.isep = None; c.spec.spre = None; c.spec.spost = None; c.spec.headers = false; c.spec.esc.clear();
            c.spec.nullkw = None; c.spec.truekw = None; c.spec.falsekw = None; c.spec.misskw = None;
            if r.chance(50) {
                c.spec.selects.clear();
                kind = "csv:no-selection".into();
            } else {
                c.spec.group = Some(if r.chance(50) { None } else { Some(".g".into()) });
                kind = "csv:grouping".into();
            }
        }
        11 | 12 => {
            // rejected by the command-line parser itself: an option given twice, a flag with a value, a value outside
            // the enumeration, a malformed number, an unknown option — in any argument order and under any alias
            c.shuffle = 1 + r.next() % 100_000;
            match r.below(7) {
                0 => {
                    c.spec.take = Some(2);
                    c.xargs.push(r.ps(&["--limit=3", "--take=3"]).to_string());
                    kind = "cli:single-twice".into();
                }
                1 => {
                    c.spec.unique = true;
                    c.xargs.push("--unique".into());
                    kind = "cli:flag-twice".into();
                }
                2 => {
                    if c.spec.style.as_deref() == Some("csv") { c.spec.style = None; }
                    c.spec.group = Some(if r.chance(50) { None } else { Some(".g".into()) });
                    c.xargs.push(r.ps(&["--merge", "--combine", "--group-by=.g", "--group-by"]).to_string());
                    kind = "cli:group-twice".into();
                }
                3 => {
                    c.xargs.push(r.ps(&["--only-objects-and-arrays=true", "--only-objects-and-arrays=1"]).to_string());
                    c.spec.ooa = false;
                    kind = "cli:flag-with-value".into();
                }
                4 => {
                    c.spec.on_error = None;
                    c.xargs.push(r.ps(&["--on-error=Ignore", "--on-error=", "--on-error=abort", "--on-error=std-err"]).to_string());
                    kind = "cli:bad-enum".into();
                }
                5 => {
                    c.spec.skip = 0;
                    c.xargs.push(r.ps(&["--skip=abc", "--skip=", "--skip=-1", "--skip=1.5", "--skip=18446744073709551616", "--skip= 1", "--skip=0x10"]).to_string());
                    kind = "cli:bad-number".into();
                }
                _ => {
                    c.xargs.push(r.ps(&["--no-such-option=1", "--selekt=.k", "--uniq", "--sort=.k"]).to_string());
                    kind = "cli:unknown-option".into();
                }
            }
        }
        _ => {
            let (e, k) = corrupt(r, "(concat \"a\" .s)");
            c.spec.sets.push(format!("@mm={e}"));
            kind = format!("set-macro:{k}");
        }
    }
    c.id = format!("C18-{id}-faulty");
    let mut g = Group::new(vec![c, valid]);
    g.tag = kind.clone();
    g.labels.push(format!("fault:{kind}"));
    g
}

// ---------------------------------------------------------------------------------- C19

pub fn gen_c19(r: &mut Rng, id: usize) -> Group {
    if r.chance(10) {
        // the same boundary integers printed by the text and csv printers (their own number paths)
        let ints = value::boundary_ints();
        let n = r.range(1, 8);
        let rows: Vec<V> = (0..n)
            .map(|i| V::Obj(vec![("id".into(), V::Int(i as i128)), ("k".into(), V::Int(*r.pick(&ints))), ("l".into(), V::Arr((0..r.range(1, 3)).map(|_| V::Int(*r.pick(&ints))).collect()))]))
            .collect();
        // (in every spelling that denotes exactly the integer: plain, and — where a double holds it exactly — with a fraction or an exponent)
        let (bytes, _) = stream_of(r, &rows, true);
        let mut c = case(format!("C19-{id}-text"));
        c.spec.style = Some(r.ps(&["text", "csv"]).to_string());
        c.spec.selects = vec![".k=k".into(), ".id=id".into(), "(first .l)=f".into(), "(last .l)=z".into()];
        match r.below(4) {
            0 => c.spec.sorts.push(".id desc".into()),
            1 => c.spec.unique = true,
            _ => {}
        }
        c.sources.push(stdin_src(bytes));
        let mut g = Group::new(vec![c]);
        g.values = rows;
        g.tag = "ints-text".into();
        g.nontrivial = true;
        g.labels.push("kind:ints-text".into());
        return g;
    }
    if r.chance(8) {
        // the number-as-string sort: exact order of decimal strings in every spelling — zeros (any sign, any scale), values
        // between 0 and 1, negatives, long operands —, ties in arrival order
        let zeros = ["0", "0.0", "-0", "0e5", "0.000", "00"];
        let small = ["0.5", "0.25", "1e-3", "5e-1", "0.001", "-0.5", "-1e-3", "1", "10", "-1", "9.99", "1e1"];
        let n = r.range(2, 9);
        let items: Vec<String> = (0..n).map(|_| match r.below(4) {
            0 => r.pick(&zeros).to_string(),
            1 | 2 => r.pick(&small).to_string(),
            _ => crate::exprgen::gen_decimal(r),
        }).collect();
        let mut c = case(format!("C19-{id}-nas-sort"));
        c.spec.selects.push(format!("({} . .)=s", r.ps(&["\"sort_by\"", "\"order_by\"", "sort_by_nas", "order_by_nas"])));
        c.spec.selects.push("(sort_by_nas (map . (put {} \"k\" .)) .k)=t".into());
        c.sources.push(stdin_src(format!("[{}]", items.iter().map(|x| format!("\"{x}\"")).collect::<Vec<_>>().join(",")).into_bytes()));
        let mut g = Group::new(vec![c]);
        g.tag = format!("nas-sort\u{1}{}", items.join("\u{2}"));
        g.nontrivial = true;
        g.labels.push("kind:nas-sort".into());
        return g;
    }
    if r.chance(8) {
        // neighbouring integers that one double cannot tell apart, with repeats, through --unique / grouping / the unique functions:
        // an integer is a duplicate of the SAME integer only
        let p53: i128 = 1 << 53;
        let p63: i128 = 1 << 63;
        let p64: i128 = 1 << 64;
        let pool = [p53, p53 + 1, p53 + 2, p53 - 1, p64 - 1, p64 - 2, p64 - 3, p63, p63 + 1, p63 - 1, -p63, -p63 + 1, -p63 + 2, -p53, -p53 - 1, 0, 7];
        let n = r.range(2, 12);
        let ints: Vec<i128> = (0..n).map(|_| *r.pick(&pool)).collect();
        let wrap = r.below(3);
        let rows: Vec<V> = ints.iter().map(|i| match wrap {
            0 => V::Int(*i),
            1 => V::Obj(vec![("k".into(), V::Int(*i))]),
            _ => V::Arr(vec![V::Int(*i), V::Str("x".into())]),
        }).collect();
        let (bytes, _) = stream_of(r, &rows, true);
        let mut c = case(format!("C19-{id}-ints-unique"));
        c.spec.unique = true;
        match (wrap, r.below(3)) {
            (1, 0) => c.spec.selects.push(".k=k".into()),
            (1, 1) => { c.spec.selects.push(".k=k".into()); c.spec.selects.push(".zz=absent".into()); }
            (2, 0) => c.spec.selects.push("(get . 0)=k".into()),
            _ => {}
        }
        c.sources.push(stdin_src(bytes));
        let mut g = Group::new(vec![c]);
        g.tag = format!("ints-unique\u{1}{}", ints.iter().map(|i| i.to_string()).collect::<Vec<_>>().join(","));
        g.nontrivial = true;
        g.labels.push("kind:ints-unique".into());
        return g;
    }
    if r.chance(50) {
        // boundary integers through non-arithmetic pipelines and collection functions
        let ints = value::boundary_ints();
        let n = r.range(1, 8);
        let rows: Vec<V> = (0..n)
            .map(|i| V::Obj(vec![("id".into(), V::Int(i as i128)), ("k".into(), V::Int(*r.pick(&ints))), ("l".into(), V::Arr((0..r.below(4)).map(|_| V::Int(*r.pick(&ints))).collect()))]))
            .collect();
        let (bytes, _) = stream_of(r, &rows, false);
        let mut c = case(format!("C19-{id}"));
        match r.below(10) {
            0 => {}
            1 => c.spec.selects = vec![".k=k".into(), "(take .l 2)=t".into(), "(reverese .l)=r".into(), "(sort .l)=s".into(), "(push .l .k)=p".into(), "(first .l)=f".into()],
            2 => c.spec.sorts.push(".id desc".into()),
            3 => c.spec.group = Some(Some("(stringify .id)".into())),
            4 => {
                c.spec.split = Some(".l".into());
            }
            5 => {
                c.spec.group = Some(None);
                c.spec.unique = true;
            }
            6 => c.spec.sorts.push(format!(".k{}", r.ps(&["", " desc"]))),
            7 => c.spec.selects = vec!["(take_last .l 2)=a".into(), "(sub .l 1 2)=b".into(), "(pop .l)=c".into(), "(last .l)=d".into(), "(get .l 1)=e".into(), "(values .)=f".into(),
                                       "(push_front .l .k)=g".into(), "(sort_unique .l)=u".into(), ".=w".into(), "(map .l .)=m".into(), "(filter .l (number? .))=n".into(), "(default .zz .k)=o".into()],
            8 => {
                c.spec.unique = true;
                c.spec.sorts.push(".k".into());
            }
            _ => c.spec.group = Some(Some("(stringify .k)".into())),
        }
        c.sources.push(stdin_src(bytes));
        let mut g = Group::new(vec![c]);
        g.values = rows;
        g.tag = "ints".into();
        g.labels.push("kind:ints".into());
        g
    } else {
        // number-as-string arithmetic on long decimal strings
        let a = crate::exprgen::gen_decimal(r);
        let b = crate::exprgen::gen_decimal(r);
        let d = crate::exprgen::gen_decimal(r);
        // the same numbers spelled differently (leading / trailing zeros, moved point, exponent)
        let a2 = crate::oracle_b::respell_decimal(r, &a);
        let b2 = crate::oracle_b::respell_decimal(r, &b);
        let mut c = case(format!("C19-{id}"));
        let q = |s: &str| format!("\"{s}\"");
        for (n, e) in [
            ("add", format!("(\"+\" {} {})", q(&a), q(&b))),
            ("add3", format!("(\"+\" {} {} {})", q(&a), q(&b), q(&d))),
            ("sub", format!("(\"-\" {} {})", q(&a), q(&b))),
            ("neg", format!("(\"-\" {})", q(&a))),
            ("mul", format!("(\"*\" {} {})", q(&a), q(&b))),
            ("abs", format!("(\"abs\" {})", q(&a))),
            ("norm", format!("(\"||\" {})", q(&a))),
            ("round", format!("(\"round\" {})", q(&a))),
            ("rem", format!("(\"%\" {} {})", q(&a), q(&b))),
            ("lt", format!("(\"<\" {} {})", q(&a), q(&b))),
            ("le", format!("(\"<=\" {} {})", q(&a), q(&b))),
            ("eq", format!("(\"=\" {} {})", q(&a), q(&b))),
            ("ne", format!("(\"!=\" {} {})", q(&a), q(&b))),
            ("gt", format!("(\">\" {} {})", q(&a), q(&b))),
            ("ge", format!("(\">=\" {} {})", q(&a), q(&b))),
            ("eqself", format!("(\"=\" {} (\"+\" {} \"0.000\"))", q(&a), q(&a))),
            ("eqsp", format!("(\"=\" {} {})", q(&a), q(&a2))),
            ("nesp", format!("(\"!=\" {} {})", q(&a2), q(&a))),
            ("ltsp", format!("(\"<\" {} {})", q(&a), q(&a2))),
            ("gesp", format!("(\">=\" {} {})", q(&b2), q(&b))),
            ("addsp", format!("(\"+\" {} {})", q(&a2), q(&b2))),
            ("subsp", format!("(\"-\" {} {})", q(&a2), q(&a))),
            ("mulsp", format!("(\"*\" {} {})", q(&a2), q(&b2))),
            ("normsp", format!("(\"||\" {})", q(&a2))),
        ] {
            c.spec.selects.push(format!("{e}={n}"));
        }
        c.sources.push(stdin_src(b"null".to_vec()));
        let mut g = Group::new(vec![c]);
        g.tag = format!("nas {a} {b} {d}");
        g.nontrivial = a.len() + b.len() >= 20;
        g.labels.push("kind:nas".into());
        g
    }
}

// ---------------------------------------------------------------------------------- C20

pub fn gen_c20(r: &mut Rng, id: usize) -> Group {
    if r.chance(6) {
        // an input file that does not exist: the input failed, so the exit status is not 0 and standard error says why
        let mut c = case(format!("C20-{id}-missing-file"));
        c.mode = "main".into();
        c.spec.on_error = Some(r.ps(&["ignore", "panic", "stderr", "stdout"]).to_string());
        match r.below(4) {
            0 => c.spec.selects.push("(size .)=n".into()),
            1 => c.spec.group = Some(None),
            2 => c.spec.sorts.push(".".into()),
            _ => {}
        }
        // (also when the options say that few or no rows are wanted: the file named on the command line still does not exist)
        if r.chance(45) {
            c.spec.take = Some(r.below(3) as u64);
            if r.chance(30) {
                c.spec.skip = r.below(3) as u64;
            }
        }
        c.sources.push(Source { name: Some("no-such-input.json".into()), bytes: vec![] });
        c.rerr = Some((0, 0));
        let mut g = Group::new(vec![c]);
        g.tag = "missing-file".into();
        g.nontrivial = true;
        g.labels.push("kind:missing-file".into());
        return g;
    }
    let o = GenOpts::default();
    let n = r.range(0, 6);
    let vals: Vec<V> = (0..n).map(|_| value::gen_value(r, &o, 1)).collect();
    let mut bytes = vec![];
    let mut noise = 0;
    // the malformed bytes in FRONT of the first value only: they are read whatever `--take` says later
    let front_only = r.chance(12);
    if front_only {
        bytes.extend_from_slice(&garbage_token(r));
        bytes.push(b' ');
        noise = 1;
    }
    for v in &vals {
        bytes.extend_from_slice(value::render(v).as_bytes());
        bytes.push(b'\n');
        if !front_only && r.chance(30) {
            if r.chance(35) {
                // a malformed VALUE rather than a stray byte: every syntax error is recoverable under the lenient policies
                bytes.extend_from_slice(r.ps(&["tru", "[1,]", "{\"a\" 1}", "\"\\ud800\"", "\"\\ud83d\\ude00\"", "\"\\udc00x\"", "\"\\u12g4\"", "-", "{\"a\":}", "[1 2]", "nul", "\"\\x\"", "1e", "\"\\ud83d\\u00e9\""]).as_bytes());
            } else {
                bytes.extend_from_slice(&garbage_token(r));
            }
            bytes.push(b' ');
            noise += 1;
        }
    }
    // malformed bytes with no value around them at all: then the reports are the only thing the run has to write
    if !front_only && r.chance(15) {
        if r.chance(50) {
            bytes.clear();
        }
        bytes.extend_from_slice(&garbage_token(r));
        bytes.push(b'\n');
        noise += 1;
    }
    let mut c = case(format!("C20-{id}"));
    c.mode = "main".into();
    c.spec.on_error = Some(r.ps(&["ignore", "panic", "stderr", "stdout"]).to_string());
    match r.below(6) {
        0 => c.spec.selects.push("(nope .)=x".into()), // invalid configuration
        1 => c.spec.sorts.push(". sideways".into()),
        2 => c.spec.selects.push("(size .)=n".into()),
        3 => c.spec.group = Some(None),
        _ => {}
    }
    // whole-input and limiting stages must report a failing stdout too (rows are written from `complete`,
    // or the failing row is the one that reaches the limit)
    if c.spec.sorts.is_empty() && c.spec.group.is_none() && r.chance(30) {
        // `--take` stops reading, so it is only combined with noise-free input (the oracle expects a report
        // for every noisy input that is read to its end)
        match if noise == 0 || front_only { r.below(3) } else { 0 } {
            0 => c.spec.sorts.push(".".into()),
            1 => c.spec.take = Some(r.range(1, 3) as u64),
            _ => {
                c.spec.sorts.push(". DESC".into());
                c.spec.take = Some(r.range(1, 3) as u64);
            }
        }
    }
    // rows that do NOT end with a line feed (another row separator, text output): the standard output of a process is line
    // buffered, so what such a run writes is still in the buffer when it ends — a failing standard output must be reported then too
    if r.chance(15) && c.spec.group.is_none() {
        c.spec.rowsep = Some(r.ps(&[",", " ", ";\t", "|", ""]).to_string());
        if r.chance(40) && !c.spec.selects.is_empty() {
            c.spec.style = Some("text".into());
        }
    }
    // closed / full stdout
    match r.below(5) {
        0 => c.wfail = Some(0),
        1 => c.wfail = Some(r.below(40)),
        _ => {}
    }
    c.sources.push(stdin_src(bytes));
    let mut g = Group::new(vec![c]);
    g.values = vals;
    g.tag = format!("noise={noise}");
    g.nontrivial = noise >= 1 || g.cases[0].spec.selects.iter().any(|s| s.contains("nope")) || !g.cases[0].spec.sorts.is_empty();
    g.labels.push(format!("policy:{}", g.cases[0].spec.on_error.clone().unwrap()));
    g
}

// ---------------------------------------------------------------------------------- oracles

/// implementation-side oracle: `None` = the property held on this group; `Some(msg)` = it failed
pub fn oracle(prop: &str, g: &Group, obs: &[Obs]) -> Option<String> {
    // no run may panic or overrun, whatever the property
    for (c, o) in g.cases.iter().zip(obs) {
        if o.res.starts_with("abort") {
            return Some(format!("{}: jawk panicked: {}", c.id, o.panic_msg));
        }
    }
    match prop {
        "C01" => {
            let o = &obs[0];
            if o.res != "ok" {
                return Some(format!("clean stream gave {}", o.res));
            }
            let rows = match parse_rows(&o.out, "\n") {
                Ok(r) => r,
                Err(e) => return Some(e),
            };
            if rows.len() != g.values.len() {
                return Some(format!("{} values in, {} rows out", g.values.len(), rows.len()));
            }
            for (i, (a, b)) in rows.iter().zip(&g.values).enumerate() {
                if a != b {
                    return Some(format!("row {i}: got {} expected {}", value::render(a), value::render(b)));
                }
            }
            None
        }
        "C02" => {
            let (c, o) = (&g.cases[0], &obs[0]);
            if o.res != "ok" {
                return Some(format!("run gave {}", o.res));
            }
            let sep = rowsep(&c.spec);
            let rows = match parse_rows(&o.out, &sep) {
                Ok(r) => r,
                Err(e) => return Some(e),
            };
            if g.tag != "computed" && rows != g.values {
                return Some("rows read back differ from the values output".into());
            }
            let text = String::from_utf8_lossy(&o.out).into_owned();
            let style = c.spec.jstyle.clone().unwrap_or("one-line".into());
            // white space outside strings
            let mut in_str = false;
            let mut esc = false;
            let body = text.replace(&sep, "");
            for ch in body.chars() {
                if in_str {
                    if esc { esc = false } else if ch == '\\' { esc = true } else if ch == '"' { in_str = false }
                    if (ch as u32) < 0x20 {
                        return Some("raw control character inside a string".into());
                    }
                    if !c.spec.utf8 && (ch as u32) > 126 {
                        return Some("non-ASCII character without --utf8-strings".into());
                    }
                } else if ch == '"' {
                    in_str = true;
                } else if ch == '\n' || ch == '\r' {
                    if style != "pretty" {
                        return Some(format!("line break inside a {style} row"));
                    }
                } else if ch == ' ' || ch == '\t' {
                    if style == "consise" {
                        return Some("white space in a consise row".into());
                    }
                }
            }
            // pretty: one element or member per line, indentation proportional to the nesting depth (one unit per level, the unit
            // being whatever the first indented line uses); a closing bracket stands at the depth of its opening line
            if style == "pretty" && sep == "\n" {
                let mut depth: usize = 0;
                let mut unit: Option<usize> = None;
                let (mut in_str, mut esc) = (false, false);
                for (ln, line) in text.split('\n').enumerate() {
                    let indent = line.len() - line.trim_start_matches(' ').len();
                    let first = line.trim_start_matches(' ').chars().next();
                    if !in_str {
                        if let Some(fc) = first {
                            let want_depth = if fc == ']' || fc == '}' { depth.saturating_sub(1) } else { depth };
                            if want_depth == 0 {
                                if indent != 0 {
                                    return Some(format!("pretty style: line {} is indented by {indent} at nesting depth 0", ln + 1));
                                }
                            } else {
                                let u = *unit.get_or_insert(indent / want_depth.max(1));
                                if u == 0 || indent != u * want_depth {
                                    return Some(format!("pretty style: line {} is indented by {indent} at nesting depth {want_depth} (the indentation unit of this output is {u}): not proportional to the nesting", ln + 1));
                                }
                            }
                        }
                    }
                    for ch in line.chars() {
                        if in_str {
                            if esc { esc = false } else if ch == '\\' { esc = true } else if ch == '"' { in_str = false }
                        } else if ch == '"' {
                            in_str = true;
                        } else if ch == '[' || ch == '{' {
                            depth += 1;
                        } else if ch == ']' || ch == '}' {
                            depth = depth.saturating_sub(1);
                        }
                    }
                }
            }
            None
        }
        "C08" => {
            // rows S..S+T-1 of the unlimited result
            let (lim, unl) = (&obs[0], &obs[1]);
            let c = &g.cases[0];
            if lim.res != unl.res {
                return Some(format!("limited run {} vs unlimited {}", lim.res, unl.res));
            }
            if c.spec.group.is_some() {
                // group built from exactly the retained rows and still emitted: compare with the ungrouped limited rows
                let ung = &obs[2];
                if lim.res == "ok" && c.spec.style.is_none() && c.spec.jstyle.is_none() {
                    let rows = parse_rows(&ung.out, "\n").ok()?;
                    let coll = parse_rows(&lim.out, "\n").ok()?;
                    if coll.len() != 1 {
                        return Some(format!("grouping with skip/take emitted {} collections", coll.len()));
                    }
                    let members: usize = match &coll[0] {
                        V::Arr(a) => a.len(),
                        V::Obj(o) => o.iter().map(|(_, v)| if let V::Arr(a) = v { a.len() } else { 0 }).sum(),
                        _ => return Some("collection is neither array nor object".into()),
                    };
                    if c.spec.group == Some(None) && members != rows.len() {
                        return Some(format!("merge holds {members} rows, the window has {}", rows.len()));
                    }
                    if members > rows.len() {
                        return Some(format!("group holds {members} rows, the window has only {}", rows.len()));
                    }
                }
                return None;
            }
            if lim.res.starts_with("abort") && unl.res == "ok" {
                return Some(format!("the run with --skip {} --take {:?} ended with {} ({}) while the unlimited run succeeds", c.spec.skip, c.spec.take, lim.res, lim.panic_msg));
            }
            if lim.res != "ok" || c.spec.style.is_some() {
                return None;
            }
            let sep = rowsep(&c.spec);
            let all = split_rows(&unl.out, &sep, c.spec.jstyle.as_deref() == Some("pretty"));
            let got = split_rows(&lim.out, &sep, c.spec.jstyle.as_deref() == Some("pretty"));
            let s = c.spec.skip as usize;
            let want: Vec<Vec<u8>> = all.into_iter().skip(s).take(c.spec.take.map(|t| t as usize).unwrap_or(usize::MAX)).collect();
            if got != want {
                return Some(format!("window mismatch: got {} rows, rows {}..{} of the unlimited output are {} rows (or differ)", got.len(), s, s.saturating_add(want.len()), want.len()));
            }
            None
        }
        "C09" => {
            let (grp, ung) = (&obs[0], &obs[1]);
            let c = &g.cases[0];
            if grp.res != "ok" || ung.res != "ok" {
                return if grp.res != ung.res { Some(format!("grouped run {} vs ungrouped {}", grp.res, ung.res)) } else { None };
            }
            if c.spec.style.is_some() || c.spec.jstyle.is_some() {
                // text output: exactly one row
                let sep = rowsep(&c.spec);
                if c.spec.style.as_deref() == Some("text") {
                    let n = String::from_utf8_lossy(&grp.out).matches(&sep).count();
                    if n != 1 {
                        return Some(format!("text output emitted {n} rows for the collection"));
                    }
                }
                return None;
            }
            let coll = match parse_rows(&grp.out, "\n") {
                Ok(r) => r,
                Err(e) => return Some(e),
            };
            if coll.len() != 1 {
                return Some(format!("{} collections emitted", coll.len()));
            }
            let rows = parse_rows(&ung.out, "\n").ok()?;
            match (&c.spec.group, &coll[0]) {
                (Some(None), V::Arr(a)) => {
                    if *a != rows {
                        return Some("merged array differs from the ungrouped rows".into());
                    }
                }
                (Some(Some(_)), V::Obj(o)) => {
                    // every member is an ungrouped row, order inside a key = arrival order, total <= rows
                    let mut seen = 0;
                    for (_, v) in o {
                        if let V::Arr(a) = v {
                            let mut pos = 0;
                            for m in a {
                                match rows[pos..].iter().position(|x| x == m) {
                                    Some(p) => pos += p + 1,
                                    None => return Some("a grouped row is not an ungrouped row in arrival order".into()),
                                }
                                seen += 1;
                            }
                        } else {
                            return Some("group member is not an array".into());
                        }
                    }
                    if seen > rows.len() {
                        return Some("more grouped rows than ungrouped rows".into());
                    }
                    // the keys, in first-seen order, and the size of every group, from the run that selects the key too
                    if obs.len() > 2 && obs[2].res == "ok" && !c.spec.unique {
                        let keyed = parse_rows(&obs[2].out, "\n").ok()?;
                        let mut want: Vec<(String, usize)> = vec![];
                        for row in &keyed {
                            if let Some(V::Str(k)) = get_key(row, "__k") {
                                match want.iter_mut().find(|(n, _)| n == k) {
                                    Some(e) => e.1 += 1,
                                    None => want.push((k.clone(), 1)),
                                }
                            }
                        }
                        let got: Vec<(String, usize)> = o.iter().map(|(k, v)| (k.clone(), if let V::Arr(a) = v { a.len() } else { 0 })).collect();
                        if got != want && !c.spec.selects.iter().any(|s| s.ends_with("=__k")) {
                            return Some(format!("the groups are {got:?}; the rows whose key is a string give, in first-seen order, {want:?}"));
                        }
                    }
                }
                _ => return Some("collection has the wrong type".into()),
            }
            None
        }
        "C10" if g.tag == "ctx-unique" => {
            let (u, n) = (&obs[0], &obs[1]);
            if u.res != "ok" || n.res != "ok" {
                return Some(format!("{}: runs gave {} / {}", g.cases[0].id, u.res, n.res));
            }
            // the selected values here are small integers, strings, [1], null and ordinals: byte-identical rows are the duplicates
            let nr = split_rows(&n.out, "\n", false);
            let mut want: Vec<&Vec<u8>> = vec![];
            for row in &nr {
                if !want.contains(&row) {
                    want.push(row);
                }
            }
            let ur = split_rows(&u.out, "\n", false);
            let got: Vec<&Vec<u8>> = ur.iter().collect();
            if got != want {
                return Some(format!("{}: --unique kept {} rows of {}; dropping exactly the rows whose SELECTED values occurred before keeps {}", g.cases[0].id, got.len(), nr.len(), want.len()));
            }
            None
        }
        "C10" => {
            // with --unique the output is a subsequence of the output without it, first occurrences kept
            let (u, n) = (&obs[0], &obs[1]);
            if u.res != "ok" || n.res != "ok" {
                return None;
            }
            let ur = split_rows(&u.out, "\n", false);
            let nr = split_rows(&n.out, "\n", false);
            let mut pos = 0;
            for row in &ur {
                match nr[pos..].iter().position(|x| x == row) {
                    Some(p) => pos += p + 1,
                    None => return Some("a unique row is not a row of the plain output (in order)".into()),
                }
            }
            // byte-identical rows are certainly duplicates: none may appear twice
            for (i, a) in ur.iter().enumerate() {
                if ur[..i].contains(a) {
                    return Some("the same row appears twice despite --unique".into());
                }
            }
            // every plain row must be represented: its first byte-identical occurrence is kept unless an equal row came earlier
            for row in &nr {
                let v = strict_row(row);
                if !ur.iter().any(|x| strict_row(x) == v) {
                    return Some("a row disappeared although no equal row precedes it".into());
                }
            }
            // "two values are duplicates exactly when the = function says they are equal": the third run asked `=` about
            // every pair of spellings of this stream; the rows --unique must keep follow from its answers alone
            if obs.len() >= 3 && obs[2].res == "ok" && g.tag.starts_with("sel=") {
                let mut parts = std::collections::HashMap::new();
                for kv in g.tag.split(';') {
                    if let Some((k, v)) = kv.split_once('=') {
                        parts.insert(k, v);
                    }
                }
                let sel: usize = parts.get("sel").and_then(|x| x.parse().ok()).unwrap_or(0);
                let filter_nulls = parts.get("fn") == Some(&"1");
                let pairs: Vec<(usize, usize)> = parts.get("pairs").map(|p| p.split(',').filter_map(|x| {
                    let (a, b) = x.split_once('-')?;
                    Some((a.parse().ok()?, b.parse().ok()?))
                }).collect()).unwrap_or_default();
                let answers = parse_rows(&obs[2].out, "\n").ok()?;
                if answers.len() != pairs.len() {
                    return Some(format!("`=` answered {} of {} pairs", answers.len(), pairs.len()));
                }
                let mut eq: std::collections::HashMap<(usize, usize), bool> = Default::default();
                for (p, a) in pairs.iter().zip(&answers) {
                    let e = matches!(get_key(a, "e"), Some(V::Bool(true)));
                    eq.insert(*p, e);
                    eq.insert((p.1, p.0), e);
                }
                let same = |a: Option<usize>, b: Option<usize>| -> bool {
                    match (a, b) {
                        (None, None) => true,
                        (Some(x), Some(y)) => x == y || *eq.get(&(x, y)).unwrap_or(&false),
                        _ => false,
                    }
                };
                let idx = |t: &str| -> Option<usize> { if t == "-" { None } else { t.parse().ok() } };
                let mut keys: Vec<(Option<usize>, Option<usize>)> = parts.get("rows").filter(|x| !x.is_empty()).map(|p| p.split(',').filter_map(|x| {
                    let (a, b) = x.split_once('/')?;
                    Some((idx(a), idx(b)))
                }).collect()).unwrap_or_default();
                if sel == 0 && filter_nulls {
                    keys.retain(|k| k.0 != Some(C10_NULL_SPELLING));
                }
                // (csv: the header line is not a row)
                let csv = g.cases[0].spec.style.as_deref() == Some("csv");
                let nr: Vec<Vec<u8>> = if csv { nr.iter().skip(1).cloned().collect() } else { nr.clone() };
                let ur: Vec<Vec<u8>> = if csv { ur.iter().skip(1).cloned().collect() } else { ur.clone() };
                if keys.len() == nr.len() {
                    let mut want: Vec<&Vec<u8>> = vec![];
                    for (i, k) in keys.iter().enumerate() {
                        let dup = keys[..i].iter().any(|p| same(p.0, k.0) && (sel < 2 || same(p.1, k.1)));
                        if !dup {
                            want.push(&nr[i]);
                        }
                    }
                    let got: Vec<&Vec<u8>> = ur.iter().collect();
                    if got != want {
                        return Some(format!("--unique kept {} rows; removing exactly the rows that `=` calls equal to an earlier row keeps {}", got.len(), want.len()));
                    }
                }
            }
            None
        }
        "C11" => {
            let (a, b, ab, rev, aa) = (&obs[0], &obs[1], &obs[2], &obs[3], &obs[4]);
            if [a, b, ab, rev, aa].iter().any(|o| o.res != "ok") {
                return None;
            }
            let c = &g.cases[0];
            let header = header_len(c, &a.out);
            let mut want = a.out.clone();
            want.extend_from_slice(&b.out[header.min(b.out.len())..]);
            if ab.out != want {
                return Some("out(A.B) != out(A).out(B)".into());
            }
            let mut want2 = a.out.clone();
            want2.extend_from_slice(&a.out[header.min(a.out.len())..]);
            if aa.out != want2 {
                return Some("out(A.A) != out(A).out(A)".into());
            }
            // the records of A one by one (when the group carries those runs): out(A) is their outputs one after the other
            if obs.len() > 5 && obs[5..].iter().all(|o| o.res == "ok") {
                let mut want3 = a.out[..header.min(a.out.len())].to_vec();
                for o in &obs[5..] {
                    want3.extend_from_slice(&o.out[header.min(o.out.len())..]);
                }
                if a.out != want3 {
                    return Some("out(A) is not the outputs of its records, each run on its own, one after the other".into());
                }
            }
            None
        }
        "C12" => {
            let o = &obs[0];
            if o.res != "ok" {
                return Some(format!("run gave {}", o.res));
            }
            for row in parse_rows(&o.out, "\n").ok()? {
                for (x, y) in [("bound", "plain"), ("bound2", "plain2"), ("bound3", "plain3"), ("bound4", "plain4"), ("viaSplit0", "viaSplit")] {
                    if get_key(&row, x) != get_key(&row, y) {
                        return Some(format!("{x} = {:?} but {y} = {:?}", get_key(&row, x).map(value::render), get_key(&row, y).map(value::render)));
                    }
                }
            }
            None
        }
        "C13" => {
            if g.tag == "cache" {
                for (c, o) in g.cases.iter().zip(obs).skip(1) {
                    if o.res != obs[0].res || o.out != obs[0].out {
                        return Some(format!("output depends on the regular expression cache size: {} differs from cache size 0", c.id));
                    }
                }
                return None;
            }
            if g.tag == "parentpos" {
                if obs.iter().any(|o| o.res != "ok") {
                    return Some(format!("{}: runs gave {:?}", g.cases[0].id, obs.iter().map(|o| o.res.clone()).collect::<Vec<_>>()));
                }
                let xs = |o: &Obs| -> Option<Vec<String>> {
                    Some(parse_rows(&o.out, "\n").ok()?.iter().map(|r| match get_key(r, "x") { Some(V::Str(s)) => s.clone(), _ => "<absent>".into() }).collect())
                };
                let reference = xs(&obs[0])?;
                let later = xs(&obs[1])?;
                if later != reference {
                    return Some(format!("{}: as the first selection the expression gives {reference:?}, as a later selection {later:?}", g.cases[0].id));
                }
                let mut want = reference.clone();
                want.sort(); // stable, by code point: the strings here are ASCII
                let sorted = xs(&obs[2])?;
                if sorted != want {
                    return Some(format!("{}: as sort key the expression orders the rows {sorted:?}; by its values as first selection the order is {want:?}", g.cases[0].id));
                }
                let mut keys: Vec<String> = vec![];
                for x in &reference {
                    if !keys.contains(x) { keys.push(x.clone()); }
                }
                let grouped = parse_rows(&obs[3].out, "\n").ok()?;
                let got: Vec<String> = match grouped.first() { Some(V::Obj(m)) => m.iter().map(|(k, _)| k.clone()).collect(), _ => vec![] };
                if got != keys {
                    return Some(format!("{}: as group key the expression gives the groups {got:?}; its values as first selection are {keys:?}", g.cases[0].id));
                }
                return None;
            }
            if g.tag == "boundpos" {
                let (a, b) = (&obs[0], &obs[1]);
                if a.res != b.res {
                    return Some(format!("with the bindings the run gives {}, with the bound values written out {}", a.res, b.res));
                }
                // the select names are the expression texts only where no name is given: all selects here are named
                if a.out != b.out {
                    return Some(format!("{}: an expression over --set bindings differs from the same expression with the values written out", g.labels.join(" ")));
                }
                return None;
            }
            let (a, b) = (&obs[0], &obs[1]);
            if a.res != b.res || a.out != b.out {
                return Some(format!("canonical and respelled forms differ ({} vs {})", a.res, b.res));
            }
            let m = &obs[2];
            if m.res == "ok" {
                for row in parse_rows(&m.out, "\n").ok()? {
                    if get_key(&row, "viaMacro") != get_key(&row, "direct") {
                        return Some("value through a macro differs from the direct selection".into());
                    }
                }
            }
            None
        }
        "C14" if g.tag == "files-after-take" => {
            let (c, o) = (&g.cases[0], &obs[0]);
            if o.res != "ok" {
                return Some(format!("{}: run gave {} {}", c.id, o.res, o.panic_msg));
            }
            let t = c.spec.take.unwrap_or(0) as usize;
            let rows = parse_rows(&o.out, "\n").ok()?;
            if rows.len() != t {
                return Some(format!("{}: --take {t} gave {} rows", c.id, rows.len()));
            }
            if !o.err.is_empty() {
                return Some(format!("{}: --take {t} was satisfied inside the first non-empty file, yet a later file was read: its malformed bytes were reported ({})",
                                    c.id, crate::runner::show_bytes(&o.err).chars().take(160).collect::<String>()));
            }
            // a bounded number of bytes past the value that produced the T-th row: the rows wanted end within the first hundred
            // bytes of the file; a buffered reader may take a few blocks, not the file
            let sizes: usize = c.sources.iter().map(|s| s.bytes.len()).sum();
            if sizes > 150_000 && o.file_read > 65_536 {
                return Some(format!("{}: --take {t} is satisfied within the first bytes of a {sizes}-byte input file, yet {} bytes were read from the input files", c.id, o.file_read));
            }
            None
        }
        "C14" => {
            let (c, o) = (&g.cases[0], &obs[0]);
            if o.res.contains("overrun") {
                return Some(format!("read more than {} bytes past the prefix without stopping", crate::runner::ENDLESS_CAP));
            }
            let _ = c;
            if o.late_reads > 0 {
                return Some(format!("{} read call(s) on stdin after --take {} rows were already on stdout (bytes pulled: {:?})",
                                    o.late_reads, c.spec.take.unwrap_or(0), o.pulled));
            }
            None
        }
        "C16" => {
            let (base, rf, wf) = (&obs[0], &obs[1], &obs[2]);
            let c = &g.cases[1];
            let off = c.rerr.map(|x| x.1).unwrap_or(0);
            let total = g.cases[0].sources[0].bytes.len();
            if g.tag == "missing-file" {
                let stopped_early = g.cases[0].spec.take.is_some();
                if rf.res.starts_with("abort") {
                    return Some(format!("a missing input file ended the run with {} ({}) instead of an error", rf.res, rf.panic_msg));
                }
                if rf.res != "err:io" && !(stopped_early || rf.res.starts_with("err:")) {
                    return Some(format!("a missing input file ended the run with {}", rf.res));
                }
            } else if off < total && rf.res != "err:io" && !(rf.res == "err:json" && false) {
                // a read error before the end of input must surface unless the run had already stopped (Break) or failed otherwise
                let stopped_early = g.cases[0].spec.take.is_some();
                if !(stopped_early || rf.res.starts_with("err:")) {
                    return Some(format!("read failure at byte {off} of {total} ended with {}", rf.res));
                }
            }
            let streaming = g.cases[0].spec.sorts.is_empty() && g.cases[0].spec.group.is_none();
            if streaming && base.res == "ok" && !base.out.starts_with(&rf.out) && g.cases[0].spec.on_error.as_deref() != Some("stdout") {
                return Some("output before the read failure is not a prefix of the fault-free output".into());
            }
            // a stage that needs the whole input (sort, group, merge) prints only at the end of the input: when the input FAILS there
            // is no end, so nothing computed from the part that was read may be printed as if it were the result
            if !streaming && rf.res == "err:io" && g.cases[0].spec.on_error.as_deref() != Some("stdout") && g.cases[0].spec.style.is_none() && !rf.out.is_empty() {
                return Some(format!("read failure at byte {off} of {total} in a pipeline that sorts or groups the whole input, yet {} bytes were written to standard output: a result computed from the truncated input",
                                    rf.out.len()));
            }
            if base.res == "ok" {
                let k = g.cases[2].wfail.unwrap_or(0);
                if k < base.out.len() {
                    if wf.res != "err:io" {
                        return Some(format!("write failure at byte {k} ended with {}", wf.res));
                    }
                    if wf.out != base.out[..k] {
                        return Some("bytes written before the write failure are not the prefix of the fault-free output".into());
                    }
                }
            }
            None
        }
        "C17" => {
            let whole = &obs[0];
            for (i, o) in obs.iter().enumerate().take(3).skip(1) {
                if o.res != whole.res || o.out != whole.out || o.err != whole.err {
                    return Some(format!("delivery {} changes the output", g.cases[i].id));
                }
            }
            // the same bytes as ONE FILE: same outcome, same values, ordinals and positions; only &file-name differs
            if obs.len() > 3 {
                let file = &obs[3];
                if file.res != whole.res {
                    return Some(format!("{}: the bytes on standard input end with {}, the same bytes as a file with {}", g.cases[3].id, whole.res, file.res));
                }
                if whole.res == "ok" {
                    let strip = |out: &[u8]| -> Option<Vec<V>> {
                        Some(parse_rows(out, "\n").ok()?.into_iter().map(|r| match r {
                            V::Obj(m) => V::Obj(m.into_iter().filter(|(k, _)| k != "n").collect()),
                            other => other,
                        }).collect())
                    };
                    if strip(&whole.out) != strip(&file.out) {
                        return Some(format!("{}: reading the bytes from a file gives other rows than reading them from standard input", g.cases[3].id));
                    }
                }
            }
            // ordinals and positions of the whole-stdin run, recomputed from the bytes (clean streams only)
            let tag: std::collections::HashMap<&str, &str> = g.tag.split_whitespace().filter_map(|t| t.split_once('=')).collect();
            if whole.res == "ok" && tag.get("noisy") == Some(&"0") {
                let bytes = &g.cases[0].sources[0].bytes;
                let spans: Vec<(usize, usize)> = tag.get("spans").map(|t| t.split(',').filter_map(|x| x.split_once('-')).filter_map(|(a, b)| Some((a.parse().ok()?, b.parse().ok()?))).collect()).unwrap_or_default();
                let ooa = tag.get("ooa") == Some(&"1");
                // offset of (line, col): col = 1 + bytes since the last line feed
                let offset_of = |line: usize, col: usize| -> Option<usize> {
                    let mut l = 1;
                    let mut start = 0;
                    for (i, b) in bytes.iter().enumerate() {
                        if l == line { break }
                        if *b == b'\n' { l += 1; start = i + 1; }
                    }
                    if l == line { Some(start + col - 1) } else { None }
                };
                let rows = parse_rows(&whole.out, "\n").ok()?;
                let kept: Vec<(usize, usize)> = spans.iter().zip(&g.values).filter(|(_, v)| !ooa || matches!(v, V::Obj(_) | V::Arr(_))).map(|(s, _)| *s).collect();
                if rows.len() != kept.len() {
                    return Some(format!("{} rows for {} values", rows.len(), kept.len()));
                }
                let num = |row: &V, k: &str| -> Option<usize> { match get_key(row, k) { Some(V::Int(i)) => Some(*i as usize), _ => None } };
                let mut prev_end: Option<(usize, usize)> = None;
                for (k, (row, (a, b))) in rows.iter().zip(&kept).enumerate() {
                    if num(row, "i") != Some(k) || num(row, "f") != Some(k) {
                        return Some(format!("row {k}: &index / &index-in-file are {:?} / {:?}", num(row, "i"), num(row, "f")));
                    }
                    if get_key(row, "n").is_some() {
                        return Some(format!("row {k}: &file-name is set for standard input"));
                    }
                    let (sl, sc, el, ec) = (num(row, "sl")?, num(row, "sc")?, num(row, "el")?, num(row, "ec")?);
                    let (so, eo) = match (offset_of(sl, sc), offset_of(el, ec)) {
                        (Some(x), Some(y)) => (x, y),
                        _ => return Some(format!("row {k}: position {sl}:{sc}..{el}:{ec} is not in the input (lines are counted by line feeds)")),
                    };
                    if !(so <= *a && *b <= eo && eo <= *b + 1) {
                        return Some(format!("row {k}: the range {sl}:{sc}..{el}:{ec} = bytes {so}..{eo} does not delimit the value's text at bytes {a}..{b}"));
                    }
                    if ooa {
                        // values the option drops lie between the rows: the range of a row starts after the text of the value in
                        // front of it, dropped or not (it never swallows another value)
                        if let Some(j) = spans.iter().position(|s| s == &(*a, *b)) {
                            if j > 0 && so < spans[j - 1].1 {
                                return Some(format!("row {k}: the range {sl}:{sc}..{el}:{ec} = bytes {so}..{eo} starts inside or before the previous value (bytes {}..{}), which --only-objects-and-arrays dropped", spans[j - 1].0, spans[j - 1].1));
                            }
                        }
                    }
                    if !ooa {
                        if let Some(pe) = prev_end {
                            if pe != (sl, sc) {
                                return Some(format!("row {k}: starts at {sl}:{sc} but the previous range ended at {}:{}", pe.0, pe.1));
                            }
                        } else if (sl, sc) != (1, 1) {
                            return Some(format!("the first range starts at {sl}:{sc}"));
                        }
                    }
                    prev_end = Some((el, ec));
                }
            }
            // the input is the same input when the file argument is not a regular file: the executable reading its standard
            // input through the path /dev/stdin (a pipe: length 0, not seekable) gives the rows of the plain standard-input run
            {
                use std::hash::{Hash, Hasher};
                let mut h = std::collections::hash_map::DefaultHasher::new();
                g.cases[0].id.hash(&mut h);
                if h.finish() % 100 < 12 && whole.res == "ok" {
                    let c = &g.cases[0];
                    let argv = c.argv("/nonexistent");
                    let input = &c.sources[0].bytes;
                    let mut with_path: Vec<String> = argv[1..].to_vec();
                    with_path.push("/dev/stdin".into());
                    if let (Ok(plain), Ok(path)) = (crate::oracle_b::spawn_jawk(&argv[1..], input, crate::oracle_b::StdoutKind::Pipe),
                                                    crate::oracle_b::spawn_jawk(&with_path, input, crate::oracle_b::StdoutKind::Pipe)) {
                        let cols = |out: &[u8]| -> Option<Vec<(Option<V>, Option<V>, Option<V>)>> {
                            Some(parse_rows(out, "\n").ok()?.iter().map(|r| (get_key(r, "v").cloned(), get_key(r, "i").cloned(), get_key(r, "f").cloned())).collect())
                        };
                        if plain.code == Some(0) {
                            if path.code != Some(0) {
                                return Some(format!("{}: the executable reads these bytes from standard input, but fails on them through the path /dev/stdin (status {:?})", c.id, path.code));
                            }
                            if cols(&plain.out) != cols(&path.out) {
                                return Some(format!("{}: {} rows from standard input, {} rows from the same bytes through the path /dev/stdin (a pipe, not a regular file)",
                                                    c.id, cols(&plain.out).map(|x| x.len()).unwrap_or(0), cols(&path.out).map(|x| x.len()).unwrap_or(0)));
                            }
                        }
                    }
                }
            }
            // files f1..fn: the values of f1, then f2, …; no value spans two files (a value cut by a file boundary is
            // malformed in both files); &index runs on, &index-in-file restarts, &file-name names the file
            if obs.len() > 5 {
                let multi = &obs[4];
                let alone = &obs[5..];
                // cutting the bytes into files can only create malformed regions (a value cut in two, a character cut in two):
                // under the default policy these are skipped, the run still succeeds
                if whole.res == "ok" && g.cases[0].spec.on_error.is_none() {
                    if multi.res != "ok" {
                        return Some(format!("{}: the bytes cut into files end the run with {} {}", g.cases[4].id, multi.res, multi.panic_msg));
                    }
                    if let Some((c, o)) = g.cases[5..].iter().zip(alone).find(|(_, o)| o.res != "ok") {
                        return Some(format!("{}: one of the files on its own ends the run with {} {}", c.id, o.res, o.panic_msg));
                    }
                }
                if multi.res == "ok" && alone.iter().all(|o| o.res == "ok") {
                    let mrows = parse_rows(&multi.out, "\n").ok()?;
                    let mut want: Vec<(Option<V>, Option<V>, Option<V>)> = vec![];
                    for o in alone {
                        for row in parse_rows(&o.out, "\n").ok()? {
                            want.push((get_key(&row, "v").cloned(), get_key(&row, "f").cloned(), get_key(&row, "n").cloned()));
                        }
                    }
                    if mrows.len() != want.len() {
                        return Some(format!("{}: {} rows for the files together, {} for the files one by one", g.cases[4].id, mrows.len(), want.len()));
                    }
                    for (k, (row, w)) in mrows.iter().zip(&want).enumerate() {
                        let got = (get_key(row, "v").cloned(), get_key(row, "f").cloned(), get_key(row, "n").cloned());
                        if &got != w {
                            return Some(format!("{}: row {k} (value, &index-in-file, &file-name) differs between the files together and the files one by one", g.cases[4].id));
                        }
                        if get_key(row, "i") != Some(&V::Int(k as i128)) {
                            return Some(format!("{}: row {k} has &index {:?}", g.cases[4].id, get_key(row, "i").map(value::render)));
                        }
                    }
                }
            }
            None
        }
        "C18" => {
            let (c, o) = (&g.cases[0], &obs[0]);
            let maybe_valid = g.tag.ends_with(":truncate") || g.tag.ends_with(":arity+");
            let rejected = o.res == "err:config" || o.res == "err:invalid" || o.res == "err:clap";
            if !rejected && !maybe_valid {
                return Some(format!("invalid configuration ({}) gave {}", g.tag, o.res));
            }
            if !rejected {
                return None;
            }
            if !o.out.is_empty() {
                return Some("output written before a configuration error".into());
            }
            if o.opened_stdin {
                return Some("input opened before the configuration was rejected".into());
            }
            let _ = c;
            None
        }
        "C07" if g.tag == "functions-ctx" => {
            let (c, o) = (&g.cases[0], &obs[0]);
            if o.res != "ok" {
                return Some(format!("{}: run gave {} {}", c.id, o.res, o.panic_msg));
            }
            let rows = parse_rows(&o.out, "\n").ok()?;
            if rows.len() != g.values.len() {
                return Some(format!("{}: {} rows for {} records", c.id, rows.len(), g.values.len()));
            }
            for (k, (row, rec)) in rows.iter().zip(&g.values).enumerate() {
                let sign = match get_key(rec, "sign") { Some(V::Int(i)) => *i, _ => 1 };
                let input: Vec<i128> = match get_key(rec, "n") { Some(V::Arr(a)) => a.iter().filter_map(|v| if let V::Int(i) = v { Some(*i) } else { None }).collect(), _ => vec![] };
                let mut want = input.clone();
                want.sort_by_key(|x| x * sign); // stable
                let got: Vec<i128> = match get_key(row, "s") { Some(V::Arr(a)) => a.iter().filter_map(|v| if let V::Int(i) = v { Some(*i) } else { None }).collect(), _ => vec![] };
                if got != want {
                    return Some(format!("{}: record {k} (sign {sign}): (sort_by .n (* . ^.sign)) gave {got:?}, sorted by its own key it is {want:?}", c.id));
                }
                let p = match get_key(rec, "p") { Some(V::Str(s)) => s.clone(), _ => "a".into() };
                let keys: Vec<i128> = match get_key(row, "t") {
                    Some(V::Arr(a)) => a.iter().filter_map(|v| match get_key(v, &p) { Some(V::Int(i)) => Some(*i), _ => None }).collect(),
                    _ => vec![],
                };
                if keys.len() != 3 || keys.windows(2).any(|w| w[0] > w[1]) {
                    return Some(format!("{}: record {k}: the objects sorted by their member {p:?} come out with keys {keys:?}", c.id));
                }
            }
            None
        }
        "C03" | "C06" | "C07" => crate::oracle_a::oracle(prop, g, obs),
        "C04" if g.tag.starts_with("strings\u{1}") => {
            let (c, o) = (&g.cases[0], &obs[0]);
            if o.res != "ok" {
                return Some(format!("{}: run gave {} {}", c.id, o.res, o.panic_msg));
            }
            let parts: Vec<&str> = g.tag.split('\u{1}').collect();
            let sep = parts[1];
            let n = match g.values.first() { Some(V::Int(i)) => *i as usize, _ => 0 };
            let items: Vec<&str> = if n == 0 { vec![] } else { parts[2].split('\u{2}').collect() };
            let row = parse_rows(&o.out, "\n").ok()?.into_iter().next()?;
            let want = items.join(sep);
            let s = |k: &str| match get_key(&row, k) { Some(V::Str(x)) => Some(x.clone()), _ => None };
            if s("j").as_deref() != Some(want.as_str()) {
                return Some(format!("{}: (join {:?} {:?}) is {:?}; the items with the separator between all of them are {:?}", c.id, items, sep, s("j"), want));
            }
            if s("d").as_deref() != Some(items.join(", ").as_str()) {
                return Some(format!("{}: (join {:?}) with the default separator is {:?}", c.id, items, s("d")));
            }
            if s("c").as_deref() != Some(format!("{want}{sep}").as_str()) {
                return Some(format!("{}: concat of the joined text, an empty string and the separator is {:?}", c.id, s("c")));
            }
            if get_key(&row, "n") != Some(&V::Int(want.chars().count() as i128)) {
                return Some(format!("{}: size of the joined text is {:?} for {:?}", c.id, get_key(&row, "n").map(value::render), want));
            }
            crate::oracle_b::oracle(prop, g, obs)
        }
        "C04" if g.labels.iter().any(|l| l == "kind:order-long") => {
            // element order: whatever the function, elements that carry an arrival index `i` and compare equal on `k`
            // must keep their arrival order (sort_by / order_by: stable; filter / map / group_by / take / sub: order kept)
            let (c, o) = (&g.cases[0], &obs[0]);
            if o.res != "ok" {
                return Some(format!("{}: run gave {} {}", c.id, o.res, o.panic_msg));
            }
            let rows = parse_rows(&o.out, "\n").ok()?;
            let row = rows.first()?;
            fn idx_of(v: &V) -> Option<(String, i128)> {
                match (get_key(v, "k"), get_key(v, "i")) {
                    (Some(k), Some(V::Int(i))) => Some((value::render(k), *i)),
                    _ => None,
                }
            }
            fn ordered(list: &[V], by_key: bool) -> Option<String> {
                let mut last: std::collections::HashMap<String, i128> = Default::default();
                for v in list {
                    if let Some((k, i)) = idx_of(v) {
                        let slot = if by_key { k } else { String::new() };
                        if let Some(p) = last.get(&slot) {
                            if *p >= i {
                                return Some(format!("element i={i} comes after element i={p}"));
                            }
                        }
                        last.insert(slot, i);
                    }
                }
                None
            }
            for (j, sel) in c.spec.selects.iter().enumerate() {
                let Some(val) = get_key(row, &format!("c{j}")) else { continue };
                let e = sel.rsplit_once('=').map(|x| x.0).unwrap_or(sel);
                let stable_by_key = e.starts_with("(sort_by .l") || e.starts_with("(order_by .l");
                let keeps_order = e.starts_with("(filter .l") || e.starts_with("(take .l") || e.starts_with("(take_last .l") || e.starts_with("(sub .l")
                    || e.starts_with("(pop .l") || e.starts_with("(pop_first .l");
                match val {
                    V::Arr(items) if stable_by_key || keeps_order => {
                        if let Some(m) = ordered(items, stable_by_key) {
                            return Some(format!("{}: `{e}` does not keep arrival order among {}: {m}", c.id, if stable_by_key { "equal keys" } else { "the elements" }));
                        }
                    }
                    V::Arr(items) if e.starts_with("(zip ") => {
                        // "(zip l0 l1 …)": element t is the object with a member ".j" for every list j that has an item t
                        let n = match get_key(g.values.first().unwrap_or(row), "l") { Some(V::Arr(a)) => a.len(), _ => 0 };
                        let half = n / 2;
                        let inner = &e[5..e.len() - 1];
                        // split the arguments at top level
                        let mut args: Vec<String> = vec![];
                        let (mut depth, mut cur) = (0i32, String::new());
                        for ch in inner.chars() {
                            match ch {
                                '(' | '[' => { depth += 1; cur.push(ch); }
                                ')' | ']' => { depth -= 1; cur.push(ch); }
                                ' ' if depth == 0 => { if !cur.is_empty() { args.push(std::mem::take(&mut cur)); } }
                                _ => cur.push(ch),
                            }
                        }
                        if !cur.is_empty() { args.push(cur); }
                        let len_of = |a: &str| -> Option<usize> {
                            if a == "[]" { return Some(0); }
                            if a.starts_with("(map .l ") { return Some(n); }
                            if let Some(rest) = a.strip_prefix("(take (map .l ") {
                                let k = rest.rsplit(' ').next()?.trim_end_matches(')');
                                let k = if k == ".n" { half } else { k.parse().ok()? };
                                return Some(k.min(n));
                            }
                            None
                        };
                        let lens: Option<Vec<usize>> = args.iter().map(|a| len_of(a)).collect();
                        if let Some(lens) = lens {
                            let longest = lens.iter().copied().max().unwrap_or(0);
                            if items.len() != longest {
                                return Some(format!("{}: `{e}` has {} elements for lists of lengths {lens:?}", c.id, items.len()));
                            }
                            for (t, it) in items.iter().enumerate() {
                                let want: Vec<String> = lens.iter().enumerate().filter(|(_, l)| **l > t).map(|(j, _)| format!(".{j}")).collect();
                                let got: Vec<String> = match it { V::Obj(m) => m.iter().map(|(k, _)| k.clone()).collect(), _ => vec!["<not an object>".into()] };
                                if got != want {
                                    return Some(format!("{}: element {t} of `{e}` has the members {got:?}; the lists that have an item {t} are {want:?}", c.id));
                                }
                            }
                        }
                    }
                    V::Obj(groups) if e.starts_with("(group_by .l") => {
                        for (name, grp) in groups {
                            if let V::Arr(items) = grp {
                                if let Some(m) = ordered(items, false) {
                                    return Some(format!("{}: group {name} of `{e}` is not in arrival order: {m}", c.id));
                                }
                            }
                        }
                    }
                    _ => {}
                }
            }
            crate::oracle_b::oracle(prop, g, obs)
        }
        "C04" if g.tag.starts_with("arith-illtyped") => {
            // "If all the arguments are number …": one argument that is not a number (or absent) ⇒ nothing
            let o = &obs[0];
            if o.res != "ok" {
                return Some(format!("{}: run gave {}", g.tag, o.res));
            }
            for row in parse_rows(&o.out, "\n").ok()? {
                if get_key(&row, "x").is_some() {
                    return Some(format!("{}: an argument is not a number, yet the result is {}", g.tag, value::render(&row)));
                }
            }
            None
        }
        "C19" if g.tag.starts_with("nas-sort\u{1}") => {
            let (c, o) = (&g.cases[0], &obs[0]);
            if o.res != "ok" {
                return Some(format!("{}: run gave {} {}", c.id, o.res, o.panic_msg));
            }
            let items: Vec<&str> = g.tag.split('\u{1}').nth(1).unwrap_or("").split('\u{2}').collect();
            let decs: Option<Vec<crate::oracle_b::Dec>> = items.iter().map(|x| crate::oracle_b::Dec::parse(x)).collect();
            let decs = decs?;
            let mut idx: Vec<usize> = (0..items.len()).collect();
            idx.sort_by(|a, b| crate::oracle_b::Dec::cmp(&decs[*a], &decs[*b]).unwrap_or(std::cmp::Ordering::Equal)); // stable
            let want: Vec<String> = idx.iter().map(|i| items[*i].to_string()).collect();
            let row = parse_rows(&o.out, "\n").ok()?.into_iter().next()?;
            let got: Vec<String> = match get_key(&row, "s") { Some(V::Arr(a)) => a.iter().filter_map(|v| if let V::Str(s) = v { Some(s.clone()) } else { None }).collect(), _ => vec![] };
            if got != want {
                return Some(format!("{}: the number-as-string sort of {items:?} is {got:?}; by exact value, ties in arrival order, it is {want:?}", c.id));
            }
            let got_t: Vec<String> = match get_key(&row, "t") {
                Some(V::Arr(a)) => a.iter().filter_map(|v| match get_key(v, "k") { Some(V::Str(s)) => Some(s.clone()), _ => None }).collect(),
                _ => vec![],
            };
            if got_t != want {
                return Some(format!("{}: sorting objects by their number-as-string member gives {got_t:?}, expected {want:?}", c.id));
            }
            None
        }
        "C19" if g.tag.starts_with("ints-unique\u{1}") => {
            let (c, o) = (&g.cases[0], &obs[0]);
            if o.res != "ok" {
                return Some(format!("{}: run gave {} {}", c.id, o.res, o.panic_msg));
            }
            let ints: Vec<&str> = g.tag.split('\u{1}').nth(1).unwrap_or("").split(',').collect();
            let mut want: Vec<&str> = vec![];
            for i in &ints {
                if !want.contains(i) {
                    want.push(i);
                }
            }
            // the integer of a row is its only run of digits (with its sign)
            let text = String::from_utf8_lossy(&o.out).into_owned();
            let got: Vec<String> = text.split('\n').filter(|l| !l.is_empty()).map(|l| {
                let start = l.find(|ch: char| ch == '-' || ch.is_ascii_digit()).unwrap_or(0);
                l[start..].chars().take_while(|ch| *ch == '-' || ch.is_ascii_digit()).collect()
            }).collect();
            if got.iter().map(|x| x.as_str()).collect::<Vec<_>>() != want {
                return Some(format!("{}: --unique over the integers {:?} kept {:?}, the distinct integers in order of first occurrence are {:?}", c.id, ints, got, want));
            }
            None
        }
        "C19" if g.tag == "ints-text" => {
            let (c, o) = (&g.cases[0], &obs[0]);
            if o.res != "ok" {
                return Some(format!("{}: run gave {} {}", c.id, o.res, o.panic_msg));
            }
            let csv = c.spec.style.as_deref() == Some("csv");
            let text = String::from_utf8_lossy(&o.out).into_owned();
            let mut lines: Vec<&str> = text.split('\n').filter(|l| !l.is_empty()).collect();
            if csv && !lines.is_empty() {
                lines.remove(0); // header
            }
            let mut want: Vec<[String; 4]> = g.values.iter().map(|row| {
                let int = |v: Option<&V>| match v { Some(V::Int(i)) => i.to_string(), _ => String::new() };
                let l = match get_key(row, "l") { Some(V::Arr(a)) => a.clone(), _ => vec![] };
                [int(get_key(row, "k")), int(get_key(row, "id")), int(l.first()), int(l.last())]
            }).collect();
            if !c.spec.sorts.is_empty() {
                want.reverse();
            }
            if lines.len() != want.len() {
                return Some(format!("{}: {} rows for {} records", c.id, lines.len(), want.len()));
            }
            for (line, w) in lines.iter().zip(&want) {
                let got: Vec<&str> = line.split(if csv { ", " } else { "\t" }).collect();
                if got.len() != 4 || got.iter().zip(w.iter()).any(|(a, b)| a != b) {
                    return Some(format!("{}: the {} printer wrote `{}` for the integers {:?}", c.id, if csv { "csv" } else { "text" }, line, w));
                }
            }
            None
        }
        "C15" if g.cases[0].spec.esc.first().map(|e| e == ",\\,").unwrap_or(false) => {
            // separator and line breaks escaped in the data: every line is a row, and splitting it at the commas that are
            // not preceded by a backslash gives exactly one field per selection
            let (c, o) = (&g.cases[0], &obs[0]);
            if o.res == "ok" && c.spec.rowsep.is_none() {
                let n = c.spec.selects.len();
                let text = String::from_utf8_lossy(&o.out).into_owned();
                for (k, line) in text.split('\n').filter(|l| !l.is_empty()).enumerate() {
                    let (mut fields, mut esc) = (1, false);
                    for ch in line.chars() {
                        if esc { esc = false; } else if ch == '\\' { esc = true; } else if ch == ',' { fields += 1; }
                    }
                    if fields != n {
                        return Some(format!("{}: text row {k} has {fields} fields for {n} selections although the separator is escaped in the data: {:?}", c.id, line.chars().take(120).collect::<String>()));
                    }
                }
            }
            crate::oracle_b::oracle(prop, g, obs)
        }
        "C04" | "C05" | "C15" | "C19" | "C20" => crate::oracle_b::oracle(prop, g, obs),
        _ => None,
    }
}

fn strict_row(row: &[u8]) -> Option<V> {
    value::strict_parse(row).ok()
}

/// split output into rows at the separator (pretty rows span lines, so the separator must be followed by a row start)
pub fn split_rows(out: &[u8], sep: &str, pretty: bool) -> Vec<Vec<u8>> {
    if pretty {
        // strict parse
        let mut rows = vec![];
        let mut p = Strict::new(out);
        while p.i < out.len() {
            let start = p.i;
            if p.value().is_err() {
                break;
            }
            rows.push(out[start..p.i].to_vec());
            p.i += sep.len();
        }
        return rows;
    }
    let sepb = sep.as_bytes();
    let mut rows = vec![];
    let mut cur = vec![];
    let mut i = 0;
    while i < out.len() {
        if out[i..].starts_with(sepb) {
            rows.push(std::mem::take(&mut cur));
            i += sepb.len();
        } else {
            cur.push(out[i]);
            i += 1;
        }
    }
    if !cur.is_empty() {
        rows.push(cur);
    }
    rows
}

/// length of the header row (csv / --headers) at the start of the output
fn header_len(c: &Case, out: &[u8]) -> usize {
    let has = c.spec.style.as_deref() == Some("csv") || c.spec.headers;
    if !has {
        return 0;
    }
    let sep = rowsep(&c.spec);
    match String::from_utf8_lossy(out).find(&sep) {
        Some(p) => p + sep.len(),
        None => 0,
    }
}
