//! SplitMix64: every random choice of a run derives from one seed, so a case replays from (seed, index).
#[derive(Clone)]
pub struct Rng(pub u64);

impl Rng {
    pub fn new(seed: u64) -> Self {
        Rng(seed.wrapping_mul(0x9E37_79B9_7F4A_7C15).wrapping_add(0x1234_5678_9ABC_DEF1))
    }
    pub fn fork(&mut self, salt: u64) -> Rng {
        Rng::new(self.next() ^ salt.wrapping_mul(0xD6E8_FEB8_6659_FD93))
    }
    pub fn next(&mut self) -> u64 {
        self.0 = self.0.wrapping_add(0x9E37_79B9_7F4A_7C15);
        let mut z = self.0;
        z = (z ^ (z >> 30)).wrapping_mul(0xBF58_476D_1CE4_E5B9);
        z = (z ^ (z >> 27)).wrapping_mul(0x94D0_49BB_1331_11EB);
        z ^ (z >> 31)
    }
    /// uniform in 0..n (n > 0)
    pub fn below(&mut self, n: usize) -> usize {
        (self.next() % (n as u64)) as usize
    }
    pub fn range(&mut self, lo: usize, hi_incl: usize) -> usize {
        lo + self.below(hi_incl - lo + 1)
    }
    pub fn chance(&mut self, percent: usize) -> bool {
        self.below(100) < percent
    }
    pub fn pick<'a, T>(&mut self, xs: &'a [T]) -> &'a T {
        &xs[self.below(xs.len())]
    }
    /// pick a string literal
    pub fn ps(&mut self, xs: &[&'static str]) -> &'static str {
        xs[self.below(xs.len())]
    }
}
