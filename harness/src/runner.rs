//! Runs the real `jawk::go` in-process on a case, and the Lean model driver on a batch of lines.
use crate::case::{hex, unhex, Case};
use clap::Parser;
use std::cell::RefCell;
use std::io::{Read, Write};
use std::panic::{catch_unwind, AssertUnwindSafe};
use std::rc::Rc;
use std::sync::atomic::{AtomicBool, AtomicUsize, Ordering};
use std::sync::Arc;

/// what one side did on a case
#[derive(Clone, Debug, PartialEq, Default)]
pub struct Obs {
    /// ok | err:io | err:json | err:invalid | err:config | err:fmt | abort:panic | abort:overflow | exit:N
    pub res: String,
    pub out: Vec<u8>,
    pub err: Vec<u8>,
    /// bytes pulled from stdin (in-process reader only)
    pub pulled: Vec<usize>,
    pub opened_stdin: bool,
    pub panic_msg: String,
    /// C14: number of `read` calls made on stdin AFTER the output already held `--take` rows
    /// (rows = line feeds on stdout; only meaningful for one-line JSON output without header)
    pub late_reads: usize,
    /// bytes this process read through the operating system while `go` ran (input FILES; the in-process stdin makes no system call)
    pub file_read: usize,
}

/// `rchar` of /proc/self/io: bytes this process has asked the operating system to read so far
pub fn proc_rchar() -> usize {
    std::fs::read_to_string("/proc/self/io").ok()
        .and_then(|t| t.lines().find_map(|l| l.strip_prefix("rchar: ").and_then(|v| v.trim().parse().ok())))
        .unwrap_or(0)
}

pub struct FaultyWriter {
    pub buf: Arc<std::sync::Mutex<Vec<u8>>>,
    pub room: Option<usize>,
}

impl Write for FaultyWriter {
    fn write(&mut self, data: &[u8]) -> std::io::Result<usize> {
        match self.room {
            None => {
                // a healthy writer may accept only PART of what it is offered (pipes, terminals, the line-buffered standard output of a
                // process do): `write_all` copes with that, a bare `write` that ignores the count loses the rest
                let mut b = self.buf.lock().unwrap();
                let n = if data.len() >= 2 && (b.len() + data.len()) % 3 == 0 { (data.len() + 1) / 2 } else { data.len() };
                b.extend_from_slice(&data[..n]);
                Ok(n)
            }
            // the kind of the failure varies with the offset (a full disk, a closed pipe, a quota …): every kind is a failure
            Some(0) => {
                let kinds = [std::io::ErrorKind::Other, std::io::ErrorKind::BrokenPipe, std::io::ErrorKind::WriteZero, std::io::ErrorKind::PermissionDenied,
                             std::io::ErrorKind::ConnectionReset, std::io::ErrorKind::TimedOut];
                let k = kinds[self.buf.lock().unwrap().len() % kinds.len()];
                Err(std::io::Error::new(k, "injected write failure"))
            }
            Some(k) => {
                let n = k.min(data.len());
                self.buf.lock().unwrap().extend_from_slice(&data[..n]);
                self.room = Some(k - n);
                Ok(n)
            }
        }
    }
    fn flush(&mut self) -> std::io::Result<()> {
        Ok(())
    }
}

/// scripted stdin: chunked delivery, `Interrupted` results, an error at a byte offset,
/// an optional endless tail, and a counter of bytes handed out
pub struct ScriptedReader {
    data: Vec<u8>,
    pos: usize,
    chunks: Vec<usize>,
    chunk_idx: usize,
    fail_at: Option<usize>,
    endless: Option<Vec<u8>>,
    pulled: Arc<AtomicUsize>,
    cap: usize,
    pub overrun: Arc<AtomicBool>,
    /// C14: the stdout buffer, the row limit, and the counter of reads made after the limit was reached
    watch: Option<(Arc<std::sync::Mutex<Vec<u8>>>, usize)>,
    late_reads: Arc<AtomicUsize>,
}

impl Read for ScriptedReader {
    fn read(&mut self, buf: &mut [u8]) -> std::io::Result<usize> {
        if buf.is_empty() {
            return Ok(0);
        }
        if let Some((out, limit)) = &self.watch {
            let rows = out.lock().unwrap().iter().filter(|b| **b == b'\n').count();
            if rows >= *limit {
                self.late_reads.fetch_add(1, Ordering::SeqCst);
            }
        }
        if let Some(f) = self.fail_at {
            if self.pos >= f {
                return Err(std::io::Error::new(std::io::ErrorKind::Other, "injected read failure"));
            }
        }
        let mut want = buf.len();
        if !self.chunks.is_empty() {
            let c = self.chunks[self.chunk_idx % self.chunks.len()];
            self.chunk_idx += 1;
            if c == 0 {
                return Err(std::io::Error::new(std::io::ErrorKind::Interrupted, "interrupted"));
            }
            want = want.min(c);
        }
        if let Some(f) = self.fail_at {
            want = want.min(f - self.pos);
        }
        let mut n = 0;
        while n < want {
            let b = if self.pos < self.data.len() {
                self.data[self.pos]
            } else if let Some(t) = &self.endless {
                if self.pos - self.data.len() >= self.cap {
                    // the run should have stopped long ago: end the stream and flag it
                    self.overrun.store(true, Ordering::SeqCst);
                    break;
                }
                // `@@@@@@` in the pattern is a six digit counter of the repetition, so every row is distinct
                let off = self.pos - self.data.len();
                let (rep, idx) = (off / t.len(), off % t.len());
                if t[idx] == b'@' {
                    let mut first = idx;
                    while first > 0 && t[first - 1] == b'@' {
                        first -= 1;
                    }
                    let digit = 5usize.saturating_sub(idx - first);
                    b'0' + ((rep / 10usize.pow(digit as u32)) % 10) as u8
                } else {
                    t[idx]
                }
            } else {
                break;
            };
            buf[n] = b;
            n += 1;
            self.pos += 1;
        }
        self.pulled.fetch_add(n, Ordering::SeqCst);
        Ok(n)
    }
}

pub fn classify_error(dbg: &str) -> String {
    if dbg.starts_with("Json(IoError") || dbg.starts_with("Io(") || dbg.starts_with("Processor(Io(") {
        "err:io".into()
    } else if dbg.starts_with("Json(") {
        "err:json".into()
    } else if dbg.starts_with("Processor(InvalidInputError") {
        "err:invalid".into()
    } else if dbg.starts_with("Processor(Format") || dbg.starts_with("Format(") {
        "err:fmt".into()
    } else if dbg.starts_with("SelectionParse(") || dbg.starts_with("SorterParse(") || dbg.starts_with("PreSet(") || dbg.starts_with("OutputStyle(") {
        "err:config".into()
    } else {
        format!("err:other:{}", dbg.chars().take(40).collect::<String>())
    }
}

pub struct Scratch {
    pub dir: String,
}

impl Scratch {
    pub fn new(tag: &str) -> Scratch {
        let base = std::env::var("VERIF_SCRATCH").unwrap_or_else(|_| "/verif/build/scratch".into());
        let dir = format!("{}/{}-{}", base, tag, std::process::id());
        std::fs::create_dir_all(&dir).expect("scratch dir");
        Scratch { dir }
    }
}

impl Drop for Scratch {
    fn drop(&mut self) {
        let _ = std::fs::remove_dir_all(&self.dir);
    }
}

pub const ENDLESS_CAP: usize = 1 << 20;

/// run the real jawk in-process
pub fn run_rust(case: &Case, scratch: &Scratch) -> Obs {
    // files
    for (i, s) in case.sources.iter().enumerate() {
        if let Some(n) = &s.name {
            let path = format!("{}/{}", scratch.dir, n);
            let bytes = s.bytes.clone();
            if let Some((idx, off)) = case.rerr {
                if idx == i && off == 0 {
                    // a file source that fails before its first byte: the file does not exist
                    let _ = std::fs::remove_file(&path);
                    continue;
                }
                // other read faults are only injected on stdin; a file source is left intact
            }
            std::fs::write(&path, &bytes).expect("write source file");
        }
    }
    let argv = case.argv(&scratch.dir);
    let cli = match jawk::Cli::try_parse_from(argv.iter()) {
        Ok(c) => c,
        Err(e) => {
            return Obs { res: "err:clap".into(), panic_msg: format!("{}", e).chars().take(200).collect(), ..Default::default() };
        }
    };
    let out_buf = Arc::new(std::sync::Mutex::new(Vec::new()));
    let err_buf = Arc::new(std::sync::Mutex::new(Vec::new()));
    let out: Rc<RefCell<dyn Write + Send>> = Rc::new(RefCell::new(FaultyWriter { buf: out_buf.clone(), room: case.wfail }));
    let err: Rc<RefCell<dyn Write + Send>> = Rc::new(RefCell::new(FaultyWriter { buf: err_buf.clone(), room: case.efail }));
    let opened = Arc::new(AtomicBool::new(false));
    let pulled = Arc::new(AtomicUsize::new(0));
    let overrun = Arc::new(AtomicBool::new(false));
    let stdin_bytes: Vec<u8> = case.sources.iter().find(|s| s.name.is_none()).map(|s| s.bytes.clone()).unwrap_or_default();
    let stdin_idx = case.sources.iter().position(|s| s.name.is_none());
    let fail_at = match (case.rerr, stdin_idx) {
        (Some((i, o)), Some(j)) if i == j => Some(o),
        _ => None,
    };
    let chunks = case.chunks.clone();
    let endless = case.endless.clone();
    let (o2, p2, ov2) = (opened.clone(), pulled.clone(), overrun.clone());
    let late = Arc::new(AtomicUsize::new(0));
    let late2 = late.clone();
    // C14 watch: only for `--take T` (T >= 1) with line-framed JSON rows on an in-process stdout
    let watch = match (case.spec.take, case.endless.is_some()) {
        (Some(t), true) if t >= 1 && case.spec.style.is_none() && case.spec.jstyle.as_deref() != Some("pretty")
            && case.spec.rowsep.is_none() && case.spec.group.is_none() && case.spec.sorts.is_empty() && case.spec.on_error.as_deref() != Some("stdout") =>
            Some((out_buf.clone(), t as usize)),
        _ => None,
    };
    let factory: Box<dyn Fn() -> ScriptedReader> = Box::new(move || {
        o2.store(true, Ordering::SeqCst);
        ScriptedReader {
            data: stdin_bytes.clone(),
            pos: 0,
            chunks: chunks.clone(),
            chunk_idx: 0,
            fail_at,
            endless: endless.clone(),
            pulled: p2.clone(),
            cap: ENDLESS_CAP,
            overrun: ov2.clone(),
            watch: watch.clone(),
            late_reads: late2.clone(),
        }
    });
    let rchar0 = proc_rchar();
    let result = catch_unwind(AssertUnwindSafe(|| jawk::go(cli, out.clone(), err.clone(), factory)));
    let mut obs = Obs::default();
    obs.file_read = proc_rchar().saturating_sub(rchar0);
    match result {
        Ok(Ok(())) => obs.res = "ok".into(),
        Ok(Err(e)) => obs.res = classify_error(&format!("{:?}", e)),
        Err(p) => {
            obs.res = "abort:panic".into();
            obs.panic_msg = if let Some(s) = p.downcast_ref::<String>() {
                s.clone()
            } else if let Some(s) = p.downcast_ref::<&str>() {
                s.to_string()
            } else {
                "?".into()
            };
        }
    }
    obs.out = out_buf.lock().unwrap().clone();
    obs.err = err_buf.lock().unwrap().clone();
    obs.opened_stdin = opened.load(Ordering::SeqCst);
    obs.pulled = vec![pulled.load(Ordering::SeqCst)];
    obs.late_reads = late.load(Ordering::SeqCst);
    if overrun.load(Ordering::SeqCst) {
        obs.res = format!("{}+overrun", obs.res);
    }
    obs
}

/// replace the detail of UTF-8 decoding errors (std's wording) by the model's token
pub fn canon_reports(bytes: &[u8]) -> Vec<u8> {
    let mut out = Vec::with_capacity(bytes.len());
    for line in bytes.split_inclusive(|b| *b == b'\n') {
        if line.starts_with(b"error:") {
            let text = String::from_utf8_lossy(line);
            let cut = text.find(": invalid utf-8 sequence").or_else(|| text.find(": incomplete utf-8 byte sequence"));
            if let Some(p) = cut {
                out.extend_from_slice(text[..p].as_bytes());
                out.extend_from_slice(b": <utf8>\n");
                continue;
            }
        }
        out.extend_from_slice(line);
    }
    out
}

/// run the Lean model driver on many lines; returns one Obs per line (by position)
pub fn run_model(lines: &[String], scratch: &Scratch) -> Result<Vec<Obs>, String> {
    let exe = std::env::var("JAWK_MODEL").unwrap_or_else(|_| "/verif/lean/.lake/build/bin/jawk_model".into());
    let infile = format!("{}/model-in.txt", scratch.dir);
    let mut text = String::new();
    for l in lines {
        text.push_str(l);
        text.push('\n');
    }
    std::fs::write(&infile, text).map_err(|e| e.to_string())?;
    let f = std::fs::File::open(&infile).map_err(|e| e.to_string())?;
    let outp = std::process::Command::new(&exe).stdin(f).output().map_err(|e| format!("cannot run model driver {exe}: {e}"))?;
    if !outp.status.success() {
        return Err(format!("model driver failed: {:?} {}", outp.status, String::from_utf8_lossy(&outp.stderr).chars().take(500).collect::<String>()));
    }
    let text = String::from_utf8_lossy(&outp.stdout);
    let mut res = vec![];
    for l in text.lines() {
        let mut o = Obs::default();
        for tok in l.split_whitespace() {
            if let Some((k, v)) = tok.split_once('=') {
                match k {
                    "res" => o.res = v.to_string(),
                    "out" => o.out = unhex(v),
                    "err" => o.err = unhex(v),
                    "pulled" => o.pulled = v.split(',').filter_map(|x| x.parse().ok()).collect(),
                    "failures" => o.panic_msg = format!("failures={v}"),
                    "first" => o.panic_msg = format!("{} first={}", o.panic_msg, String::from_utf8_lossy(&unhex(v))),
                    _ => {}
                }
            }
        }
        res.push(o);
    }
    if res.len() != lines.len() {
        return Err(format!("model driver answered {} lines for {} cases", res.len(), lines.len()));
    }
    Ok(res)
}

pub fn show_bytes(b: &[u8]) -> String {
    let s = String::from_utf8_lossy(b);
    if s.len() > 300 {
        format!("{}…({} bytes, hex head {})", s.chars().take(300).collect::<String>(), b.len(), hex(&b[..32.min(b.len())]))
    } else {
        s.into_owned()
    }
}
