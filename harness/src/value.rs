//! Abstract JSON values, generators, conforming serialisations, and an independent strict
//! RFC 8259 reader (not jawk's, not serde) used by the implementation-side oracles.
use crate::rng::Rng;

#[derive(Clone, Debug, PartialEq)]
pub enum V {
    Null,
    Bool(bool),
    Str(String),
    /// integer in [-2^63, 2^64)
    Int(i128),
    /// any other number: kept as the double jawk is allowed to keep
    Float(f64),
    Arr(Vec<V>),
    Obj(Vec<(String, V)>),
}

pub const KEYS: &[&str] = &["a", "b", "k", "s", "l", "o", "n", "é", "", "key-1"];

pub fn boundary_ints() -> Vec<i128> {
    let mut v: Vec<i128> = vec![0, 1, -1, 2, 7, 10, 100, -5, 255, 65535];
    let p53: i128 = 1 << 53;
    for k in -2..=2 {
        v.push(p53 + k);
        v.push(-p53 + k);
    }
    let p63: i128 = 1 << 63;
    v.extend([p63 - 1, p63, p63 + 1, -p63, -p63 + 1, (1i128 << 64) - 1, (1i128 << 64) - 2]);
    for s in [31, 32, 33, 52, 62] {
        v.push((1i128 << s) + 1);
        v.push((1i128 << s) - 1);
    }
    // integers of 54..64 bits that a double holds exactly (spelled with a fraction or an exponent they go through one)
    let p10 = |n: u32| 10i128.pow(n);
    v.extend([p10(16), p10(18), -p10(18), p10(19), 12 * p10(18), 1i128 << 60, (1i128 << 64) - 2048, p63 + 2048, -p63 + 1024,
              (1i128 << 53) + 2, 3 * (1i128 << 61), -(3 * (1i128 << 61))]);
    v
}

pub fn interesting_floats() -> Vec<f64> {
    vec![
        0.5, -0.5, 1.5, 2.5, 0.1, 0.2, 0.30000000000000004, 1e-7, 2.5e-7, 1.0e21, 1.5e300, 5e-324, 1.7976931348623157e308,
        2.2250738585072014e-308, 2.225073858507201e-308, 4.35, 1e23, 9007199254740993.5, 0.000001, 123456.789, -1e-5,
        3.141592653589793, 1e22 + 0.5e7, 18446744073709551616.0, 36893488147419103232.0, -9223372036854777856.0, 1e100,
        4.9406564584124654e-324, 8.98846567431158e307, 1.0000000000000002, 0.9999999999999999, 123456789012345680000.0,
    ]
}

pub fn interesting_strings() -> Vec<String> {
    vec![
        "".into(), "a".into(), "abc".into(), "hello world".into(), "é".into(), "aéb".into(), "日本".into(),
        "q\"uote".into(), "back\\slash".into(), "sl/ash".into(), "tab\there".into(), "nl\nx".into(), "cr\rx".into(),
        "\u{8}\u{c}".into(), "\u{1}\u{1f}".into(), "\u{7f}".into(), "\u{80}\u{9f}".into(), "\u{2028}\u{2029}".into(),
        "\u{ffff}".into(), "\u{fffd}".into(), "a,b".into(), " lead".into(), "trail ".into(), "1".into(), "true".into(),
        "null".into(), "x=y".into(), "(paren)".into(), "[]".into(), "{}".into(), "ÿ".into(), "ß".into(),
    ]
}

/// strings with characters outside the BMP (printed wrongly without --utf8-strings: known finding F3)
pub fn astral_strings() -> Vec<String> {
    vec!["😃".into(), "a😃b".into(), "\u{10000}".into(), "\u{10ffff}".into()]
}

pub struct GenOpts {
    pub astral: bool,
    pub big_ints: bool,
    pub floats: bool,
    pub max_depth: usize,
    pub max_len: usize,
}

impl Default for GenOpts {
    fn default() -> Self {
        GenOpts { astral: false, big_ints: true, floats: true, max_depth: 3, max_len: 4 }
    }
}

pub fn gen_string(r: &mut Rng, o: &GenOpts) -> String {
    if o.astral && r.chance(10) {
        return r.pick(&astral_strings()).clone();
    }
    if r.chance(70) {
        r.pick(&interesting_strings()).clone()
    } else {
        let n = r.below(6);
        let alphabet: Vec<char> = "abcxyz019 -_.\"\\/\n\té日ÿ\u{1}".chars().collect();
        (0..n).map(|_| *r.pick(&alphabet)).collect()
    }
}

pub fn gen_number(r: &mut Rng, o: &GenOpts) -> V {
    if o.floats && r.chance(35) {
        let f = if r.chance(70) {
            *r.pick(&interesting_floats())
        } else {
            // random double from bits, finite
            loop {
                let bits = r.next();
                let f = f64::from_bits(bits);
                if f.is_finite() {
                    break f;
                }
            }
        };
        norm_float(f)
    } else if o.big_ints && r.chance(40) {
        V::Int(*r.pick(&boundary_ints()))
    } else {
        V::Int(r.below(25) as i128 - 5)
    }
}

/// what jawk's `From<f64>` makes of a double: integral values in range become integers
pub fn norm_float(f: f64) -> V {
    if f.fract() == 0.0 {
        if f >= 0.0 && f < (u64::MAX as f64) {
            return V::Int(f as u64 as i128);
        }
        if f < 0.0 && f > (i64::MIN as f64) {
            return V::Int(f as i64 as i128);
        }
    }
    V::Float(f)
}

pub fn gen_value(r: &mut Rng, o: &GenOpts, depth: usize) -> V {
    let leaf = depth >= o.max_depth || r.chance(45);
    if leaf {
        match r.below(6) {
            0 => V::Null,
            1 => V::Bool(r.chance(50)),
            2 | 3 => V::Str(gen_string(r, o)),
            _ => gen_number(r, o),
        }
    } else if r.chance(50) {
        let n = r.below(o.max_len + 1);
        V::Arr((0..n).map(|_| gen_value(r, o, depth + 1)).collect())
    } else {
        let n = r.below(o.max_len + 1);
        let mut kvs: Vec<(String, V)> = Vec::new();
        for _ in 0..n {
            let k = if r.chance(80) { r.pick(KEYS).to_string() } else { gen_string(r, o) };
            if kvs.iter().all(|(x, _)| *x != k) {
                kvs.push((k, gen_value(r, o, depth + 1)));
            }
        }
        V::Obj(kvs)
    }
}

// ------------------------------------------------------------------ serialisation

pub fn escape_canonical(s: &str, out: &mut String) {
    out.push('"');
    for ch in s.chars() {
        match ch {
            '"' => out.push_str("\\\""),
            '\\' => out.push_str("\\\\"),
            '\n' => out.push_str("\\n"),
            '\r' => out.push_str("\\r"),
            '\t' => out.push_str("\\t"),
            '\u{8}' => out.push_str("\\b"),
            '\u{c}' => out.push_str("\\f"),
            c if (c as u32) < 0x20 => out.push_str(&format!("\\u{:04x}", c as u32)),
            c => out.push(c),
        }
    }
    out.push('"');
}

/// canonical compact text (raw UTF-8, shortest numbers)
pub fn render(v: &V) -> String {
    let mut s = String::new();
    render_into(v, &mut s);
    s
}

fn render_into(v: &V, out: &mut String) {
    match v {
        V::Null => out.push_str("null"),
        V::Bool(b) => out.push_str(if *b { "true" } else { "false" }),
        V::Str(s) => escape_canonical(s, out),
        V::Int(i) => out.push_str(&i.to_string()),
        V::Float(f) => out.push_str(&format!("{}", f)),
        V::Arr(a) => {
            out.push('[');
            for (i, x) in a.iter().enumerate() {
                if i > 0 {
                    out.push(',');
                }
                render_into(x, out);
            }
            out.push(']');
        }
        V::Obj(o) => {
            out.push('{');
            for (i, (k, x)) in o.iter().enumerate() {
                if i > 0 {
                    out.push(',');
                }
                escape_canonical(k, out);
                out.push(':');
                render_into(x, out);
            }
            out.push('}');
        }
    }
}

fn ws(r: &mut Rng, out: &mut String) {
    if r.chance(35) {
        let n = r.range(1, 3);
        for _ in 0..n {
            out.push(*r.pick(&[' ', '\n', '\r', '\t']));
        }
    }
}

fn spell_string(r: &mut Rng, s: &str, out: &mut String) {
    out.push('"');
    for ch in s.chars() {
        let c = ch as u32;
        let must = ch == '"' || ch == '\\' || c < 0x20;
        if must || r.chance(15) {
            // pick an escape spelling
            let short = match ch {
                '"' => Some("\\\""),
                '\\' => Some("\\\\"),
                '/' => Some("\\/"),
                '\n' => Some("\\n"),
                '\r' => Some("\\r"),
                '\t' => Some("\\t"),
                '\u{8}' => Some("\\b"),
                '\u{c}' => Some("\\f"),
                _ => None,
            };
            if let (Some(s2), true) = (short, r.chance(70)) {
                out.push_str(s2);
            } else if c < 0x10000 && !(0xD800..0xE000).contains(&c) {
                if r.chance(50) {
                    out.push_str(&format!("\\u{:04x}", c));
                } else {
                    out.push_str(&format!("\\u{:04X}", c));
                }
            } else {
                out.push(ch); // astral: raw only (surrogate escapes are outside the property's domain)
            }
        } else {
            out.push(ch);
        }
    }
    out.push('"');
}

/// a random conforming spelling of an integer value
fn spell_int(r: &mut Rng, i: i128, out: &mut String) {
    // only the plain literal keeps an integer exact by the property's own reading; other
    // spellings are used for small magnitudes where a double is exact
    let small = i.abs() < (1i128 << 53);
    if small && r.chance(25) {
        match r.below(4) {
            0 => out.push_str(&format!("{}.0", i)),
            1 => out.push_str(&format!("{}e0", i)),
            2 => out.push_str(&format!("{}E+0", i)),
            _ => {
                // shift by powers of ten
                let k = r.range(1, 3);
                out.push_str(&format!("{}{}E-{}", i, "0".repeat(k), k));
            }
        }
    } else if !small && (i as f64) as i128 == i && r.chance(40) {
        // a double holds this integer exactly, so a spelling with a fraction or an exponent that denotes EXACTLY this
        // number must come out as this number (a spelling that only rounds to it is finding F2's subject)
        let digits = i.abs().to_string();
        let sign = if i < 0 { "-" } else { "" };
        match r.below(5) {
            0 => out.push_str(&format!("{}.0", i)),
            1 => out.push_str(&format!("{}e0", i)),
            2 => out.push_str(&format!("{}0E-1", i)),
            3 => {
                let frac = digits[1..].trim_end_matches('0');
                let marker = if r.chance(50) { "E" } else { "e+" };
                if frac.is_empty() {
                    out.push_str(&format!("{}{}{}{}", sign, &digits[..1], marker, digits.len() - 1));
                } else {
                    out.push_str(&format!("{}{}.{}{}{}", sign, &digits[..1], frac, marker, digits.len() - 1));
                }
            }
            _ => {
                let z = digits.len() - digits.trim_end_matches('0').len();
                out.push_str(&format!("{}{}e{}", sign, &digits[..digits.len() - z], z));
            }
        }
    } else {
        out.push_str(&i.to_string());
    }
}

fn spell_float(r: &mut Rng, f: f64, out: &mut String) {
    match r.below(4) {
        0 => out.push_str(&format!("{}", f)),
        1 => out.push_str(&format!("{:e}", f)),
        2 => {
            let s = format!("{:e}", f);
            let (m, e) = s.split_once('e').unwrap();
            let marker = if r.chance(50) { "E" } else { "e" };
            let exp = if !e.starts_with('-') && r.chance(50) { format!("+{}", e) } else { e.to_string() };
            out.push_str(&format!("{}{}{}", m, marker, exp));
        }
        _ => {
            // more digits than needed: 17 significant digits still denote the same double
            out.push_str(&format!("{:.17e}", f))
        }
    }
}

/// a random conforming serialisation: whitespace, escape spelling, number spelling
pub fn spell(r: &mut Rng, v: &V) -> String {
    let mut out = String::new();
    spell_into(r, v, &mut out);
    out
}

fn spell_into(r: &mut Rng, v: &V, out: &mut String) {
    match v {
        V::Null => out.push_str("null"),
        V::Bool(b) => out.push_str(if *b { "true" } else { "false" }),
        V::Str(s) => spell_string(r, s, out),
        V::Int(i) => spell_int(r, *i, out),
        V::Float(f) => spell_float(r, *f, out),
        V::Arr(a) => {
            out.push('[');
            ws(r, out);
            for (i, x) in a.iter().enumerate() {
                if i > 0 {
                    out.push(',');
                    ws(r, out);
                }
                spell_into(r, x, out);
                ws(r, out);
            }
            out.push(']');
        }
        V::Obj(o) => {
            out.push('{');
            ws(r, out);
            for (i, (k, x)) in o.iter().enumerate() {
                if i > 0 {
                    out.push(',');
                    ws(r, out);
                }
                spell_string(r, k, out);
                ws(r, out);
                out.push(':');
                ws(r, out);
                spell_into(r, x, out);
                ws(r, out);
            }
            out.push('}');
        }
    }
}

/// may the texts `a` then `b` be concatenated with nothing in between and still be two tokens?
pub fn may_touch(a: &str, b: &str) -> bool {
    let la = a.chars().last().unwrap_or(' ');
    let fb = b.chars().next().unwrap_or(' ');
    let a_open = la.is_ascii_alphanumeric() || la == '.' || la == '-' || la == '+';
    let b_open = fb.is_ascii_alphanumeric() || fb == '.' || fb == '-' || fb == '+';
    !(a_open && b_open)
}

// ------------------------------------------------------------------ strict reader (oracle)

pub struct Strict<'a> {
    s: &'a [u8],
    pub i: usize,
}

impl<'a> Strict<'a> {
    pub fn new(s: &'a [u8]) -> Self {
        Strict { s, i: 0 }
    }
    fn peek(&self) -> Option<u8> {
        self.s.get(self.i).copied()
    }
    pub fn skip_ws(&mut self) {
        while let Some(b' ' | b'\n' | b'\r' | b'\t') = self.peek() {
            self.i += 1;
        }
    }
    pub fn at_end(&mut self) -> bool {
        self.skip_ws();
        self.i >= self.s.len()
    }
    fn lit(&mut self, w: &str) -> Result<(), String> {
        if self.s[self.i..].starts_with(w.as_bytes()) {
            self.i += w.len();
            Ok(())
        } else {
            Err(format!("bad literal at {}", self.i))
        }
    }
    pub fn value(&mut self) -> Result<V, String> {
        self.skip_ws();
        match self.peek() {
            None => Err("eof".into()),
            Some(b'n') => self.lit("null").map(|_| V::Null),
            Some(b't') => self.lit("true").map(|_| V::Bool(true)),
            Some(b'f') => self.lit("false").map(|_| V::Bool(false)),
            Some(b'"') => self.string().map(V::Str),
            Some(b'[') => {
                self.i += 1;
                let mut a = vec![];
                self.skip_ws();
                if self.peek() == Some(b']') {
                    self.i += 1;
                    return Ok(V::Arr(a));
                }
                loop {
                    a.push(self.value()?);
                    self.skip_ws();
                    match self.peek() {
                        Some(b',') => self.i += 1,
                        Some(b']') => {
                            self.i += 1;
                            return Ok(V::Arr(a));
                        }
                        _ => return Err(format!("array at {}", self.i)),
                    }
                }
            }
            Some(b'{') => {
                self.i += 1;
                let mut o: Vec<(String, V)> = vec![];
                self.skip_ws();
                if self.peek() == Some(b'}') {
                    self.i += 1;
                    return Ok(V::Obj(o));
                }
                loop {
                    self.skip_ws();
                    let k = self.string()?;
                    self.skip_ws();
                    if self.peek() != Some(b':') {
                        return Err(format!("colon at {}", self.i));
                    }
                    self.i += 1;
                    let v = self.value()?;
                    if let Some(p) = o.iter().position(|(x, _)| *x == k) {
                        o[p].1 = v;
                    } else {
                        o.push((k, v));
                    }
                    self.skip_ws();
                    match self.peek() {
                        Some(b',') => self.i += 1,
                        Some(b'}') => {
                            self.i += 1;
                            return Ok(V::Obj(o));
                        }
                        _ => return Err(format!("object at {}", self.i)),
                    }
                }
            }
            Some(b'-') | Some(b'0'..=b'9') => self.number(),
            Some(c) => Err(format!("unexpected byte {c} at {}", self.i)),
        }
    }
    fn number(&mut self) -> Result<V, String> {
        let start = self.i;
        if self.peek() == Some(b'-') {
            self.i += 1;
        }
        match self.peek() {
            Some(b'0') => self.i += 1,
            Some(b'1'..=b'9') => {
                while let Some(b'0'..=b'9') = self.peek() {
                    self.i += 1;
                }
            }
            _ => return Err("number".into()),
        }
        let mut plain = true;
        if self.peek() == Some(b'.') {
            plain = false;
            self.i += 1;
            let d = self.i;
            while let Some(b'0'..=b'9') = self.peek() {
                self.i += 1;
            }
            if d == self.i {
                return Err("fraction".into());
            }
        }
        if let Some(b'e' | b'E') = self.peek() {
            plain = false;
            self.i += 1;
            if let Some(b'+' | b'-') = self.peek() {
                self.i += 1;
            }
            let d = self.i;
            while let Some(b'0'..=b'9') = self.peek() {
                self.i += 1;
            }
            if d == self.i {
                return Err("exponent".into());
            }
        }
        let text = std::str::from_utf8(&self.s[start..self.i]).unwrap();
        if plain {
            if let Ok(i) = text.parse::<i128>() {
                if i >= -(1i128 << 63) && i < (1i128 << 64) {
                    return Ok(V::Int(i));
                }
            }
        }
        let f: f64 = text.parse().map_err(|_| "float".to_string())?;
        if !f.is_finite() {
            return Err("infinite".into());
        }
        Ok(norm_float(f))
    }
    fn hex4(&mut self) -> Result<u32, String> {
        let mut v = 0u32;
        for _ in 0..4 {
            let c = self.peek().ok_or("eof in \\u")?;
            let d = (c as char).to_digit(16).ok_or("hex")?;
            v = v * 16 + d;
            self.i += 1;
        }
        Ok(v)
    }
    fn string(&mut self) -> Result<String, String> {
        if self.peek() != Some(b'"') {
            return Err(format!("string at {}", self.i));
        }
        self.i += 1;
        let mut buf: Vec<u8> = vec![];
        loop {
            let c = self.peek().ok_or("eof in string")?;
            self.i += 1;
            match c {
                b'"' => break,
                b'\\' => {
                    let e = self.peek().ok_or("eof in escape")?;
                    self.i += 1;
                    let ch = match e {
                        b'"' => '"',
                        b'\\' => '\\',
                        b'/' => '/',
                        b'b' => '\u{8}',
                        b'f' => '\u{c}',
                        b'n' => '\n',
                        b'r' => '\r',
                        b't' => '\t',
                        b'u' => {
                            let hi = self.hex4()?;
                            if (0xD800..0xDC00).contains(&hi) {
                                if self.peek() == Some(b'\\') && self.s.get(self.i + 1) == Some(&b'u') {
                                    self.i += 2;
                                    let lo = self.hex4()?;
                                    if !(0xDC00..0xE000).contains(&lo) {
                                        return Err("lone surrogate".into());
                                    }
                                    char::from_u32(0x10000 + ((hi - 0xD800) << 10) + (lo - 0xDC00)).ok_or("pair")?
                                } else {
                                    return Err("lone surrogate".into());
                                }
                            } else {
                                char::from_u32(hi).ok_or("lone surrogate")?
                            }
                        }
                        _ => return Err("bad escape".into()),
                    };
                    let mut b = [0u8; 4];
                    buf.extend_from_slice(ch.encode_utf8(&mut b).as_bytes());
                }
                c if c < 0x20 => return Err(format!("raw control {c} in string")),
                c => buf.push(c),
            }
        }
        String::from_utf8(buf).map_err(|_| "utf8".to_string())
    }
}

/// parse a whole text that must hold exactly one value
pub fn strict_parse(s: &[u8]) -> Result<V, String> {
    let mut p = Strict::new(s);
    let v = p.value()?;
    if !p.at_end() {
        return Err(format!("trailing bytes at {}", p.i));
    }
    Ok(v)
}
