-- This module serves as the root of the `Jawk` library.
-- Import modules here that should be built as part of the library.
import Jawk.Basic
