def hello := "world"
