/-
  Runs every documentation example with a literal expectation through the model
  (a test of the model against the documentation; labelled as a test).
-/
import Jawk.Model.Eval
import Jawk.Generated.DocExamples
namespace Jawk

/-- functions whose examples need the outside world -/
def docSkip : List String := ["exec", "trigger", "now", "env", "match", "extract_regex_group",
  "base63_decode", "format_time", "parse_time", "parse_time_with_zone", "\"/\""]

def runDocExample (ex : String × Option String × List String × Option String) : Option String :=
  let (fn, input, args, expected) := ex
  if docSkip.contains fn then none else
  let inputV : JV := match input with
    | some s => match parseJsonStr s.toList with
      | .ok v => v
      | .error _ => .null
    | none => .null
  let text := "(" ++ fn ++ " " ++ ", ".intercalate args ++ ")"
  match parseWholeExpr text.toList with
  | .error e => some s!"{text}: parse error {repr e}"
  | .ok e =>
    let got := eval {} evalFuel e { input := inputV }
    let want : Option JV := expected.bind (fun s => match parseJsonStr s.toList with
      | .ok v => some v
      | .error _ => none)
    match got with
    | .error a => some s!"{text}: abort {repr a}"
    | .ok g =>
      let same := match g, want with
        | none, none => true
        | some a, some b => JV.beq a b
        | _, _ => false
      if same then none else
        some s!"{text}: got {(g.map (fun v => String.ofList v.display)).getD "nothing"} want {expected.getD "nothing"}"

def docFailures : List String := Generated.docExamples.filterMap runDocExample

end Jawk
