/-
  K2 driver: one case per input line, one result per output line.
  Line = space separated `key=value` tokens; every string value is hex of its UTF-8 bytes.
-/
import Jawk.Model.Run
import Jawk.Model.Args
import Jawk.Driver.DocCheck
namespace Jawk.Driver
open Jawk

def hexNib (c : Char) : Option Nat :=
  if '0' ≤ c ∧ c ≤ '9' then some (c.toNat - 48)
  else if 'a' ≤ c ∧ c ≤ 'f' then some (c.toNat - 87)
  else if 'A' ≤ c ∧ c ≤ 'F' then some (c.toNat - 55)
  else none

def unhex (s : String) : List Byte :=
  let rec go : List Char → List Byte
    | a :: b :: rest =>
      match hexNib a, hexNib b with
      | some x, some y => (UInt8.ofNat (x * 16 + y)) :: go rest
      | _, _ => []
    | _ => []
  go s.toList

def hexOf (bs : List Byte) : String :=
  String.ofList (bs.flatMap (fun b => [hexDigit (b.toNat / 16), hexDigit (b.toNat % 16)]))

def unhexStr (s : String) : Str := (utf8Decode? (unhex s)).getD []

structure Case where
  id : String := "?"
  mode : String := "run"
  cfg : Cfg := {}
  sources : List Source := []
  wfail : Option Nat := none
  efail : Option Nat := none
  orc : List (String × List Str × Option JV) := []
  jsonGiven : Bool := false
  textGiven : Bool := false
  jopts : JsonOpts := {}
  topts : TextOpts := {}
  expr : Str := []
  /-- the command line after the program name, when the harness sent it -/
  argv : Option (List Str) := none
  deriving Inhabited

def parseOrc (v : String) : Option (String × List Str × Option JV) :=
  match v.splitOn ":" with
  | [f, args, res] =>
    let fn := String.ofList (unhexStr f)
    let as := if args = "" then [] else (args.splitOn ",").map unhexStr
    let r : Option JV := if res = "-" then none else
      match parseJsonStr (unhexStr res) with
      | .ok v => some v
      | .error _ => none
    some (fn, as, r)
  | _ => none

def applyToken (c : Case) (tok : String) : Case :=
  match tok.splitOn "=" with
  | [k, v] =>
    let cfg := c.cfg
    match k with
    | "id" => { c with id := v }
    | "mode" => { c with mode := v }
    | "sel" => { c with cfg := { cfg with selects := cfg.selects ++ [unhexStr v] } }
    | "filter" => { c with cfg := { cfg with filter := some (unhexStr v) } }
    | "split" => { c with cfg := { cfg with split := some (unhexStr v) } }
    | "group" => { c with cfg := { cfg with group := some (some (unhexStr v)) } }
    | "merge" => { c with cfg := { cfg with group := some none } }
    | "sort" => { c with cfg := { cfg with sorts := cfg.sorts ++ [unhexStr v] } }
    | "skip" => { c with cfg := { cfg with skip := v.toNat! } }
    | "take" => { c with cfg := { cfg with take := some v.toNat! } }
    | "unique" => { c with cfg := { cfg with unique := true } }
    | "set" => { c with cfg := { cfg with sets := cfg.sets ++ [unhexStr v] } }
    | "ooa" => { c with cfg := { cfg with onlyObjectsAndArrays := true } }
    | "onerror" => { c with cfg := { cfg with onError := match v with
        | "panic" => .panic | "stderr" => .stderr | "stdout" => .stdout | _ => .ignore } }
    | "style" => { c with cfg := { cfg with style := match v with
        | "csv" => .csv | "text" => .text | _ => .json } }
    | "rowsep" => { c with cfg := { cfg with rowSep := unhexStr v } }
    | "jstyle" => { c with jsonGiven := true, jopts := { c.jopts with style := match v with
        | "consise" => .consise | "pretty" => .pretty | _ => .oneLine } }
    | "utf8" => { c with jsonGiven := true, jopts := { c.jopts with utf8Strings := v = "1" } }
    | "isep" => { c with textGiven := true, topts := { c.topts with itemsSep := unhexStr v } }
    | "spre" => { c with textGiven := true, topts := { c.topts with strPrefix := unhexStr v } }
    | "spost" => { c with textGiven := true, topts := { c.topts with strPostfix := unhexStr v } }
    | "headers" => { c with textGiven := true, topts := { c.topts with headers := v = "1" } }
    | "esc" => { c with textGiven := true, topts := { c.topts with escapes := c.topts.escapes ++ [unhexStr v] } }
    | "nullkw" => { c with textGiven := true, topts := { c.topts with nullKw := unhexStr v } }
    | "truekw" => { c with textGiven := true, topts := { c.topts with trueKw := unhexStr v } }
    | "falsekw" => { c with textGiven := true, topts := { c.topts with falseKw := unhexStr v } }
    | "misskw" => { c with textGiven := true, topts := { c.topts with missingKw := some (unhexStr v) } }
    | "src" =>
      match v.splitOn ":" with
      | [n, b] =>
        let name : Option Str := if n = "-" then none else some (unhexStr n)
        { c with sources := c.sources ++ [{ name := name, items := cleanInput (unhex b) }] }
      | _ => c
    | "rerr" =>
      -- rerr=<source index>:<offset>: that source fails after `offset` bytes
      match v.splitOn ":" with
      | [i, off] =>
        let idx := i.toNat!
        let o := off.toNat!
        { c with sources := c.sources.zipIdx.map (fun (s, j) =>
            if j = idx then { s with items := s.items.take o ++ [RItem.err] } else s) }
      | _ => c
    | "wfail" => { c with wfail := some v.toNat! }
    | "efail" => { c with efail := some v.toNat! }
    | "orc" => match parseOrc v with
      | some o => { c with orc := c.orc ++ [o] }
      | none => c
    | "expr" => { c with expr := unhexStr v }
    | "argv" => { c with argv := some (if v = "-" then [] else (v.splitOn ",").map unhexStr) }
    | _ => c
  | _ => c

def failKind : Fail → String
  | .io => "io"
  | .json _ => "json"
  | .invalidInput => "invalid"
  | .config _ => "config"
  | .abort .overflow => "abort:overflow"
  | .abort (.panic s) => "abort:panic:" ++ s

def runCase (line : String) : String :=
  let toks := (line.trimAscii.toString.splitOn " ").filter (· ≠ "")
  let c := toks.foldl applyToken {}
  let cfg := { c.cfg with
    jsonOpts := if c.jsonGiven then some c.jopts else none,
    textOpts := if c.textGiven then some c.topts else none }
  let orc : Oracles := { table := c.orc }
  match c.mode with
  | "doc" =>
    let fails := docFailures
    s!"id={c.id} res=doc failures={fails.length} first={hexOf (utf8 ((fails.head?.getD "").toList))}"
  | "expr" =>
    -- parse an expression only: ok / err
    match parseWholeExpr c.expr with
    | .ok _ => s!"id={c.id} res=ok"
    | .error _ => s!"id={c.id} res=err:config"
  | "main" =>
    let o := mainModel orc cfg c.sources { room := c.wfail } { room := c.efail }
    s!"id={c.id} res=exit:{o.code} out={hexOf o.fd1} err={hexOf o.fd2}"
  | _ =>
    -- the configuration comes from the model of the command line when the command line was sent
    match (match c.argv with
      | none => some (cfg, c.sources)
      | some av => (Args.parseArgs av).map (fun p =>
          (p.cfg, if p.files.isEmpty then c.sources.filter (·.name.isNone)
                  else p.files.filterMap (fun f => c.sources.find? (·.name = some f))))) with
    | none => s!"id={c.id} res=err:config out= err= pulled="
    | some (cfg, sources) =>
    let r := run orc cfg sources { room := c.wfail } { room := c.efail }
    let res := match r.result with
      | .ok () => "ok"
      | .error f => "err:" ++ failKind f
    let pulled := ",".intercalate (r.pulled.map toString)
    s!"id={c.id} res={res} out={hexOf r.stdout} err={hexOf r.stderr} pulled={pulled}"

partial def loop (h : IO.FS.Stream) (out : IO.FS.Stream) : IO Unit := do
  let line ← h.getLine
  if line.isEmpty then return ()
  out.putStrLn (runCase line)
  loop h out

end Jawk.Driver

def main : IO Unit := do
  let stdin ← IO.getStdin
  let stdout ← IO.getStdout
  Jawk.Driver.loop stdin stdout
