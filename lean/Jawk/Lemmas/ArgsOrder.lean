/-
  C03 — the command line means the same in every argument order, except for the relative order of the
  occurrences of a repeatable option and of the positionals.

  * `collect_isSome_iff`      acceptance, stated without mentioning order
  * `collect_of`, `collect_files`   what is collected, per family
  * `collect_order_independent`, `parseArgs_order_independent`   MAIN
  * `swap_adjacent`, `swap_adjacent_toks`   the statement in the form a user reads
  * `repeated_order_matters`, `unique_twice_rejected`, non-vacuity examples
-/
import Jawk.Model.Args
namespace Jawk.Args
open Jawk

/-! ## vocabulary -/

/-- `t` is an occurrence of option `o` -/
def isOpt (o : Opt) : Tok → Bool
  | .opt o' _ => decide (o' = o)
  | _ => false

/-- `t` is a positional -/
def isFile : Tok → Bool
  | .file _ => true
  | _ => false

/-- the value of an occurrence of `o` -/
def optVal (o : Opt) : Tok → Option (Option Str)
  | .opt o' v => if o' = o then some v else none
  | _ => none

/-- the name of a positional -/
def fileName : Tok → Option Str
  | .file n => some n
  | _ => none

/-- the tokens a command line may contain, each on its own: known, with a value iff its kind wants one, value valid -/
def tokOK : Tok → Bool
  | .other => false
  | .file _ => true
  | .opt o v =>
    match o.kind, v with
    | .flag, none => true
    | .flag, some _ => false
    | .single, some x => valueOK o x
    | .single, none => false
    | .multi, some _ => true
    | .multi, none => false
    | .optValue, _ => true

/-- the number of occurrences of `o` -/
def cnt (o : Opt) (toks : List Tok) : Nat := (toks.filter (isOpt o)).length

/-- what `step` records for an acceptable token -/
def Raw.push (r : Raw) : Tok → Raw
  | .opt o v => { r with occ := r.occ ++ [(o, v)] }
  | .file n => { r with files := r.files ++ [n] }
  | .other => r

/-- the token's option (if it is one that may occur only once) has not been met yet -/
def free (r : Raw) : Tok → Bool
  | .opt o _ => decide (o.kind = .multi) || (r.of o).isEmpty
  | _ => true

/-! ## one step -/

theorem step_eq (r : Raw) (t : Tok) :
    step r t = if tokOK t && free r t then some (r.push t) else none := by
  cases t with
  | other => rfl
  | file n => rfl
  | opt o v =>
    simp only [step, tokOK, free, Raw.push]
    split <;> simp_all [Bool.and_comm]

theorem of_push (r : Raw) (t : Tok) (o : Opt) :
    (r.push t).of o = r.of o ++ (optVal o t).toList := by
  cases t with
  | other => simp [Raw.push, optVal]
  | file n => simp [Raw.push, optVal, Raw.of]
  | opt o' v =>
    by_cases h : o' = o <;> simp [Raw.push, optVal, Raw.of, h]

theorem files_push (r : Raw) (t : Tok) :
    (r.push t).files = r.files ++ (fileName t).toList := by
  cases t <;> simp [Raw.push, fileName]

theorem optVal_isSome (o : Opt) (t : Tok) : (optVal o t).isSome = isOpt o t := by
  cases t with
  | other => rfl
  | file n => rfl
  | opt o' v => by_cases h : o' = o <;> simp [optVal, isOpt, h]

theorem length_of_push (r : Raw) (t : Tok) (o : Opt) :
    ((r.push t).of o).length = (r.of o).length + (if isOpt o t then 1 else 0) := by
  rw [of_push, List.length_append, ← optVal_isSome]
  cases optVal o t <;> rfl

theorem cnt_cons (o : Opt) (t : Tok) (ts : List Tok) :
    cnt o (t :: ts) = (if isOpt o t then 1 else 0) + cnt o ts := by
  unfold cnt
  by_cases h : isOpt o t <;> simp [h, Nat.add_comm]

theorem free_iff (r : Raw) (t : Tok) :
    free r t = true ↔ ∀ o, o.kind ≠ .multi → isOpt o t = true → (r.of o).length = 0 := by
  cases t with
  | other => simp [free, isOpt]
  | file n => simp [free, isOpt]
  | opt o' v =>
    simp only [free, isOpt, Bool.or_eq_true, decide_eq_true_eq, List.isEmpty_iff, List.length_eq_zero_iff]
    constructor
    · intro h o hk ho
      subst ho
      exact h.resolve_left hk
    · intro h
      by_cases hk : o'.kind = .multi
      · exact Or.inl hk
      · exact Or.inr (h o' hk rfl)

/-! ## the whole pass -/

/-- `collect` from any state: what is accepted -/
theorem collect_isSome_gen (toks : List Tok) (r : Raw) :
    (collect r toks).isSome = true ↔
      (∀ t ∈ toks, tokOK t = true) ∧
      ∀ o, o.kind ≠ .multi → (r.of o).length + cnt o toks ≤ 1 ∨ cnt o toks = 0 := by
  induction toks generalizing r with
  | nil => simp [collect, cnt]
  | cons t ts ih =>
    rw [collect, step_eq]
    by_cases hok : tokOK t = true
    · by_cases hf : free r t = true
      · simp only [hok, hf, Bool.and_self, if_true, ih, List.mem_cons, forall_eq_or_imp, true_and]
        apply and_congr_right
        intro _
        rw [free_iff] at hf
        constructor
        · intro h o hk
          have h1 := h o hk
          have h2 := hf o hk
          rw [length_of_push] at h1
          rw [cnt_cons]
          by_cases hi : isOpt o t = true
          · have := h2 hi
            simp only [hi, if_true] at h1 ⊢
            omega
          · simp only [hi] at h1 ⊢
            simpa using h1
        · intro h o hk
          have h1 := h o hk
          rw [cnt_cons] at h1
          rw [length_of_push]
          by_cases hi : isOpt o t = true
          · simp only [hi, if_true] at h1 ⊢
            omega
          · simp only [hi] at h1 ⊢
            simpa using h1
      · simp only [hok, hf, Bool.true_and, Bool.false_eq_true, if_false, Option.isSome_none, false_iff]
        intro ⟨_, h⟩
        apply hf
        rw [free_iff]
        intro o hk hi
        have h1 := h o hk
        rw [cnt_cons] at h1
        simp only [hi, if_true] at h1
        omega
    · simp only [hok, Bool.false_and, Bool.false_eq_true, if_false, Option.isSome_none, false_iff]
      intro ⟨h, _⟩
      exact hok (h t (List.mem_cons_self))

/-- `collect` from any state: what is collected -/
theorem collect_eq_gen (toks : List Tok) (r r' : Raw) (h : collect r toks = some r') :
    (∀ o, r'.of o = r.of o ++ toks.filterMap (optVal o)) ∧ r'.files = r.files ++ toks.filterMap fileName := by
  induction toks generalizing r with
  | nil =>
    simp only [collect, Option.some.injEq] at h
    subst h
    simp
  | cons t ts ih =>
    rw [collect, step_eq] at h
    by_cases hc : (tokOK t && free r t) = true
    · simp only [hc, if_true] at h
      obtain ⟨h1, h2⟩ := ih _ h
      constructor
      · intro o
        rw [h1, of_push, List.append_assoc]
        congr 1
        cases ho : optVal o t <;> simp [ho]
      · rw [h2, files_push, List.append_assoc]
        congr 1
        cases hn : fileName t <;> simp [hn]
    · simp [hc] at h

/-- 1. `collect` succeeds iff every token is acceptable on its own and no flag / single / optional-valued option occurs twice -/
theorem collect_isSome_iff (toks : List Tok) :
    (collect {} toks).isSome = true ↔
      (∀ t ∈ toks, tokOK t = true) ∧ ∀ o, o.kind ≠ .multi → (toks.filter (isOpt o)).length ≤ 1 := by
  rw [collect_isSome_gen]
  apply and_congr_right
  intro _
  apply forall_congr'
  intro o
  apply imp_congr_right
  intro _
  have : (({} : Raw).of o).length = 0 := rfl
  rw [this]
  unfold cnt
  omega

/-- 2a. the occurrences of every option, in the order of the command line -/
theorem collect_of' (toks : List Tok) (r : Raw) (h : collect {} toks = some r) (o : Opt) :
    r.of o = toks.filterMap (optVal o) := by
  have := (collect_eq_gen toks {} r h).1 o
  rw [this]
  rfl

/-- 2b. the positionals, in the order of the command line -/
theorem collect_files' (toks : List Tok) (r : Raw) (h : collect {} toks = some r) :
    r.files = toks.filterMap fileName := by
  have := (collect_eq_gen toks {} r h).2
  rw [this]
  rfl

/-- 2a in the literal form of the task file -/
theorem collect_of (toks : List Tok) (r : Raw) (h : collect {} toks = some r) (o : Opt) :
    r.of o = toks.filterMap (fun t => match t with | .opt o' v => if o' = o then some v else none | _ => none) := by
  rw [collect_of' toks r h o]
  rfl

/-- 2b in the literal form of the task file -/
theorem collect_files (toks : List Tok) (r : Raw) (h : collect {} toks = some r) :
    r.files = toks.filterMap (fun t => match t with | .file n => some n | _ => none) := by
  rw [collect_files' toks r h]
  rfl

/-! ## `assemble` reads the collected state only through `Raw.of` and `Raw.files` -/

theorem assemble_congr (r r' : Raw) (h : ∀ o, r.of o = r'.of o) (hf : r.files = r'.files) :
    assemble r = assemble r' := by
  have e : r.of = r'.of := funext h
  unfold assemble Raw.single Raw.many Raw.has
  rw [e, hf]

/-! ## order independence -/

/-- same multiset, same order inside every family -/
def SameUpToFamilyOrder (a b : List Tok) : Prop :=
  a.Perm b ∧ (∀ o, a.filter (isOpt o) = b.filter (isOpt o)) ∧ a.filter isFile = b.filter isFile

theorem filterMap_optVal_filter (o : Opt) (l : List Tok) :
    l.filterMap (optVal o) = (l.filter (isOpt o)).filterMap (optVal o) := by
  induction l with
  | nil => rfl
  | cons t ts ih =>
    by_cases hi : isOpt o t = true
    · rw [List.filter_cons_of_pos hi]
      cases ho : optVal o t <;> simp [ho, ih]
    · rw [List.filter_cons_of_neg hi]
      have ho : optVal o t = none := by
        have := optVal_isSome o t
        cases h : optVal o t with
        | none => rfl
        | some v => rw [h] at this; exact absurd this.symm hi
      simp [ho, ih]

theorem filterMap_fileName_filter (l : List Tok) :
    l.filterMap fileName = (l.filter isFile).filterMap fileName := by
  induction l with
  | nil => rfl
  | cons t ts ih =>
    cases t <;> simp [List.filter_cons, isFile, fileName, List.filterMap_cons, ih]

theorem SameUpToFamilyOrder.symm {a b : List Tok} (h : SameUpToFamilyOrder a b) : SameUpToFamilyOrder b a :=
  ⟨h.1.symm, fun o => (h.2.1 o).symm, h.2.2.symm⟩

theorem SameUpToFamilyOrder.refl (a : List Tok) : SameUpToFamilyOrder a a :=
  ⟨List.Perm.refl _, fun _ => rfl, rfl⟩

theorem SameUpToFamilyOrder.trans {a b c : List Tok} (h : SameUpToFamilyOrder a b) (h' : SameUpToFamilyOrder b c) :
    SameUpToFamilyOrder a c :=
  ⟨h.1.trans h'.1, fun o => (h.2.1 o).trans (h'.2.1 o), h.2.2.trans h'.2.2⟩

theorem isSome_of_same {a b : List Tok} (h : SameUpToFamilyOrder a b)
    (ha : (collect {} a).isSome = true) : (collect {} b).isSome = true := by
  rw [collect_isSome_iff] at ha ⊢
  refine ⟨fun t ht => ha.1 t (h.1.mem_iff.mpr ht), fun o hk => ?_⟩
  rw [← h.2.1 o]
  exact ha.2 o hk

/-- 3. MAIN: two token lists that are permutations of each other and agree on the order within each option family
and within the positionals are both rejected, or both accepted with the same record -/
theorem collect_order_independent (a b : List Tok) (h : SameUpToFamilyOrder a b) :
    (collect {} a).map assemble = (collect {} b).map assemble := by
  cases ha : collect {} a with
  | none =>
    cases hb : collect {} b with
    | none => rfl
    | some rb =>
      have := isSome_of_same h.symm (by rw [hb]; rfl)
      rw [ha] at this
      exact absurd this (by simp)
  | some ra =>
    cases hb : collect {} b with
    | none =>
      have := isSome_of_same h (by rw [ha]; rfl)
      rw [hb] at this
      exact absurd this (by simp)
    | some rb =>
      simp only [Option.map_some, Option.some.injEq]
      apply assemble_congr
      · intro o
        rw [collect_of' a ra ha o, collect_of' b rb hb o, filterMap_optVal_filter, h.2.1 o,
          ← filterMap_optVal_filter]
      · rw [collect_files' a ra ha, collect_files' b rb hb, filterMap_fileName_filter, h.2.2,
          ← filterMap_fileName_filter]

theorem parseArgs_order_independent (a b : List Str) (h : SameUpToFamilyOrder (lexAll a) (lexAll b)) :
    parseArgs a = parseArgs b :=
  collect_order_independent _ _ h

/-! ## corollaries -/

/-- two tokens of the same family: two positionals, or two occurrences of the same option -/
def sameFamily : Tok → Tok → Bool
  | .file _, .file _ => true
  | .opt o _, .opt o' _ => decide (o = o')
  | _, _ => false

theorem filter_swap (p : Tok → Bool) (l₁ l₂ : List Tok) (t₁ t₂ : Tok) (h : ¬ (p t₁ = true ∧ p t₂ = true)) :
    (l₁ ++ t₁ :: t₂ :: l₂).filter p = (l₁ ++ t₂ :: t₁ :: l₂).filter p := by
  simp only [List.filter_append, List.filter_cons]
  by_cases h1 : p t₁ = true <;> by_cases h2 : p t₂ = true <;> simp_all

theorem same_of_swap (l₁ l₂ : List Tok) (t₁ t₂ : Tok) (h : sameFamily t₁ t₂ = false) :
    SameUpToFamilyOrder (l₁ ++ t₁ :: t₂ :: l₂) (l₁ ++ t₂ :: t₁ :: l₂) := by
  refine ⟨List.Perm.append_left _ (List.Perm.swap _ _ _), fun o => filter_swap _ _ _ _ _ ?_, filter_swap _ _ _ _ _ ?_⟩
  · intro ⟨h1, h2⟩
    cases t₁ <;> cases t₂ <;> simp_all [isOpt, sameFamily]
  · intro ⟨h1, h2⟩
    cases t₁ <;> cases t₂ <;> simp_all [isFile, sameFamily]

/-- swapping two adjacent tokens of different families anywhere in the token list changes nothing -/
theorem swap_adjacent_toks (l₁ l₂ : List Tok) (t₁ t₂ : Tok) (h : sameFamily t₁ t₂ = false) :
    (collect {} (l₁ ++ t₁ :: t₂ :: l₂)).map assemble = (collect {} (l₁ ++ t₂ :: t₁ :: l₂)).map assemble :=
  collect_order_independent _ _ (same_of_swap l₁ l₂ t₁ t₂ h)

/-! ## `lexAll` without its step count -/

theorem lexAllF_fuel : ∀ (n m : Nat) (l : List Str), l.length ≤ n → l.length ≤ m → lexAllF n l = lexAllF m l := by
  intro n
  induction n with
  | zero =>
    intro m l hn _
    have : l = [] := List.length_eq_zero_iff.mp (Nat.le_zero.mp hn)
    subst this
    cases m <;> rfl
  | succ n ih =>
    intro m l hn hm
    cases l with
    | nil => cases m <;> rfl
    | cons s rest =>
      cases m with
      | zero => simp at hm
      | succ m =>
        have hrn : rest.length ≤ n := by simpa using hn
        have hrm : rest.length ≤ m := by simpa using hm
        have key : ∀ X : List Str, X.length ≤ rest.length → lexAllF n X = lexAllF m X :=
          fun X hX => ih m X (Nat.le_trans hX hrn) (Nat.le_trans hX hrm)
        have hd : (rest.drop 1).length ≤ rest.length := by simp only [List.length_drop]; omega
        have hif : ∀ b : Bool, (if b = true then rest.drop 1 else rest).length ≤ rest.length := by
          intro b; cases b <;> simp only [Bool.false_eq_true, if_false, if_true] <;> omega
        simp only [lexAllF, key rest (Nat.le_refl _), key _ hd, key _ (hif _)]

theorem lexAll_nil : lexAll [] = [] := rfl

/-- the defining equation of `lexAll` -/
theorem lexAll_cons (s : Str) (rest : List Str) :
    lexAll (s :: rest) =
      match shortBody s with
      | some body =>
        (lexShort body rest.head?).1 ++ lexAll (if (lexShort body rest.head?).2 then rest.drop 1 else rest)
      | none =>
        match lex s with
        | .opt o none =>
          match rest.head? with
          | some v =>
            if o.kind ≠ .flag ∧ isValue v then .opt o (some v) :: lexAll (rest.drop 1)
            else .opt o none :: lexAll rest
          | none => .opt o none :: lexAll rest
        | t => t :: lexAll rest := by
  have key : ∀ X : List Str, X.length ≤ rest.length → lexAllF rest.length X = lexAll X :=
    fun X hX => lexAllF_fuel _ _ _ hX (Nat.le_refl _)
  have hd : (rest.drop 1).length ≤ rest.length := by simp only [List.length_drop]; omega
  have hif : ∀ b : Bool, (if b = true then rest.drop 1 else rest).length ≤ rest.length := by
    intro b; cases b <;> simp only [Bool.false_eq_true, if_false, if_true] <;> omega
  show lexAllF (rest.length + 1) (s :: rest) = _
  simp only [lexAllF, key rest (Nat.le_refl _), key _ hd, key _ (hif _)]
  cases shortBody s <;> rfl

/-! ## arguments that are one token each -/

/-- an argument that is a token of its own whatever follows it: a positional, `--flag`, `--name=value` (a valued
option written without `=value` takes the NEXT argument; a cluster of one-letter options may give several tokens) -/
def oneToken (s : Str) : Bool :=
  (shortBody s).isNone &&
    (match lex s with
     | .opt o none => decide (o.kind = .flag)
     | _ => true)

def OneTokenEach (l : List Str) : Prop := ∀ s ∈ l, oneToken s = true

theorem lexAll_eq_map (l : List Str) (h : OneTokenEach l) : lexAll l = l.map lex := by
  induction l with
  | nil => rfl
  | cons s rest ih =>
    have hrest : OneTokenEach rest := fun x hx => h x (List.mem_cons_of_mem _ hx)
    have hs := h s List.mem_cons_self
    unfold oneToken at hs
    simp only [Bool.and_eq_true, Option.isNone_iff_eq_none] at hs
    rw [lexAll_cons, hs.1, List.map_cons, ← ih hrest]
    cases hl : lex s with
    | file n => rfl
    | other => rfl
    | opt o v =>
      cases v with
      | some x => rfl
      | none =>
        have hk : o.kind = .flag := by
          have := hs.2
          rw [hl] at this
          simpa using this
        cases hh : rest.head? with
        | none => simp only
        | some v => simp only [hk, ne_eq, not_true_eq_false, false_and, if_false]

/-- 4a. swapping two adjacent arguments of different families (not both positionals, not both occurrences of the
same option) anywhere on the command line does not change what `parseArgs` answers — for arguments that are one token
each (`oneToken`): an option written without `=value` takes the argument after it, which must then move with it -/
theorem swap_adjacent (l₁ l₂ : List Str) (s₁ s₂ : Str) (h : sameFamily (lex s₁) (lex s₂) = false)
    (hb : OneTokenEach (l₁ ++ s₁ :: s₂ :: l₂)) :
    parseArgs (l₁ ++ s₁ :: s₂ :: l₂) = parseArgs (l₁ ++ s₂ :: s₁ :: l₂) := by
  have hb' : OneTokenEach (l₁ ++ s₂ :: s₁ :: l₂) := by
    intro x hx
    apply hb x
    simp only [List.mem_append, List.mem_cons] at hx ⊢
    rcases hx with h1 | h1 | h1 | h1
    · exact Or.inl h1
    · exact Or.inr (Or.inr (Or.inl h1))
    · exact Or.inr (Or.inl h1)
    · exact Or.inr (Or.inr (Or.inr h1))
  apply parseArgs_order_independent
  rw [lexAll_eq_map _ hb, lexAll_eq_map _ hb']
  simp only [List.map_append, List.map_cons]
  exact same_of_swap _ _ _ _ h

/-- the exception: a bare `--merge` takes the argument after it as its value -/
theorem bare_merge_takes_next :
    lexAll ["--merge".toList, "f.json".toList] = [.opt .group (some "f.json".toList)] ∧
    lexAll ["f.json".toList, "--merge".toList] = [.file "f.json".toList, .opt .group none] ∧
    lexAll ["--merge".toList, "--unique".toList] = [.opt .group none, .opt .unique none] := by
  decide

/-! ## every spelling of an option gives the same token -/

/-- no one-letter name is `-` or `=` -/
theorem findShort_ne (c : Char) (o : Opt) (h : findShort c = some o) : c ≠ '-' ∧ c ≠ '=' := by
  have h1 : findShort '-' = none := by decide
  have h2 : findShort '=' = none := by decide
  constructor <;> (intro hc; subst hc; simp_all)

theorem shortBody_short (c : Char) (more : Str) (hc : c ≠ '-') : shortBody ('-' :: c :: more) = some (c :: more) := by
  unfold shortBody
  split <;> simp_all

theorem shortBody_long (x : Str) : shortBody ('-' :: '-' :: x) = none := rfl

/-- `-c value` (two arguments) -/
theorem short_two_args (c : Char) (o : Opt) (v : Str) (rest : List Str) (hc : findShort c = some o)
    (hk : o.kind ≠ .flag) (hv : isValue v = true) :
    lexAll (['-', c] :: v :: rest) = .opt o (some v) :: lexAll rest := by
  rw [lexAll_cons, shortBody_short c [] (findShort_ne c o hc).1]
  simp [lexShort, hc, hk, hv]

/-- `-c=value` -/
theorem short_equals (c : Char) (o : Opt) (v : Str) (rest : List Str) (hc : findShort c = some o)
    (hk : o.kind ≠ .flag) :
    lexAll (('-' :: c :: '=' :: v) :: rest) = .opt o (some v) :: lexAll rest := by
  rw [lexAll_cons, shortBody_short c _ (findShort_ne c o hc).1]
  simp [lexShort, hc, hk]

/-- `-cvalue` -/
theorem short_attached (c : Char) (o : Opt) (v : Str) (rest : List Str) (hc : findShort c = some o)
    (hk : o.kind ≠ .flag) (hv0 : v ≠ []) (hv1 : v.head? ≠ some '=') :
    lexAll (('-' :: c :: v) :: rest) = .opt o (some v) :: lexAll rest := by
  rw [lexAll_cons, shortBody_short c _ (findShort_ne c o hc).1]
  cases v with
  | nil => exact absurd rfl hv0
  | cons x xs =>
    have hx : x ≠ '=' := by simpa using hv1
    simp only [lexShort, hc, hk, if_false]
    split
    · rename_i heq
      simp only [List.cons.injEq] at heq
      exact absurd heq.1 hx
    · rename_i heq
      simp at heq
    · simp

/-- a flag letter in front of a cluster: `-uX…` = `-u` then `-X…` -/
theorem short_flag_first (c : Char) (o : Opt) (more : Str) (rest : List Str) (hc : findShort c = some o)
    (hk : o.kind = .flag) (hm : more ≠ []) (hm1 : more.head? ≠ some '-') :
    lexAll (('-' :: c :: more) :: rest) = .opt o none :: lexAll (('-' :: more) :: rest) := by
  cases more with
  | nil => exact absurd rfl hm
  | cons x xs =>
    have hx : x ≠ '-' := by simpa using hm1
    rw [lexAll_cons, shortBody_short c _ (findShort_ne c o hc).1, lexAll_cons, shortBody_short x _ hx]
    simp [lexShort, hc, hk]

/-- a long name: not empty, no `=` in it -/
def plainName (n : Str) : Bool := !n.isEmpty && !n.contains '='

theorem takeWhile_plain (n rest : Str) (h : n.contains '=' = false) :
    (n ++ '=' :: rest).takeWhile (· ≠ '=') = n ∧ (n ++ '=' :: rest).dropWhile (· ≠ '=') = '=' :: rest := by
  induction n with
  | nil => simp
  | cons x xs ih =>
    simp only [List.contains_cons, Bool.or_eq_false_iff, beq_eq_false_iff_ne, ne_eq] at h
    have hx : x ≠ '=' := fun hh => h.1 hh.symm
    have := ih h.2
    simp only [List.cons_append, List.takeWhile_cons, List.dropWhile_cons, hx, ne_eq, not_false_eq_true,
      decide_true, if_true, this.1, this.2, and_self]

theorem takeWhile_plain' (n : Str) (h : n.contains '=' = false) :
    n.takeWhile (· ≠ '=') = n ∧ n.dropWhile (· ≠ '=') = [] := by
  induction n with
  | nil => simp
  | cons x xs ih =>
    simp only [List.contains_cons, Bool.or_eq_false_iff, beq_eq_false_iff_ne, ne_eq] at h
    have hx : x ≠ '=' := fun hh => h.1 hh.symm
    have := ih h.2
    simp only [List.takeWhile_cons, List.dropWhile_cons, hx, ne_eq, not_false_eq_true,
      decide_true, if_true, this.1, this.2, and_self]

theorem lex_long_equals (n v : Str) (o : Opt) (hn : findOpt n = some o) (hp : plainName n = true) :
    lex ('-' :: '-' :: (n ++ '=' :: v)) = .opt o (some v) := by
  simp only [plainName, Bool.and_eq_true, Bool.not_eq_true', List.isEmpty_eq_false_iff] at hp
  have ht := takeWhile_plain n v hp.2
  have hne : n ++ '=' :: v ≠ [] := by simp
  simp only [lex, hne, if_false, ht.1, ht.2, hn]

theorem lex_long_bare (n : Str) (o : Opt) (hn : findOpt n = some o) (hp : plainName n = true) :
    lex ('-' :: '-' :: n) = .opt o none := by
  simp only [plainName, Bool.and_eq_true, Bool.not_eq_true', List.isEmpty_eq_false_iff] at hp
  have ht := takeWhile_plain' n hp.2
  simp only [lex, hp.1, if_false, ht.1, ht.2, hn]

/-- `--name=value` -/
theorem long_equals (n v : Str) (o : Opt) (rest : List Str) (hn : findOpt n = some o) (hp : plainName n = true) :
    lexAll (('-' :: '-' :: (n ++ '=' :: v)) :: rest) = .opt o (some v) :: lexAll rest := by
  rw [lexAll_cons, shortBody_long, lex_long_equals n v o hn hp]

/-- `--name value` (two arguments) -/
theorem long_two_args (n v : Str) (o : Opt) (rest : List Str) (hn : findOpt n = some o) (hp : plainName n = true)
    (hk : o.kind ≠ .flag) (hv : isValue v = true) :
    lexAll (('-' :: '-' :: n) :: v :: rest) = .opt o (some v) :: lexAll rest := by
  rw [lexAll_cons, shortBody_long, lex_long_bare n o hn hp]
  simp [hk, hv]

/-- every long name and visible alias of the table is plain -/
theorem names_plain : (Opt.all.all fun o => o.names.all fun n => plainName n.toList) = true := by decide

/-- SPELLINGS: an option that takes a value gives the same token — hence, by `parseArgs`, the same configuration — however
it is written: `--name=value`, `--name value`, `-c value`, `-c=value`, `-cvalue`, under any of its names -/
theorem option_spellings (n n' v : Str) (c : Char) (o : Opt) (rest : List Str)
    (hn : findOpt n = some o) (hp : plainName n = true) (hn' : findOpt n' = some o) (hp' : plainName n' = true)
    (hc : findShort c = some o) (hk : o.kind ≠ .flag)
    (hv : isValue v = true) (hv0 : v ≠ []) (hv1 : v.head? ≠ some '=') :
    let canonical := lexAll (('-' :: '-' :: (n ++ '=' :: v)) :: rest)
    lexAll (('-' :: '-' :: (n' ++ '=' :: v)) :: rest) = canonical ∧
    lexAll (('-' :: '-' :: n') :: v :: rest) = canonical ∧
    lexAll (['-', c] :: v :: rest) = canonical ∧
    lexAll (('-' :: c :: '=' :: v) :: rest) = canonical ∧
    lexAll (('-' :: c :: v) :: rest) = canonical := by
  simp only [long_equals n v o rest hn hp, long_equals n' v o rest hn' hp', long_two_args n' v o rest hn' hp' hk hv,
    short_two_args c o v rest hc hk hv, short_equals c o v rest hc hk, short_attached c o v rest hc hk hv0 hv1,
    and_self]

/-- arguments that are one token each are tokenised one by one, whatever follows them -/
theorem lexAll_append_oneToken (l rest : List Str) (h : OneTokenEach l) :
    lexAll (l ++ rest) = l.map lex ++ lexAll rest := by
  induction l with
  | nil => rfl
  | cons s l' ih =>
    have hrest : OneTokenEach l' := fun x hx => h x (List.mem_cons_of_mem _ hx)
    have hs := h s List.mem_cons_self
    unfold oneToken at hs
    simp only [Bool.and_eq_true, Option.isNone_iff_eq_none] at hs
    rw [List.cons_append, lexAll_cons, hs.1, List.map_cons, List.cons_append, ← ih hrest]
    cases hl : lex s with
    | file n => rfl
    | other => rfl
    | opt o v =>
      cases v with
      | some x => rfl
      | none =>
        have hk : o.kind = .flag := by
          have := hs.2
          rw [hl] at this
          simpa using this
        cases hh : (l' ++ rest).head? with
        | none => simp only
        | some v => simp only [hk, ne_eq, not_true_eq_false, false_and, if_false]

/-- 4a'. an option written in TWO arguments (`--name value`) moves as a pair: swapping the pair with a neighbouring
one-token argument of another family changes nothing -/
theorem swap_adjacent_two_args (l₁ l₂ : List Str) (n v s₂ : Str) (o : Opt)
    (hn : findOpt n = some o) (hp : plainName n = true) (hk : o.kind ≠ .flag) (hv : isValue v = true)
    (h₁ : OneTokenEach l₁) (h₂ : OneTokenEach (s₂ :: l₂)) (hf : sameFamily (.opt o (some v)) (lex s₂) = false) :
    parseArgs (l₁ ++ ('-' :: '-' :: n) :: v :: s₂ :: l₂) = parseArgs (l₁ ++ s₂ :: ('-' :: '-' :: n) :: v :: l₂) := by
  apply parseArgs_order_independent
  have h2' : OneTokenEach l₂ := fun x hx => h₂ x (List.mem_cons_of_mem _ hx)
  have hs2 : OneTokenEach [s₂] := fun x hx => h₂ x (by simp only [List.mem_singleton] at hx; subst hx; exact List.mem_cons_self)
  have e1 : lexAll (l₁ ++ ('-' :: '-' :: n) :: v :: s₂ :: l₂) =
      l₁.map lex ++ .opt o (some v) :: lex s₂ :: l₂.map lex := by
    rw [lexAll_append_oneToken _ _ h₁, long_two_args n v o _ hn hp hk hv, lexAll_eq_map _ h₂, List.map_cons]
  have e2 : lexAll (l₁ ++ s₂ :: ('-' :: '-' :: n) :: v :: l₂) =
      l₁.map lex ++ lex s₂ :: .opt o (some v) :: l₂.map lex := by
    rw [lexAll_append_oneToken _ _ h₁]
    have : s₂ :: ('-' :: '-' :: n) :: v :: l₂ = [s₂] ++ (('-' :: '-' :: n) :: v :: l₂) := rfl
    rw [this, lexAll_append_oneToken _ _ hs2, long_two_args n v o _ hn hp hk hv, lexAll_eq_map _ h2']
    rfl
  rw [e1, e2]
  exact same_of_swap _ _ _ _ hf

/-- SPELLINGS, anywhere on the line: behind any arguments that are one token each, the occurrence of an option may be
written in any of its spellings — the whole command line is parsed to the same record -/
theorem respell_anywhere (pre rest : List Str) (n n' v : Str) (c : Char) (o : Opt)
    (hpre : OneTokenEach pre)
    (hn : findOpt n = some o) (hp : plainName n = true) (hn' : findOpt n' = some o) (hp' : plainName n' = true)
    (hc : findShort c = some o) (hk : o.kind ≠ .flag)
    (hv : isValue v = true) (hv0 : v ≠ []) (hv1 : v.head? ≠ some '=') :
    let canonical := parseArgs (pre ++ ('-' :: '-' :: (n ++ '=' :: v)) :: rest)
    parseArgs (pre ++ ('-' :: '-' :: (n' ++ '=' :: v)) :: rest) = canonical ∧
    parseArgs (pre ++ ('-' :: '-' :: n') :: v :: rest) = canonical ∧
    parseArgs (pre ++ ['-', c] :: v :: rest) = canonical ∧
    parseArgs (pre ++ ('-' :: c :: '=' :: v) :: rest) = canonical ∧
    parseArgs (pre ++ ('-' :: c :: v) :: rest) = canonical := by
  have h := option_spellings n n' v c o rest hn hp hn' hp' hc hk hv hv0 hv1
  simp only at h
  simp only [parseArgs, lexAll_append_oneToken _ _ hpre, h.1, h.2.1, h.2.2.1, h.2.2.2.1, h.2.2.2.2, and_self]

/-- non-vacuity, and the spellings on a concrete line -/
example : parseArgs ["--choose=.a".toList, "--skip=2".toList, "--unique".toList, "f.json".toList]
    = parseArgs ["-uc".toList, ".a".toList, "-k2".toList, "f.json".toList] := by
  have h : lexAll ["--choose=.a".toList, "--skip=2".toList, "--unique".toList, "f.json".toList] =
      [.opt .select (some ".a".toList), .opt .skip (some "2".toList), .opt .unique none, .file "f.json".toList] := by decide
  have h' : lexAll ["-uc".toList, ".a".toList, "-k2".toList, "f.json".toList] =
      [.opt .unique none, .opt .select (some ".a".toList), .opt .skip (some "2".toList), .file "f.json".toList] := by decide
  apply parseArgs_order_independent
  rw [h, h']
  refine ⟨by decide, fun o => ?_, by decide⟩
  cases o <;> decide

/-- what clap does NOT take as a value: an argument that starts with `-` (other than the lone `-`) -/
theorem value_must_not_look_like_an_option :
    (parseArgs ["--skip".toList, "-1".toList]).isNone = true ∧
    (parseArgs ["--choose".toList, "-x".toList]).isNone = true ∧
    lexAll ["--choose".toList, "-".toList] = [.opt .select (some "-".toList)] ∧
    lexAll ["-cu".toList, ".a".toList] = [.opt .select (some "u".toList), .file ".a".toList] := by
  decide

/-! ## the exception is real; non-vacuity -/

/-- what the examples compare (`Parsed` has no decidable equality) -/
structure View where
  selects : List Str
  sorts : List Str
  skip : Nat
  take : Option Nat
  unique : Bool
  files : List Str
  deriving DecidableEq, Repr

def view (p : Parsed) : View :=
  { selects := p.cfg.selects, sorts := p.cfg.sorts, skip := p.cfg.skip, take := p.cfg.take, unique := p.cfg.unique,
    files := p.files }

/-- 4b. the relative order of repeated options DOES matter: swapping two `--select=…` changes the record -/
theorem repeated_order_matters :
    (parseArgs ["--select=.a".toList, "--select=.b".toList]).map view
      ≠ (parseArgs ["--select=.b".toList, "--select=.a".toList]).map view := by
  decide

theorem repeated_order_matters' :
    parseArgs ["--select=.a".toList, "--select=.b".toList] ≠ parseArgs ["--select=.b".toList, "--select=.a".toList] :=
  fun h => repeated_order_matters (congrArg (Option.map view) h)

/-- … and so does the order of the positionals -/
theorem files_order_matters :
    (parseArgs ["a.json".toList, "b.json".toList]).map view ≠ (parseArgs ["b.json".toList, "a.json".toList]).map view := by
  decide

/-- 4c. a flag given twice is rejected -/
theorem unique_twice_rejected : (parseArgs ["--unique".toList, "--unique".toList]).isNone = true := by
  decide

theorem unique_once_accepted : (parseArgs ["--unique".toList]).isSome = true := by
  decide

/-- a command line with two selects, a sort, skip, take, unique and two files … -/
def exA : List Str :=
  ["--select=.a".toList, "--select=.b=B".toList, "--sort-by=.a".toList, "--skip=1".toList, "--take=+10".toList,
   "--unique".toList, "in1.json".toList, "in2.json".toList]

/-- … and a shuffle of it that keeps the selects and the files in their relative order -/
def exB : List Str :=
  ["in1.json".toList, "--unique".toList, "--limit=+10".toList, "--choose=.a".toList, "--skip=1".toList,
   "in2.json".toList, "--order-by=.a".toList, "--select=.b=B".toList]

/-- the hypothesis of the main theorem holds for the pair -/
theorem exAB_same : SameUpToFamilyOrder (lexAll exA) (lexAll exB) := by
  refine ⟨by decide, fun o => ?_, by decide⟩
  cases o <;> decide

/-- both are accepted, with the same record (by the theorem) … -/
theorem exAB_eq : parseArgs exA = parseArgs exB := parseArgs_order_independent _ _ exAB_same

/-- … which is the expected one (by evaluation, on both sides) -/
theorem exA_view : (parseArgs exA).map view =
    some { selects := [".a".toList, ".b=B".toList], sorts := [".a".toList], skip := 1, take := some 10, unique := true,
           files := ["in1.json".toList, "in2.json".toList] } := by
  decide

theorem exB_view : (parseArgs exB).map view = (parseArgs exA).map view := by
  decide

/-- moving the second select in front of the first is NOT covered by the hypothesis, and indeed changes the record -/
def exC : List Str :=
  ["--select=.b=B".toList, "in1.json".toList, "--unique".toList, "--limit=+10".toList, "--choose=.a".toList,
   "--skip=1".toList, "in2.json".toList, "--order-by=.a".toList]

theorem exC_differs : (parseArgs exC).map view ≠ (parseArgs exA).map view := by
  decide

theorem exAC_not_same : ¬ SameUpToFamilyOrder (lexAll exA) (lexAll exC) := by
  intro h
  exact absurd (h.2.1 .select) (by decide)

/-- the `Perm` part of the hypothesis is needed (only) because of unknown tokens: the family filters do not see them -/
example : (∀ o, [Tok.other].filter (isOpt o) = ([] : List Tok).filter (isOpt o))
    ∧ [Tok.other].filter isFile = ([] : List Tok).filter isFile
    ∧ (collect {} [Tok.other]).isSome ≠ (collect {} []).isSome :=
  ⟨fun _ => rfl, rfl, by decide⟩

/-- the swap corollary on a concrete line: `--skip=1` and `in1.json` change places -/
example : parseArgs ["--unique".toList, "--skip=1".toList, "in1.json".toList, "--take=2".toList]
    = parseArgs ["--unique".toList, "in1.json".toList, "--skip=1".toList, "--take=2".toList] :=
  swap_adjacent ["--unique".toList] ["--take=2".toList] "--skip=1".toList "in1.json".toList (by decide)
    (by intro s hs; simp only [List.cons_append, List.nil_append, List.mem_cons, List.not_mem_nil, or_false] at hs
        rcases hs with rfl | rfl | rfl | rfl <;> decide)

/-- rejection is order independent too: an invalid number is rejected wherever it stands -/
example : (parseArgs ["--skip=x".toList, "--unique".toList]).isNone = true
    ∧ (parseArgs ["--unique".toList, "--skip=x".toList]).isNone = true := by
  decide

end Jawk.Args

/-
#print axioms Jawk.Args.collect_isSome_iff
#print axioms Jawk.Args.collect_of
#print axioms Jawk.Args.collect_files
#print axioms Jawk.Args.assemble_congr
#print axioms Jawk.Args.collect_order_independent
#print axioms Jawk.Args.parseArgs_order_independent
#print axioms Jawk.Args.swap_adjacent
#print axioms Jawk.Args.repeated_order_matters
#print axioms Jawk.Args.unique_twice_rejected
#print axioms Jawk.Args.exAB_same
#print axioms Jawk.Args.exA_view
-/
