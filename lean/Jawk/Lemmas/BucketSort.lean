/-
  The `--sort-by` stage (bucket map `Buckets`) is a stable sort, and its bounded (top-N)
  variant is `take` of the stable sort (properties C07, C08).  Core Lean only.
-/
import Jawk.Model.Stages
import Jawk.Spec.Sort

namespace Jawk

/-! ## Consequences of `TotalPreorderCmp`
(local to this file: `private`, so that they cannot clash with `Jawk/Lemmas/Order.lean`) -/

namespace TotalPreorderCmp
variable {κ : Type} {cmp : κ → κ → Ordering}

private theorem gt_iff_lt (H : TotalPreorderCmp cmp) (a b : κ) : cmp a b = .gt ↔ cmp b a = .lt := by
  rw [H.swap b a]; cases cmp b a <;> simp [Ordering.swap]

private theorem eq_symm (H : TotalPreorderCmp cmp) {a b : κ} (h : cmp a b = .eq) : cmp b a = .eq := by
  rw [H.swap a b, h]; rfl

private theorem lt_swap (H : TotalPreorderCmp cmp) {a b : κ} (h : cmp a b = .lt) : cmp b a = .gt := by
  rw [H.swap a b, h]; rfl

private theorem gt_swap (H : TotalPreorderCmp cmp) {a b : κ} (h : cmp a b = .gt) : cmp b a = .lt := by
  rw [H.swap a b, h]; rfl

/-- the flipped comparison is again a total preorder -/
private theorem flip (H : TotalPreorderCmp cmp) : TotalPreorderCmp (fun a b => cmp b a) where
  refl a := H.refl a
  swap a b := H.swap b a
  le_trans a b c h1 h2 := H.le_trans c b a h2 h1

private theorem lt_of_lt_of_le (H : TotalPreorderCmp cmp) {a b c : κ}
    (h1 : cmp a b = .lt) (h2 : cmp b c ≠ .gt) : cmp a c = .lt := by
  have h3 : cmp a c ≠ .gt := H.le_trans a b c (by rw [h1]; decide) h2
  cases h : cmp a c with
  | lt => rfl
  | gt => exact absurd h h3
  | eq =>
    -- c ≤ a, b ≤ c, hence b ≤ a, contradiction with a < b
    have hca : cmp c a ≠ .gt := by rw [H.eq_symm h]; decide
    have hba : cmp b a ≠ .gt := H.le_trans b c a h2 hca
    exact absurd (H.lt_swap h1) hba

private theorem lt_of_le_of_lt (H : TotalPreorderCmp cmp) {a b c : κ}
    (h1 : cmp a b ≠ .gt) (h2 : cmp b c = .lt) : cmp a c = .lt := by
  have h3 : cmp a c ≠ .gt := H.le_trans a b c h1 (by rw [h2]; decide)
  cases h : cmp a c with
  | lt => rfl
  | gt => exact absurd h h3
  | eq =>
    have hca : cmp c a ≠ .gt := by rw [H.eq_symm h]; decide
    have hcb : cmp c b ≠ .gt := H.le_trans c a b hca h1
    exact absurd (H.lt_swap h2) hcb

private theorem eq_trans (H : TotalPreorderCmp cmp) {a b c : κ}
    (h1 : cmp a b = .eq) (h2 : cmp b c = .eq) : cmp a c = .eq := by
  have h3 : cmp a c ≠ .gt := H.le_trans a b c (by rw [h1]; decide) (by rw [h2]; decide)
  have h4 : cmp c a ≠ .gt :=
    H.le_trans c b a (by rw [H.eq_symm h2]; decide) (by rw [H.eq_symm h1]; decide)
  cases h : cmp a c with
  | eq => rfl
  | gt => exact absurd h h3
  | lt => exact absurd (H.lt_swap h) h4

/-- keys that compare `.eq` are indistinguishable on the left -/
private theorem congr_left (H : TotalPreorderCmp cmp) {a b : κ} (h : cmp a b = .eq) (c : κ) :
    cmp a c = cmp b c := by
  have hab : cmp a b ≠ .gt := by rw [h]; decide
  have hba : cmp b a ≠ .gt := by rw [H.eq_symm h]; decide
  cases h1 : cmp b c with
  | lt => exact H.lt_of_le_of_lt hab h1
  | eq => exact H.eq_trans h h1
  | gt =>
    have : cmp c a = .lt := H.lt_of_lt_of_le (H.gt_swap h1) hba
    exact H.lt_swap this

/-- keys that compare `.eq` are indistinguishable on the right -/
private theorem congr_right (H : TotalPreorderCmp cmp) {a b : κ} (h : cmp a b = .eq) (c : κ) :
    cmp c a = cmp c b := by
  rw [H.swap a c, H.swap b c, H.congr_left h c]

end TotalPreorderCmp

/-! ## Properties of the specification sort (item 6) -/

namespace SortSpec
variable {α κ : Type} {cmp : κ → κ → Ordering} {key : α → κ}

/-- descending insertion is ascending insertion for the flipped comparison -/
theorem insertDesc_eq_flip (H : TotalPreorderCmp cmp) (x : α) (l : List α) :
    insertDesc cmp key x l = insertAsc (fun a b => cmp b a) key x l := by
  induction l with
  | nil => rfl
  | cons y ys ih =>
    simp only [insertDesc, insertAsc, ih, H.gt_iff_lt (key x) (key y)]

theorem insertDir_true_eq_flip (H : TotalPreorderCmp cmp) (x : α) (l : List α) :
    insertDir cmp key true x l = insertDir (fun a b => cmp b a) key false x l := by
  simp [insertDir, insertDesc_eq_flip H]

theorem sortDir_true_eq_flip (H : TotalPreorderCmp cmp) (l : List α) :
    sortDir cmp key true l = sortDir (fun a b => cmp b a) key false l := by
  unfold sortDir
  congr 1
  funext acc x
  exact insertDir_true_eq_flip H x acc

theorem sortedDir_true_iff_flip (H : TotalPreorderCmp cmp) (l : List α) :
    SortedDir cmp key true l ↔ SortedDir (fun a b => cmp b a) key false l := by
  unfold SortedDir
  simp only [if_true, Bool.false_eq_true, if_false]
  constructor
  · intro h
    refine h.imp ?_
    intro a b hab hgt
    exact hab (H.gt_swap hgt)
  · intro h
    refine h.imp ?_
    intro a b hab hlt
    exact hab (H.lt_swap hlt)

/-! ### ascending insertion -/

theorem insertAsc_perm (cmp : κ → κ → Ordering) (key : α → κ) (x : α) (l : List α) :
    (insertAsc cmp key x l).Perm (x :: l) := by
  induction l with
  | nil => exact List.Perm.refl _
  | cons y ys ih =>
    simp only [insertAsc]
    split
    · exact List.Perm.refl _
    · exact (List.Perm.cons y ih).trans (List.Perm.swap x y ys)

theorem insertAsc_length (cmp : κ → κ → Ordering) (key : α → κ) (x : α) (l : List α) :
    (insertAsc cmp key x l).length = l.length + 1 := by
  simpa using (insertAsc_perm cmp key x l).length_eq

theorem insertAsc_sorted (H : TotalPreorderCmp cmp) (x : α) (l : List α)
    (hl : SortedDir cmp key false l) : SortedDir cmp key false (insertAsc cmp key x l) := by
  unfold SortedDir at *
  simp only [Bool.false_eq_true, if_false] at *
  induction l with
  | nil => simp [insertAsc]
  | cons y ys ih =>
    rw [List.pairwise_cons] at hl
    simp only [insertAsc]
    split
    next hlt =>
      rw [List.pairwise_cons]
      refine ⟨?_, List.pairwise_cons.mpr hl⟩
      intro z hz
      rcases List.mem_cons.mp hz with rfl | hz
      · rw [hlt]; decide
      · rw [H.lt_of_lt_of_le hlt (hl.1 z hz)]; decide
    next hnlt =>
      rw [List.pairwise_cons]
      refine ⟨?_, ih hl.2⟩
      intro z hz
      have hz' := (insertAsc_perm cmp key x ys).mem_iff.mp hz
      rcases List.mem_cons.mp hz' with rfl | hz'
      · intro hgt; exact hnlt (H.gt_swap hgt)
      · exact hl.1 z hz'

/-- stability core: inserting `x` into a sorted list puts it after all rows of its class -/
theorem insertAsc_filter (H : TotalPreorderCmp cmp) (p : α → Bool)
    (hp : ∀ a b, p a = true → p b = true → cmp (key a) (key b) = .eq)
    (x : α) (l : List α) (hl : SortedDir cmp key false l) :
    (insertAsc cmp key x l).filter p = l.filter p ++ (if p x then [x] else []) := by
  unfold SortedDir at hl
  simp only [Bool.false_eq_true, if_false] at hl
  induction l with
  | nil => cases hx : p x <;> simp [insertAsc, hx]
  | cons y ys ih =>
    rw [List.pairwise_cons] at hl
    simp only [insertAsc]
    split
    next hlt =>
      cases hx : p x with
      | false => simp [List.filter_cons, hx]
      | true =>
        have hnone : (y :: ys).filter p = [] := by
          rw [List.filter_eq_nil_iff]
          intro z hz hpz
          have hxz : cmp (key x) (key z) = .lt := by
            rcases List.mem_cons.mp hz with rfl | hz
            · exact hlt
            · exact H.lt_of_lt_of_le hlt (hl.1 z hz)
          rw [hp x z hx hpz] at hxz
          exact Ordering.noConfusion hxz
        rw [List.filter_cons, hx, hnone]; simp
    next hnlt =>
      rw [List.filter_cons, List.filter_cons, ih hl.2]
      split <;> simp

/-! ### the fold -/

theorem foldl_insertAsc_perm (cmp : κ → κ → Ordering) (key : α → κ) (l acc : List α) :
    (l.foldl (fun acc x => insertDir cmp key false x acc) acc).Perm (acc ++ l) := by
  induction l generalizing acc with
  | nil => simp
  | cons x xs ih =>
    rw [List.foldl_cons]
    refine (ih _).trans ?_
    have h1 : (insertDir cmp key false x acc).Perm (x :: acc) := by
      simpa [insertDir] using insertAsc_perm cmp key x acc
    refine (List.Perm.append_right xs h1).trans ?_
    simpa using (List.perm_middle (l₁ := acc) (l₂ := xs) (a := x)).symm

theorem foldl_insertAsc_sorted (H : TotalPreorderCmp cmp) (l acc : List α)
    (hacc : SortedDir cmp key false acc) :
    SortedDir cmp key false (l.foldl (fun acc x => insertDir cmp key false x acc) acc) := by
  induction l generalizing acc with
  | nil => simpa using hacc
  | cons x xs ih =>
    rw [List.foldl_cons]
    apply ih
    simpa [insertDir] using insertAsc_sorted H x acc hacc

theorem foldl_insertAsc_filter (H : TotalPreorderCmp cmp) (p : α → Bool)
    (hp : ∀ a b, p a = true → p b = true → cmp (key a) (key b) = .eq)
    (l acc : List α) (hacc : SortedDir cmp key false acc) :
    (l.foldl (fun acc x => insertDir cmp key false x acc) acc).filter p
      = acc.filter p ++ l.filter p := by
  induction l generalizing acc with
  | nil => simp
  | cons x xs ih =>
    rw [List.foldl_cons, ih]
    · have : insertDir cmp key false x acc = insertAsc cmp key x acc := by simp [insertDir]
      rw [this, insertAsc_filter H p hp x acc hacc, List.filter_cons]
      cases p x <;> simp
    · simpa [insertDir] using insertAsc_sorted H x acc hacc

theorem sortedDir_nil (cmp : κ → κ → Ordering) (key : α → κ) (desc : Bool) :
    SortedDir cmp key desc [] := List.Pairwise.nil

/-! ### main statements of item 6 -/

theorem sortDir_perm (H : TotalPreorderCmp cmp) (key : α → κ) (desc : Bool) (l : List α) :
    (sortDir cmp key desc l).Perm l := by
  cases desc with
  | false => simpa [sortDir] using foldl_insertAsc_perm cmp key l []
  | true =>
    rw [sortDir_true_eq_flip H]
    simpa [sortDir] using foldl_insertAsc_perm (fun a b => cmp b a) key l []

theorem sortDir_length (H : TotalPreorderCmp cmp) (key : α → κ) (desc : Bool) (l : List α) :
    (sortDir cmp key desc l).length = l.length :=
  (sortDir_perm H key desc l).length_eq

theorem sortDir_sorted (H : TotalPreorderCmp cmp) (key : α → κ) (desc : Bool) (l : List α) :
    SortedDir cmp key desc (sortDir cmp key desc l) := by
  cases desc with
  | false => exact foldl_insertAsc_sorted H l [] (sortedDir_nil _ _ _)
  | true =>
    rw [sortedDir_true_iff_flip H, sortDir_true_eq_flip H]
    exact foldl_insertAsc_sorted H.flip l [] (sortedDir_nil _ _ _)

/-- ties keep arrival order -/
theorem sortDir_stable (H : TotalPreorderCmp cmp) (key : α → κ) (desc : Bool) (l : List α) (k : κ) :
    (sortDir cmp key desc l).filter (fun x => cmp (key x) k = .eq)
      = l.filter (fun x => cmp (key x) k = .eq) := by
  cases desc with
  | false =>
    have := foldl_insertAsc_filter H (fun x => decide (cmp (key x) k = .eq))
      (by
        intro a b ha hb
        have ha' : cmp (key a) k = .eq := by simpa using ha
        have hb' : cmp (key b) k = .eq := by simpa using hb
        exact H.eq_trans ha' (H.eq_symm hb'))
      l [] (sortedDir_nil _ _ _)
    simpa [sortDir] using this
  | true =>
    rw [sortDir_true_eq_flip H]
    have := foldl_insertAsc_filter H.flip (key := key) (fun x => decide (cmp (key x) k = .eq))
      (by
        intro a b ha hb
        have ha' : cmp (key a) k = .eq := by simpa using ha
        have hb' : cmp (key b) k = .eq := by simpa using hb
        exact H.eq_trans hb' (H.eq_symm ha'))
      l [] (sortedDir_nil _ _ _)
    simpa [sortDir] using this

/-! ### the pure list core of the top-N shortcut -/

theorem insertAsc_take (cmp : κ → κ → Ordering) (key : α → κ) (x : α) (l : List α) (n : Nat) :
    (insertAsc cmp key x (l.take n)).take n = (insertAsc cmp key x l).take n := by
  induction l generalizing n with
  | nil => simp
  | cons y ys ih =>
    cases n with
    | zero => simp
    | succ n =>
      simp only [List.take_succ_cons, insertAsc]
      split
      · simp only [List.take_succ_cons]
        congr 1
        rw [← List.take_succ_cons, List.take_take]
        simp
      · simp only [List.take_succ_cons, ih]

theorem insertDesc_take (cmp : κ → κ → Ordering) (key : α → κ) (x : α) (l : List α) (n : Nat) :
    (insertDesc cmp key x (l.take n)).take n = (insertDesc cmp key x l).take n := by
  induction l generalizing n with
  | nil => simp
  | cons y ys ih =>
    cases n with
    | zero => simp
    | succ n =>
      simp only [List.take_succ_cons, insertDesc]
      split
      · simp only [List.take_succ_cons]
        congr 1
        rw [← List.take_succ_cons, List.take_take]
        simp
      · simp only [List.take_succ_cons, ih]

/-- inserting into the first `n` rows and cutting again = inserting into all rows and cutting
(no sortedness needed: insertion only looks at a prefix) -/
theorem insertDir_take (cmp : κ → κ → Ordering) (key : α → κ) (desc : Bool) (x : α) (l : List α)
    (n : Nat) :
    (insertDir cmp key desc x (l.take n)).take n = (insertDir cmp key desc x l).take n := by
  cases desc
  · simpa [insertDir] using insertAsc_take cmp key x l n
  · simpa [insertDir] using insertDesc_take cmp key x l n

theorem insertDir_length (cmp : κ → κ → Ordering) (key : α → κ) (desc : Bool) (x : α) (l : List α) :
    (insertDir cmp key desc x l).length = l.length + 1 := by
  cases desc
  · simpa [insertDir] using insertAsc_length cmp key x l
  · simp only [insertDir, if_true]
    induction l with
    | nil => rfl
    | cons y ys ih => simp only [insertDesc]; split <;> simp [ih]


/-! ### where an insertion lands, given bounds on a prefix / the whole list -/

theorem insertAsc_of_all_lt (cmp : κ → κ → Ordering) (key : α → κ) (x : α) (l : List α)
    (h : ∀ y ∈ l, cmp (key x) (key y) = .lt) : insertAsc cmp key x l = x :: l := by
  cases l with
  | nil => rfl
  | cons y ys => simp [insertAsc, h y (List.mem_cons_self ..)]

theorem insertAsc_append_of_not_lt (cmp : κ → κ → Ordering) (key : α → κ) (x : α) (A B : List α)
    (h : ∀ y ∈ A, cmp (key x) (key y) ≠ .lt) :
    insertAsc cmp key x (A ++ B) = A ++ insertAsc cmp key x B := by
  induction A with
  | nil => rfl
  | cons y ys ih =>
    have hy := h y (List.mem_cons_self ..)
    simp only [List.cons_append, insertAsc, if_neg hy]
    rw [ih (fun z hz => h z (List.mem_cons_of_mem _ hz))]

theorem insertDesc_of_all_gt (cmp : κ → κ → Ordering) (key : α → κ) (x : α) (l : List α)
    (h : ∀ y ∈ l, cmp (key x) (key y) = .gt) : insertDesc cmp key x l = x :: l := by
  cases l with
  | nil => rfl
  | cons y ys => simp [insertDesc, h y (List.mem_cons_self ..)]

theorem insertDesc_append_of_not_gt (cmp : κ → κ → Ordering) (key : α → κ) (x : α) (A B : List α)
    (h : ∀ y ∈ A, cmp (key x) (key y) ≠ .gt) :
    insertDesc cmp key x (A ++ B) = A ++ insertDesc cmp key x B := by
  induction A with
  | nil => rfl
  | cons y ys ih =>
    have hy := h y (List.mem_cons_self ..)
    simp only [List.cons_append, insertDesc, if_neg hy]
    rw [ih (fun z hz => h z (List.mem_cons_of_mem _ hz))]

theorem insertDesc_append_of_all_gt (cmp : κ → κ → Ordering) (key : α → κ) (x : α) (L A : List α)
    (h : ∀ y ∈ A, cmp (key x) (key y) = .gt) :
    insertDesc cmp key x (L ++ A) = insertDesc cmp key x L ++ A := by
  induction L with
  | nil => simpa [insertDesc] using insertDesc_of_all_gt cmp key x A h
  | cons y ys ih =>
    simp only [List.cons_append, insertDesc]
    split
    · rfl
    · rw [ih]; rfl

end SortSpec

/-! ## The bucket map -/

namespace BucketSort
open SortSpec

/-- the rows of one bucket, oldest first, each tagged with the bucket key -/
def bucketRows (b : JV × List Ctx) : List (JV × Ctx) := b.2.reverse.map (fun c => (b.1, c))

/-- `bucketsEmit`, keeping each row's bucket key -/
def emitK (desc : Bool) (data : Buckets) : List (JV × Ctx) :=
  (if desc then data.reverse else data).flatMap bucketRows

theorem emitK_map_snd (desc : Bool) (data : Buckets) :
    (emitK desc data).map (·.2) = bucketsEmit desc data := by
  simp [emitK, bucketsEmit, bucketRows, List.map_flatMap, Function.comp_def]

/-- keys strictly ascending, no bucket empty -/
def BucketsOK (data : Buckets) : Prop :=
  data.Pairwise (fun a b => JV.cmp a.1 b.1 = .lt) ∧ ∀ b ∈ data, b.2 ≠ []

theorem bucketsOK_nil : BucketsOK [] := ⟨List.Pairwise.nil, by simp⟩

theorem BucketsOK.tail {b : JV × List Ctx} {d : Buckets} (h : BucketsOK (b :: d)) : BucketsOK d :=
  ⟨(List.pairwise_cons.mp h.1).2, fun x hx => h.2 x (List.mem_cons_of_mem _ hx)⟩

theorem BucketsOK.head_lt {b : JV × List Ctx} {d : Buckets} (h : BucketsOK (b :: d)) :
    ∀ x ∈ d, JV.cmp b.1 x.1 = .lt := (List.pairwise_cons.mp h.1).1

@[simp] theorem emitK_nil (desc : Bool) : emitK desc [] = [] := by
  cases desc <;> simp [emitK]

theorem emitK_false_cons (b : JV × List Ctx) (d : Buckets) :
    emitK false (b :: d) = bucketRows b ++ emitK false d := by
  simp [emitK]

theorem emitK_true_cons (b : JV × List Ctx) (d : Buckets) :
    emitK true (b :: d) = emitK true d ++ bucketRows b := by
  simp [emitK]

theorem mem_bucketRows {x : JV × Ctx} {b : JV × List Ctx} (h : x ∈ bucketRows b) : x.1 = b.1 := by
  simp only [bucketRows, List.mem_map] at h
  obtain ⟨c, _, rfl⟩ := h
  rfl

theorem mem_emitK {x : JV × Ctx} {desc : Bool} {d : Buckets} (h : x ∈ emitK desc d) :
    ∃ b ∈ d, x.1 = b.1 := by
  simp only [emitK, List.mem_flatMap] at h
  obtain ⟨b, hb, hx⟩ := h
  refine ⟨b, ?_, mem_bucketRows hx⟩
  cases desc <;> simpa using hb

theorem bucketRows_cons (k : JV) (c : Ctx) (q : List Ctx) :
    bucketRows (k, c :: q) = bucketRows (k, q) ++ [(k, c)] := by
  simp [bucketRows]

/-- the key of the bucket in which a row with evaluated key `k` lands -/
def landKey (k : JV) : Buckets → JV
  | [] => k
  | (k0, _) :: rest =>
    match JV.cmp k k0 with
    | .lt => k
    | .eq => k0
    | .gt => landKey k rest

theorem landKey_eq (H : TotalPreorderCmp JV.cmp) (k : JV) (d : Buckets) :
    JV.cmp k (landKey k d) = .eq := by
  induction d with
  | nil => exact H.refl k
  | cons b rest ih =>
    obtain ⟨k0, q⟩ := b
    simp only [landKey]
    split
    · exact H.refl k
    · assumption
    · exact ih

theorem mem_bucketInsert {k : JV} {c : Ctx} {d : Buckets} {b : JV × List Ctx}
    (h : b ∈ bucketInsert k c d) : b.1 = k ∨ ∃ b' ∈ d, b'.1 = b.1 := by
  induction d with
  | nil => simp [bucketInsert] at h; left; rw [h]
  | cons b0 rest ih =>
    obtain ⟨k0, q⟩ := b0
    simp only [bucketInsert] at h
    split at h
    · rcases List.mem_cons.mp h with rfl | h
      · left; rfl
      · right; exact ⟨b, h, rfl⟩
    · rcases List.mem_cons.mp h with rfl | h
      · right; exact ⟨(k0, q), List.mem_cons_self .., rfl⟩
      · right; exact ⟨b, List.mem_cons_of_mem _ h, rfl⟩
    · rcases List.mem_cons.mp h with rfl | h
      · right; exact ⟨(k0, q), List.mem_cons_self .., rfl⟩
      · rcases ih h with h | ⟨b', hb', e⟩
        · left; exact h
        · right; exact ⟨b', List.mem_cons_of_mem _ hb', e⟩

/-- item 1 -/
theorem bucketInsert_ok (H : TotalPreorderCmp JV.cmp) (k : JV) (c : Ctx) (d : Buckets)
    (hd : BucketsOK d) : BucketsOK (bucketInsert k c d) := by
  induction d with
  | nil =>
    refine ⟨by simp [bucketInsert], ?_⟩
    intro b hb; simp [bucketInsert] at hb; simp [hb]
  | cons b0 rest ih =>
    obtain ⟨k0, q⟩ := b0
    have hlt := hd.head_lt
    simp only [bucketInsert]
    split
    next hc =>
      refine ⟨List.pairwise_cons.mpr ⟨?_, hd.1⟩, ?_⟩
      · intro x hx
        rcases List.mem_cons.mp hx with rfl | hx
        · exact hc
        · exact H.lt_of_lt_of_le hc (by rw [hlt x hx]; decide)
      · intro x hx
        rcases List.mem_cons.mp hx with rfl | hx
        · simp
        · exact hd.2 x hx
    next hc =>
      refine ⟨List.pairwise_cons.mpr ⟨hlt, hd.tail.1⟩, ?_⟩
      intro x hx
      rcases List.mem_cons.mp hx with rfl | hx
      · simp
      · exact hd.2 x (List.mem_cons_of_mem _ hx)
    next hc =>
      have ih' := ih hd.tail
      refine ⟨List.pairwise_cons.mpr ⟨?_, ih'.1⟩, ?_⟩
      · intro x hx
        rcases mem_bucketInsert hx with e | ⟨b', hb', e⟩
        · show JV.cmp k0 x.1 = .lt
          rw [e]; exact H.gt_swap hc
        · show JV.cmp k0 x.1 = .lt
          rw [← e]; exact hlt b' hb'
      · intro x hx
        rcases List.mem_cons.mp hx with rfl | hx
        · exact hd.2 _ (List.mem_cons_self ..)
        · exact ih'.2 x hx

/-- item 2, ascending -/
theorem emitK_insert_asc (H : TotalPreorderCmp JV.cmp) (k : JV) (c : Ctx) (d : Buckets)
    (hd : BucketsOK d) :
    emitK false (bucketInsert k c d)
      = insertAsc JV.cmp (·.1) (landKey k d, c) (emitK false d) := by
  induction d with
  | nil => simp [bucketInsert, landKey, emitK, bucketRows, insertAsc]
  | cons b0 rest ih =>
    obtain ⟨k0, q⟩ := b0
    have hlt := hd.head_lt
    simp only [bucketInsert, landKey]
    split
    next hc =>
      simp only [hc]
      rw [emitK_false_cons, insertAsc_of_all_lt]
      · simp [bucketRows]
      · intro y hy
        obtain ⟨b, hb, e⟩ := mem_emitK hy
        show JV.cmp k y.1 = .lt
        rw [e]
        rcases List.mem_cons.mp hb with rfl | hb
        · exact hc
        · exact H.lt_of_lt_of_le hc (by rw [hlt b hb]; decide)
    next hc =>
      simp only [hc]
      rw [emitK_false_cons, emitK_false_cons, bucketRows_cons, insertAsc_append_of_not_lt,
        insertAsc_of_all_lt]
      · simp
      · intro y hy
        obtain ⟨b, hb, e⟩ := mem_emitK hy
        show JV.cmp k0 y.1 = .lt
        rw [e]; exact hlt b hb
      · intro y hy
        show JV.cmp k0 y.1 ≠ .lt
        rw [mem_bucketRows hy, H.refl]; decide
    next hc =>
      simp only [hc]
      rw [emitK_false_cons, emitK_false_cons, ih hd.tail, insertAsc_append_of_not_lt]
      intro y hy
      show JV.cmp (landKey k rest) y.1 ≠ .lt
      rw [mem_bucketRows hy, ← H.congr_left (landKey_eq H k rest) k0, hc]; decide

/-- item 2, descending -/
theorem emitK_insert_desc (H : TotalPreorderCmp JV.cmp) (k : JV) (c : Ctx) (d : Buckets)
    (hd : BucketsOK d) :
    emitK true (bucketInsert k c d)
      = insertDesc JV.cmp (·.1) (landKey k d, c) (emitK true d) := by
  induction d with
  | nil => simp [bucketInsert, landKey, emitK, bucketRows, insertDesc]
  | cons b0 rest ih =>
    obtain ⟨k0, q⟩ := b0
    have hlt := hd.head_lt
    simp only [bucketInsert, landKey]
    split
    next hc =>
      simp only [hc]
      rw [emitK_true_cons]
      have := insertDesc_append_of_not_gt JV.cmp (·.1) (k, c) (emitK true ((k0, q) :: rest)) [] ?_
      · rw [List.append_nil] at this
        rw [this]; simp [bucketRows, insertDesc]
      · intro y hy
        obtain ⟨b, hb, e⟩ := mem_emitK hy
        show JV.cmp k y.1 ≠ .gt
        rw [e]
        rcases List.mem_cons.mp hb with rfl | hb
        · rw [hc]; decide
        · rw [H.lt_of_lt_of_le hc (by rw [hlt b hb]; decide)]; decide
    next hc =>
      simp only [hc]
      rw [emitK_true_cons, bucketRows_cons]
      have := insertDesc_append_of_not_gt JV.cmp (·.1) (k0, c) (emitK true ((k0, q) :: rest)) [] ?_
      · rw [List.append_nil] at this
        rw [this, emitK_true_cons]; simp [insertDesc]
      · intro y hy
        obtain ⟨b, hb, e⟩ := mem_emitK hy
        show JV.cmp k0 y.1 ≠ .gt
        rw [e]
        rcases List.mem_cons.mp hb with rfl | hb
        · rw [H.refl]; decide
        · rw [hlt b hb]; decide
    next hc =>
      simp only [hc]
      rw [emitK_true_cons, emitK_true_cons, ih hd.tail, insertDesc_append_of_all_gt]
      intro y hy
      show JV.cmp (landKey k rest) y.1 = .gt
      rw [mem_bucketRows hy, ← H.congr_left (landKey_eq H k rest) k0, hc]

/-- item 2: inserting into the bucket map is stable insertion into the keyed emission; the row is
tagged with the key of the bucket it lands in, which compares `.eq` to its own key (`landKey_eq`) -/
theorem emitK_insert (H : TotalPreorderCmp JV.cmp) (desc : Bool) (k : JV) (c : Ctx) (d : Buckets)
    (hd : BucketsOK d) :
    emitK desc (bucketInsert k c d)
      = insertDir JV.cmp (·.1) desc (landKey k d, c) (emitK desc d) := by
  cases desc
  · simpa [insertDir] using emitK_insert_asc H k c d hd
  · simpa [insertDir] using emitK_insert_desc H k c d hd


/-! ### rows tagged with evaluated keys vs rows tagged with bucket keys -/

/-- same rows, and the tags compare `.eq` position by position -/
inductive KeyRel : List (JV × Ctx) → List (JV × Ctx) → Prop
  | nil : KeyRel [] []
  | cons {a b : JV × Ctx} {as bs : List (JV × Ctx)} :
      JV.cmp a.1 b.1 = .eq → a.2 = b.2 → KeyRel as bs → KeyRel (a :: as) (b :: bs)

theorem KeyRel.map_snd {l l' : List (JV × Ctx)} (h : KeyRel l l') :
    l.map (·.2) = l'.map (·.2) := by
  induction h with
  | nil => rfl
  | cons _ h2 _ ih => simp [h2, ih]

theorem KeyRel.take {l l' : List (JV × Ctx)} (h : KeyRel l l') (n : Nat) :
    KeyRel (l.take n) (l'.take n) := by
  induction h generalizing n with
  | nil => simpa using KeyRel.nil
  | cons h1 h2 _ ih =>
    cases n with
    | zero => simpa using KeyRel.nil
    | succ n => simpa using KeyRel.cons h1 h2 (ih n)

theorem KeyRel.insertAsc (H : TotalPreorderCmp JV.cmp) {l l' : List (JV × Ctx)} (h : KeyRel l l')
    {k k' : JV} (hk : JV.cmp k k' = .eq) (c : Ctx) :
    KeyRel (insertAsc JV.cmp (·.1) (k, c) l) (insertAsc JV.cmp (·.1) (k', c) l') := by
  induction h with
  | nil => exact KeyRel.cons hk rfl KeyRel.nil
  | @cons a b as bs h1 h2 h3 ih =>
    have e : JV.cmp k a.1 = JV.cmp k' b.1 := by
      rw [H.congr_left hk a.1, H.congr_right h1 k']
    simp only [SortSpec.insertAsc, e]
    split
    · exact KeyRel.cons hk rfl (KeyRel.cons h1 h2 h3)
    · exact KeyRel.cons h1 h2 ih

theorem KeyRel.insertDesc (H : TotalPreorderCmp JV.cmp) {l l' : List (JV × Ctx)} (h : KeyRel l l')
    {k k' : JV} (hk : JV.cmp k k' = .eq) (c : Ctx) :
    KeyRel (insertDesc JV.cmp (·.1) (k, c) l) (insertDesc JV.cmp (·.1) (k', c) l') := by
  induction h with
  | nil => exact KeyRel.cons hk rfl KeyRel.nil
  | @cons a b as bs h1 h2 h3 ih =>
    have e : JV.cmp k a.1 = JV.cmp k' b.1 := by
      rw [H.congr_left hk a.1, H.congr_right h1 k']
    simp only [SortSpec.insertDesc, e]
    split
    · exact KeyRel.cons hk rfl (KeyRel.cons h1 h2 h3)
    · exact KeyRel.cons h1 h2 ih

theorem KeyRel.insertDir (H : TotalPreorderCmp JV.cmp) {l l' : List (JV × Ctx)} (h : KeyRel l l')
    (desc : Bool) {k k' : JV} (hk : JV.cmp k k' = .eq) (c : Ctx) :
    KeyRel (insertDir JV.cmp (·.1) desc (k, c) l) (insertDir JV.cmp (·.1) desc (k', c) l') := by
  cases desc
  · simpa [SortSpec.insertDir] using h.insertAsc H hk c
  · simpa [SortSpec.insertDir] using h.insertDesc H hk c

/-! ### item 3: the unbounded sorter is the stable sort -/

theorem foldl_bucketInsert (H : TotalPreorderCmp JV.cmp) (desc : Bool) (rows : List (JV × Ctx))
    (d : Buckets) (L : List (JV × Ctx)) (hd : BucketsOK d) (hL : KeyRel L (emitK desc d)) :
    BucketsOK (rows.foldl (fun d r => bucketInsert r.1 r.2 d) d) ∧
    KeyRel (rows.foldl (fun acc x => insertDir JV.cmp (·.1) desc x acc) L)
      (emitK desc (rows.foldl (fun d r => bucketInsert r.1 r.2 d) d)) := by
  induction rows generalizing d L with
  | nil => exact ⟨hd, hL⟩
  | cons r rs ih =>
    simp only [List.foldl_cons]
    apply ih
    · exact bucketInsert_ok H r.1 r.2 d hd
    · rw [emitK_insert H desc r.1 r.2 d hd]
      exact hL.insertDir H desc (landKey_eq H r.1 d) r.2

/-- MAIN (unbounded, C07): feeding the rows to the bucket map and emitting = stable sort by key -/
theorem bucketsEmit_foldl_bucketInsert (H : TotalPreorderCmp JV.cmp) (desc : Bool)
    (rows : List (JV × Ctx)) :
    bucketsEmit desc (rows.foldl (fun d r => bucketInsert r.1 r.2 d) [])
      = (sortDir JV.cmp (·.1) desc rows).map (·.2) := by
  have h := (foldl_bucketInsert H desc rows [] [] bucketsOK_nil (by simpa using KeyRel.nil)).2
  rw [← emitK_map_snd, ← h.map_snd]
  rfl

theorem foldl_bucketInsert_ok (H : TotalPreorderCmp JV.cmp) (rows : List (JV × Ctx)) :
    BucketsOK (rows.foldl (fun d r => bucketInsert r.1 r.2 d) []) :=
  (foldl_bucketInsert H false rows [] [] bucketsOK_nil (by simpa using KeyRel.nil)).1

/-! ### item 4: `remove_last_item` -/

theorem bucketRows_ne_nil {b : JV × List Ctx} (h : b.2 ≠ []) : bucketRows b ≠ [] := by
  simpa [bucketRows] using h

theorem emitK_false_ne_nil {d : Buckets} (hd : BucketsOK d) (hne : d ≠ []) : emitK false d ≠ [] := by
  cases d with
  | nil => exact absurd rfl hne
  | cons b rest =>
    rw [emitK_false_cons]
    intro h
    exact bucketRows_ne_nil (hd.2 b (List.mem_cons_self ..)) (List.append_eq_nil_iff.mp h).1

theorem dropNewestOfLast_cons_cons (b b' : JV × List Ctx) (rest : Buckets) :
    dropNewestOfLast (b :: b' :: rest) = b :: dropNewestOfLast (b' :: rest) := by
  obtain ⟨k, q⟩ := b
  rfl

theorem dropNewestOfLast_single (k : JV) (c : Ctx) (q : List Ctx) :
    dropNewestOfLast [(k, c :: q)] = if q = [] then [] else [(k, q)] := by
  cases q <;> rfl

theorem mem_dropNewestOfLast {d : Buckets} {x : JV × List Ctx} (hd : ∀ b ∈ d, b.2 ≠ [])
    (h : x ∈ dropNewestOfLast d) : x.2 ≠ [] ∧ ∃ y ∈ d, y.1 = x.1 := by
  induction d with
  | nil => simp [dropNewestOfLast] at h
  | cons b rest ih =>
    cases rest with
    | nil =>
      obtain ⟨k, q⟩ := b
      cases q with
      | nil => exact absurd rfl (hd (k, []) (List.mem_cons_self ..))
      | cons c q =>
        rw [dropNewestOfLast_single] at h
        split at h
        · simp at h
        · next hq =>
          simp at h; subst h
          exact ⟨hq, (k, c :: q), List.mem_cons_self .., rfl⟩
    | cons b' rest' =>
      rw [dropNewestOfLast_cons_cons] at h
      rcases List.mem_cons.mp h with rfl | h
      · exact ⟨hd _ (List.mem_cons_self ..), _, List.mem_cons_self .., rfl⟩
      · obtain ⟨h1, y, hy, e⟩ := ih (fun z hz => hd z (List.mem_cons_of_mem _ hz)) h
        exact ⟨h1, y, List.mem_cons_of_mem _ hy, e⟩

theorem dropNewestOfLast_ok {d : Buckets} (hd : BucketsOK d) : BucketsOK (dropNewestOfLast d) := by
  refine ⟨?_, fun x hx => (mem_dropNewestOfLast hd.2 hx).1⟩
  induction d with
  | nil => simp [dropNewestOfLast]
  | cons b rest ih =>
    cases rest with
    | nil =>
      obtain ⟨k, q⟩ := b
      cases q with
      | nil => exact absurd rfl (hd.2 (k, []) (List.mem_cons_self ..))
      | cons c q => rw [dropNewestOfLast_single]; split <;> simp
    | cons b' rest' =>
      rw [dropNewestOfLast_cons_cons, List.pairwise_cons]
      refine ⟨?_, ih hd.tail⟩
      intro x hx
      obtain ⟨_, y, hy, e⟩ := mem_dropNewestOfLast hd.tail.2 hx
      rw [← e]; exact hd.head_lt y hy

theorem emitK_dropNewestOfLast {d : Buckets} (hd : BucketsOK d) :
    emitK false (dropNewestOfLast d) = (emitK false d).dropLast := by
  induction d with
  | nil => simp [dropNewestOfLast]
  | cons b rest ih =>
    cases rest with
    | nil =>
      obtain ⟨k, q⟩ := b
      cases q with
      | nil => exact absurd rfl (hd.2 (k, []) (List.mem_cons_self ..))
      | cons c q =>
        rw [dropNewestOfLast_single, emitK_false_cons, bucketRows_cons]
        split
        next hq => subst hq; simp [bucketRows]
        next hq => simp [emitK_false_cons]
    | cons b' rest' =>
      rw [dropNewestOfLast_cons_cons, emitK_false_cons, emitK_false_cons b, ih hd.tail,
        List.dropLast_append_of_ne_nil (emitK_false_ne_nil hd.tail (by simp))]

theorem dropNewestOfFirst_cons (k : JV) (c : Ctx) (q : List Ctx) (rest : Buckets) :
    dropNewestOfFirst ((k, c :: q) :: rest) = if q = [] then rest else (k, q) :: rest := by
  cases q <;> rfl

theorem dropNewestOfFirst_ok {d : Buckets} (hd : BucketsOK d) : BucketsOK (dropNewestOfFirst d) := by
  cases d with
  | nil => simpa [dropNewestOfFirst] using bucketsOK_nil
  | cons b rest =>
    obtain ⟨k, q⟩ := b
    cases q with
    | nil => exact absurd rfl (hd.2 (k, []) (List.mem_cons_self ..))
    | cons c q =>
      rw [dropNewestOfFirst_cons]
      split
      · exact hd.tail
      · next hq =>
        refine ⟨List.pairwise_cons.mpr ⟨hd.head_lt, hd.tail.1⟩, ?_⟩
        intro x hx
        rcases List.mem_cons.mp hx with rfl | hx
        · exact hq
        · exact hd.2 x (List.mem_cons_of_mem _ hx)

theorem emitK_dropNewestOfFirst {d : Buckets} (hd : BucketsOK d) :
    emitK true (dropNewestOfFirst d) = (emitK true d).dropLast := by
  cases d with
  | nil => simp [dropNewestOfFirst]
  | cons b rest =>
    obtain ⟨k, q⟩ := b
    cases q with
    | nil => exact absurd rfl (hd.2 (k, []) (List.mem_cons_self ..))
    | cons c q =>
      rw [dropNewestOfFirst_cons, emitK_true_cons, bucketRows_cons, ← List.append_assoc,
        List.dropLast_concat]
      split
      next hq => subst hq; simp [bucketRows]
      next hq => rw [emitK_true_cons]

/-- item 4, ascending -/
theorem bucketsEmit_dropNewestOfLast {d : Buckets} (hd : BucketsOK d) :
    bucketsEmit false (dropNewestOfLast d) = (bucketsEmit false d).dropLast := by
  rw [← emitK_map_snd, ← emitK_map_snd, emitK_dropNewestOfLast hd, List.map_dropLast]

/-- item 4, descending -/
theorem bucketsEmit_dropNewestOfFirst {d : Buckets} (hd : BucketsOK d) :
    bucketsEmit true (dropNewestOfFirst d) = (bucketsEmit true d).dropLast := by
  rw [← emitK_map_snd, ← emitK_map_snd, emitK_dropNewestOfFirst hd, List.map_dropLast]

/-! ### item 5: the bounded sorter is `take` of the stable sort -/

/-- the sorter fed with `rows`, starting with `--max-size cap` -/
def run (desc : Bool) (cap : Nat) (rows : List (JV × Ctx)) : Buckets × Option Nat :=
  rows.foldl (fun s r => sortStep desc r.1 r.2 s) ([], some cap)

/-- the sorter fed with `rows`, unbounded -/
def runUnbounded (desc : Bool) (rows : List (JV × Ctx)) : Buckets × Option Nat :=
  rows.foldl (fun s r => sortStep desc r.1 r.2 s) ([], none)

/-- invariant of the bounded run: the map holds the first `cap` rows of the sort so far and the
space counter is what is left of `cap` -/
def Inv (desc : Bool) (cap : Nat) (s : Buckets × Option Nat) (L : List (JV × Ctx)) : Prop :=
  BucketsOK s.1 ∧ (∃ m, s.2 = some m ∧ (emitK desc s.1).length + m = cap) ∧
    KeyRel (L.take cap) (emitK desc s.1)

theorem emitK_drop (desc : Bool) {d : Buckets} (hd : BucketsOK d) :
    emitK desc (if desc then dropNewestOfFirst d else dropNewestOfLast d)
      = (emitK desc d).dropLast := by
  cases desc
  · simpa using emitK_dropNewestOfLast hd
  · simpa using emitK_dropNewestOfFirst hd

theorem drop_ok (desc : Bool) {d : Buckets} (hd : BucketsOK d) :
    BucketsOK (if desc then dropNewestOfFirst d else dropNewestOfLast d) := by
  cases desc
  · simpa using dropNewestOfLast_ok hd
  · simpa using dropNewestOfFirst_ok hd

theorem Inv.step (H : TotalPreorderCmp JV.cmp) {desc : Bool} {cap : Nat} {s : Buckets × Option Nat}
    {L : List (JV × Ctx)} (h : Inv desc cap s L) (k : JV) (c : Ctx) :
    Inv desc cap (sortStep desc k c s) (insertDir JV.cmp (·.1) desc (k, c) L) := by
  obtain ⟨data, space⟩ := s
  obtain ⟨hok, ⟨m, hm, hlen⟩, hrel⟩ := h
  simp only at hok hm hlen hrel
  subst hm
  have hok' := bucketInsert_ok H k c data hok
  have hI := emitK_insert H desc k c data hok
  have hIlen : (emitK desc (bucketInsert k c data)).length = (emitK desc data).length + 1 := by
    rw [hI, insertDir_length]
  have hR : KeyRel ((insertDir JV.cmp (·.1) desc (k, c) L).take cap)
      ((emitK desc (bucketInsert k c data)).take cap) := by
    rw [← insertDir_take, hI]
    exact (hrel.insertDir H desc (landKey_eq H k data) c).take cap
  cases m with
  | zero =>
    simp only [sortStep]
    have hd : emitK desc (if desc then dropNewestOfFirst (bucketInsert k c data)
          else dropNewestOfLast (bucketInsert k c data))
        = (emitK desc (bucketInsert k c data)).take cap := by
      have e : (emitK desc data).length + 1 - 1 = cap := by omega
      rw [emitK_drop desc hok', List.dropLast_eq_take, hIlen, e]
    refine ⟨drop_ok desc hok', ⟨0, rfl, ?_⟩, ?_⟩
    · show (emitK desc (if desc then _ else _)).length + 0 = cap
      rw [hd, List.length_take, hIlen]; omega
    · show KeyRel _ (emitK desc (if desc then _ else _))
      rw [hd]; exact hR
  | succ n =>
    simp only [sortStep]
    refine ⟨hok', ⟨n, rfl, ?_⟩, ?_⟩
    · show (emitK desc (bucketInsert k c data)).length + n = cap
      omega
    · show KeyRel _ (emitK desc (bucketInsert k c data))
      rw [List.take_of_length_le (l := emitK desc (bucketInsert k c data)) (by omega)] at hR
      exact hR

theorem Inv.foldl (H : TotalPreorderCmp JV.cmp) {desc : Bool} {cap : Nat} (rows : List (JV × Ctx))
    {s : Buckets × Option Nat} {L : List (JV × Ctx)} (h : Inv desc cap s L) :
    Inv desc cap (rows.foldl (fun s r => sortStep desc r.1 r.2 s) s)
      (rows.foldl (fun acc x => insertDir JV.cmp (·.1) desc x acc) L) := by
  induction rows generalizing s L with
  | nil => exact h
  | cons r rs ih =>
    simp only [List.foldl_cons]
    exact ih (h.step H r.1 r.2)

theorem run_inv (H : TotalPreorderCmp JV.cmp) (desc : Bool) (cap : Nat) (rows : List (JV × Ctx)) :
    Inv desc cap (run desc cap rows) (sortDir JV.cmp (·.1) desc rows) := by
  unfold run sortDir
  apply Inv.foldl H
  exact ⟨bucketsOK_nil, ⟨cap, rfl, by simp⟩, by simpa using KeyRel.nil⟩

/-- MAIN (bounded, C08): the top-N shortcut is invisible -/
theorem bucketsEmit_run (H : TotalPreorderCmp JV.cmp) (desc : Bool) (cap : Nat)
    (rows : List (JV × Ctx)) :
    bucketsEmit desc (run desc cap rows).1
      = ((sortDir JV.cmp (·.1) desc rows).map (·.2)).take cap := by
  have h := (run_inv H desc cap rows).2.2
  rw [← emitK_map_snd, ← h.map_snd, List.map_take]

theorem run_ok (H : TotalPreorderCmp JV.cmp) (desc : Bool) (cap : Nat) (rows : List (JV × Ctx)) :
    BucketsOK (run desc cap rows).1 := (run_inv H desc cap rows).1

/-- with no bound the stage state is just the folded `bucketInsert` -/
theorem runUnbounded_eq (desc : Bool) (rows : List (JV × Ctx)) :
    runUnbounded desc rows = (rows.foldl (fun d r => bucketInsert r.1 r.2 d) [], none) := by
  unfold runUnbounded
  generalize ([] : Buckets) = d
  induction rows generalizing d with
  | nil => rfl
  | cons r rs ih =>
    rw [List.foldl_cons, List.foldl_cons]
    exact ih _

/-- MAIN (unbounded, as a run of `sortStep`) -/
theorem bucketsEmit_runUnbounded (H : TotalPreorderCmp JV.cmp) (desc : Bool)
    (rows : List (JV × Ctx)) :
    bucketsEmit desc (runUnbounded desc rows).1 = (sortDir JV.cmp (·.1) desc rows).map (·.2) := by
  rw [runUnbounded_eq]; exact bucketsEmit_foldl_bucketInsert H desc rows

/-! ### non-vacuity -/

example : BucketsOK [(JV.null, [default]), (JV.bool true, [default, default])] := by
  refine ⟨?_, ?_⟩
  · simp only [List.pairwise_cons, List.mem_singleton, forall_eq, List.not_mem_nil,
      false_imp_iff, implies_true, List.Pairwise.nil, and_true]
    decide
  · simp

end BucketSort
end Jawk

/- axiom audit (all ⊆ {propext, Classical.choice, Quot.sound}):
#print axioms Jawk.BucketSort.bucketInsert_ok
#print axioms Jawk.BucketSort.emitK_insert
#print axioms Jawk.BucketSort.bucketsEmit_foldl_bucketInsert
#print axioms Jawk.BucketSort.bucketsEmit_dropNewestOfLast
#print axioms Jawk.BucketSort.bucketsEmit_dropNewestOfFirst
#print axioms Jawk.BucketSort.dropNewestOfLast_ok
#print axioms Jawk.BucketSort.dropNewestOfFirst_ok
#print axioms Jawk.BucketSort.bucketsEmit_run
#print axioms Jawk.BucketSort.bucketsEmit_runUnbounded
#print axioms Jawk.SortSpec.sortDir_perm
#print axioms Jawk.SortSpec.sortDir_sorted
#print axioms Jawk.SortSpec.sortDir_stable
#print axioms Jawk.SortSpec.sortDir_length
#print axioms Jawk.SortSpec.insertDir_take
-/
