/-
  Property C15: a csv/text row has one field per selection, and a csv row is machine-readable:
  the RFC 4180 reader of `Jawk/Spec/Csv.lean` reads back exactly the denotation of the values.
-/
import Jawk.Model.Run
import Jawk.Model.Stages
import Jawk.Model.Print
import Jawk.Spec.Csv
namespace Jawk.CsvRT
open Jawk Jawk.Csv

/-! ### The row text (characters) and its relation to `textRow` (byte chunks) -/

/-- the text of a row: the fields joined by the item separator, then the row separator -/
def rowText (o : TextOpts) (rowSep : Str) (vals : List (Option JV)) : Str :=
  List.intercalate o.itemsSep (vals.map (textField o)) ++ rowSep

theorem utf8_append (a b : Str) : utf8 (a ++ b) = utf8 a ++ utf8 b := by
  simp [utf8, List.flatMap_append]

theorem utf8_nil : utf8 [] = [] := rfl

theorem intercalate_cons_cons {α} (sep x y : List α) (ys : List (List α)) :
    List.intercalate sep (x :: y :: ys) = x ++ sep ++ List.intercalate sep (y :: ys) := by
  simp [List.intercalate, List.intersperse]

theorem intercalate_single {α} (sep x : List α) : List.intercalate sep [x] = x := by
  simp [List.intercalate, List.intersperse]

theorem intercalate_nil {α} (sep : List α) : List.intercalate sep ([] : List (List α)) = [] := by
  simp [List.intercalate, List.intersperse]

/-- the chunks of the fields (without the row separator), numbering the fields from `k` -/
theorem fieldChunks_flatten (o : TextOpts) (vals : List (Option JV)) (k n : Nat)
    (hn : n = k + vals.length) :
    ((vals.zipIdx k).flatMap (fun (v, i) =>
      [rowBytes (textField o v)] ++
        (if i + 1 < n then [rowBytes o.itemsSep] else []))).flatten
      = utf8 (List.intercalate o.itemsSep (vals.map (textField o))) := by
  induction vals generalizing k with
  | nil => simp [utf8_nil]
  | cons v vs ih =>
    cases vs with
    | nil =>
      have : ¬ (k + 1 < n) := by simp at hn; omega
      simp [rowBytes, this]
    | cons w ws =>
      have h := ih (k + 1) (by simp at hn ⊢; omega)
      have hlt : k + 1 < n := by simp at hn; omega
      rw [List.zipIdx_cons, List.flatMap_cons, List.flatten_append, h]
      simp only [List.map_cons, intercalate_cons_cons, utf8_append]
      simp [hlt, rowBytes]

/-- item 7: with `length` = the number of values, the bytes `textRow` emits are the UTF-8 of
the fields intercalated with the item separator, followed by the row separator -/
theorem row_is_intercalate (o : TextOpts) (rowSep : Str) (vals : List (Option JV)) :
    (textRow o rowSep vals.length vals).flatten
      = utf8 (List.intercalate o.itemsSep (vals.map (textField o)) ++ rowSep) := by
  have h := fieldChunks_flatten o vals 0 vals.length (by omega)
  unfold textRow
  rw [List.flatten_append, h, utf8_append]
  simp [rowBytes]

theorem textRow_flatten (o : TextOpts) (rowSep : Str) (vals : List (Option JV)) :
    (textRow o rowSep vals.length vals).flatten = utf8 (rowText o rowSep vals) :=
  row_is_intercalate o rowSep vals

/-! ### The regenerated csv preset -/

/-- no quote, comma, CR or LF -/
def PlainChars (t : Str) : Prop := ∀ c ∈ t, c ≠ ',' ∧ c ≠ '"' ∧ c ≠ '\n' ∧ c ≠ '\r'

/-- a non-empty text without quote, comma, CR, LF: reads back as itself as an unquoted field -/
def Plain (t : Str) : Prop := t ≠ [] ∧ PlainChars t

instance (t : Str) : Decidable (PlainChars t) := by unfold PlainChars; infer_instance
instance (t : Str) : Decidable (Plain t) := by unfold Plain; infer_instance

theorem csvOpts_eq : csvOpts =
    { itemsSep := [',', ' '], strPrefix := ['"'], strPostfix := ['"'], headers := true,
      escapes := [['"', '"', '"']], nullKw := "null".toList, trueKw := "True".toList,
      falseKw := "False".toList, missingKw := none } := by decide

theorem escapeLookup_csv (c : Char) :
    escapeLookup csvOpts.escapes c = if c = '"' then some ['"', '"'] else none := by
  rw [csvOpts_eq]
  simp only [escapeLookup, List.foldl_cons, List.foldl_nil]
  by_cases h : c = '"'
  · simp [h]
  · have : ¬ ('"' = c) := fun h' => h h'.symm
    simp [h, this]

/-- item 2: the regenerated preset has exactly the shape the round trip needs -/
theorem csvPreset_ok :
    csvOpts.itemsSep = ", ".toList ∧
    csvOpts.strPrefix = ['"'] ∧ csvOpts.strPostfix = ['"'] ∧
    csvOpts.headers = true ∧
    escapeLookup csvOpts.escapes '"' = some ['"', '"'] ∧
    (∀ c, c ≠ '"' → escapeLookup csvOpts.escapes c = none) ∧
    csvOpts.nullKw = "null".toList ∧ csvOpts.trueKw = "True".toList ∧
    csvOpts.falseKw = "False".toList ∧
    Plain csvOpts.nullKw ∧ Plain csvOpts.trueKw ∧ Plain csvOpts.falseKw ∧
    csvOpts.missingKw = none := by
  refine ⟨by decide, by decide, by decide, by decide, ?_, ?_, by decide, by decide, by decide,
    by decide, by decide, by decide, by decide⟩
  · rw [escapeLookup_csv]; simp
  · intro c hc; rw [escapeLookup_csv]; simp [hc]

/-! ### Quoted fields -/

/-- every quote doubled -/
def dbl (s : Str) : Str := s.flatMap (fun c => if c = '"' then ['"', '"'] else [c])

theorem dbl_nil : dbl [] = [] := rfl

theorem dbl_cons (c : Char) (s : Str) :
    dbl (c :: s) = (if c = '"' then ['"', '"'] else [c]) ++ dbl s := by
  simp [dbl]

/-- item 3a: a string is printed between quotes with every quote doubled, nothing else changed -/
theorem textString_csv (s : Str) : textString csvOpts s = '"' :: dbl s ++ ['"'] := by
  unfold textString
  rw [csvPreset_ok.2.1, csvPreset_ok.2.2.1]
  show '"' :: (List.flatMap _ s ++ ['"']) = '"' :: (dbl s ++ ['"'])
  congr 2
  induction s with
  | nil => rfl
  | cons c s ih =>
    rw [List.flatMap_cons, ih, dbl_cons, escapeLookup_csv]
    by_cases h : c = '"' <;> simp [h]

theorem quotedTail_cons_ne (c : Char) (t : List Char) (hc : c ≠ '"') :
    quotedTail (c :: t) = consContent c (quotedTail t) := by
  cases t with
  | nil => simp [quotedTail, hc, consContent]
  | cons d cs => simp [quotedTail, hc]

theorem quotedTail_qq (t : List Char) :
    quotedTail ('"' :: '"' :: t) = consContent '"' (quotedTail t) := by
  simp [quotedTail]

theorem quotedTail_close (t : List Char) (ht : t.head? ≠ some '"') :
    quotedTail ('"' :: t) = some ([], t) := by
  cases t with
  | nil => simp [quotedTail]
  | cons d cs =>
    have : d ≠ '"' := by simpa using ht
    simp [quotedTail, this]

/-- item 3b: the quoted-field scanner undoes the doubling, for EVERY content (commas, CR, LF and
quotes included), and stops right after the closing quote -/
theorem quotedTail_dbl (s : Str) (rest : List Char) (hr : rest.head? ≠ some '"') :
    quotedTail (dbl s ++ '"' :: rest) = some (s, rest) := by
  induction s with
  | nil => simpa [dbl_nil] using quotedTail_close rest hr
  | cons c s ih =>
    rw [dbl_cons]
    by_cases hc : c = '"'
    · subst hc
      simp only [if_true, List.cons_append, List.nil_append]
      rw [quotedTail_qq, ih]; rfl
    · simp only [hc, if_false, List.cons_append, List.nil_append]
      rw [quotedTail_cons_ne _ _ hc, ih]; rfl

theorem readField_quoted (s : Str) (rest : List Char) (hr : rest.head? ≠ some '"') :
    readField (textString csvOpts s ++ rest) = some ((true, s), rest) := by
  rw [textString_csv]
  simp only [readField, List.cons_append, List.head?_cons, if_true, List.tail_cons,
    List.append_assoc, List.nil_append]
  rw [quotedTail_dbl s rest hr]

/-! ### Unquoted fields -/

theorem unquotedTail_plain (t : Str) (c : Char) (r : List Char) (ht : PlainChars t)
    (hc : c = ',' ∨ c = '\n') :
    unquotedTail (t ++ c :: r) = some (t, c :: r) := by
  induction t with
  | nil => simp [unquotedTail, hc]
  | cons a t ih =>
    have ha := ht a (by simp)
    have ht' : PlainChars t := fun x hx => ht x (by simp [hx])
    simp only [List.cons_append, unquotedTail, ha.1, ha.2.1, ha.2.2.1, ha.2.2.2, or_self,
      if_false]
    rw [ih ht']; rfl

theorem readField_plain (t : Str) (c : Char) (r : List Char) (ht : PlainChars t)
    (hc : c = ',' ∨ c = '\n') :
    readField (t ++ c :: r) = some ((false, t), c :: r) := by
  have hh : (t ++ c :: r).head? ≠ some '"' := by
    cases t with
    | nil => rcases hc with rfl | rfl <;> simp
    | cons a t => simpa using (ht a (by simp)).2.1
  simp only [readField, hh, if_false]
  rw [unquotedTail_plain t c r ht hc]

/-- decimal digits are plain -/
theorem plain_toDigits (n : Nat) : Plain (Nat.toDigits 10 n) := by
  refine ⟨Nat.toDigits_ne_nil, ?_⟩
  intro c hc
  have hd : c.isDigit = true := Nat.isDigit_of_mem_toDigits (by decide) (by decide) hc
  refine ⟨?_, ?_, ?_, ?_⟩ <;> (intro h; subst h; exact absurd hd (by decide))

/-- item 4: non-negative integers print plain -/
theorem plain_printNum_pos (n : Nat) : Plain (printNum (.pos n)) := plain_toDigits n

/-- item 4: negative integers print plain -/
theorem plain_printNum_neg (i : Int) : Plain (printNum (.neg i)) := by
  show Plain (if i < 0 then '-' :: Nat.toDigits 10 i.natAbs else Nat.toDigits 10 i.natAbs)
  split
  · refine ⟨by simp, ?_⟩
    intro c hc
    rcases List.mem_cons.1 hc with rfl | hc
    · decide
    · exact (plain_toDigits _).2 c hc
  · exact plain_toDigits _

theorem plain_append_left {a b : Str} (ha : Plain a) (hb : PlainChars b) : Plain (a ++ b) := by
  refine ⟨by simp [ha.1], ?_⟩
  intro c hc
  rcases List.mem_append.1 hc with h | h
  · exact ha.2 c h
  · exact hb c h

theorem plainChars_append {a b : Str} (ha : PlainChars a) (hb : PlainChars b) :
    PlainChars (a ++ b) := by
  intro c hc
  rcases List.mem_append.1 hc with h | h
  · exact ha c h
  · exact hb c h

theorem plainChars_replicate_zero (n : Nat) : PlainChars (List.replicate n '0') := by
  intro c hc
  rw [(List.mem_replicate.1 hc).2]
  decide

theorem plain_cons {c : Char} {t : Str} (hc : PlainChars [c]) (ht : PlainChars t) :
    Plain (c :: t) :=
  plain_append_left (a := [c]) ⟨by simp, hc⟩ ht

/-- the positional rendering of a float: sign, digits, zeros and a point only -/
theorem plain_render (neg : Bool) (digits : Nat) (p : Int) : Plain (F64.render neg digits p) := by
  unfold F64.render
  generalize F64.stripZeros 400 digits p = dp
  obtain ⟨d, q⟩ := dp
  have hds : Plain (Nat.toDigits 10 d) := plain_toDigits d
  have hbody : Plain (if d = 0 then ['0']
    else if 0 ≤ q then Nat.toDigits 10 d ++ List.replicate q.toNat '0'
    else
      if (Nat.toDigits 10 d).length > (-q).toNat then
        (Nat.toDigits 10 d).take ((Nat.toDigits 10 d).length - (-q).toNat) ++ ['.'] ++
          (Nat.toDigits 10 d).drop ((Nat.toDigits 10 d).length - (-q).toNat)
      else ['0', '.'] ++ List.replicate ((-q).toNat - (Nat.toDigits 10 d).length) '0' ++
        Nat.toDigits 10 d) := by
    split
    · decide
    · split
      · exact plain_append_left hds (plainChars_replicate_zero _)
      · split
        · refine ⟨by simp, ?_⟩
          refine plainChars_append (plainChars_append ?_ (by decide)) ?_
          · exact fun c hc => hds.2 c (List.mem_of_mem_take hc)
          · exact fun c hc => hds.2 c (List.mem_of_mem_drop hc)
        · exact plain_append_left
            (plain_append_left (by decide) (plainChars_replicate_zero _)) hds.2
  show Plain (if neg = true then '-' :: _ else _)
  split
  · exact plain_cons (by decide) hbody.2
  · exact hbody

/-- item 4, beyond what was asked: EVERY float prints plain (`NaN`, `inf`, `-inf`, the
positional rendering, and the `<?>` fallback of the model), so the float hypothesis of the
round trip is always satisfied -/
theorem plain_toDisplay (f : F64) : Plain f.toDisplay := by
  unfold F64.toDisplay F64.toDisplay?
  split
  · decide
  · split <;> decide
  · split
    · exact plain_render _ _ _
    · decide

/-- every number prints plain -/
theorem plain_printNum_all (n : Num) : Plain (printNum n) := by
  cases n with
  | pos n => exact plain_printNum_pos n
  | neg i => exact plain_printNum_neg i
  | flt f => exact plain_toDisplay f

/-- item 4: a number prints plain as soon as it is not a float, or its float text is plain -/
theorem plain_printNum (n : Num) (hf : ∀ f, n = .flt f → Plain f.toDisplay) :
    Plain (printNum n) := by
  cases n with
  | pos n => exact plain_printNum_pos n
  | neg i => exact plain_printNum_neg i
  | flt f => exact hf f rfl

/-! ### Rows -/

/-- the text of compound values inside a csv field -/
abbrev compoundOpts : JsonOpts := { style := .consise, utf8Strings := true }

/-- what a csv field denotes -/
def csvField : Option JV → Field
  | none => (false, [])
  | some .null => (false, "null".toList)
  | some (.bool true) => (false, "True".toList)
  | some (.bool false) => (false, "False".toList)
  | some (.num n) => (false, printNum n)
  | some (.str s) => (true, s)
  | some (.arr vs) => (true, printJson compoundOpts (.arr vs))
  | some (.obj kvs) => (true, printJson compoundOpts (.obj kvs))

/-- every float among the selected values prints plain (integers always do) -/
def FloatsPlain (vals : List (Option JV)) : Prop :=
  ∀ f, some (JV.num (.flt f)) ∈ vals → Plain f.toDisplay

theorem FloatsPlain.tail {v : Option JV} {vs : List (Option JV)} (h : FloatsPlain (v :: vs)) :
    FloatsPlain vs := fun f hf => h f (List.mem_cons_of_mem _ hf)

theorem textField_csv_none : textField csvOpts none = [] := by
  simp [textField, csvPreset_ok.2.2.2.2.2.2.2.2.2.2.2.2]

/-- one field, followed by a comma or a line feed, reads back as its denotation -/
theorem readField_textField (v : Option JV) (c : Char) (r : List Char)
    (hv : ∀ f, v = some (JV.num (.flt f)) → Plain f.toDisplay) (hc : c = ',' ∨ c = '\n') :
    readField (textField csvOpts v ++ c :: r) = some (csvField v, c :: r) := by
  have hq : (c :: r).head? ≠ some '"' := by rcases hc with rfl | rfl <;> simp
  cases v with
  | none =>
    rw [textField_csv_none]
    exact readField_plain [] c r (fun _ h => by simp at h) hc
  | some j =>
    cases j with
    | null => exact readField_plain _ c r csvPreset_ok.2.2.2.2.2.2.2.2.2.1.2 hc
    | bool b =>
      cases b
      · exact readField_plain _ c r csvPreset_ok.2.2.2.2.2.2.2.2.2.2.2.1.2 hc
      · exact readField_plain _ c r csvPreset_ok.2.2.2.2.2.2.2.2.2.2.1.2 hc
    | num n =>
      exact readField_plain _ c r
        (plain_printNum n (fun f hf => hv f (by rw [hf]))).2 hc
    | str s => exact readField_quoted s _ hq
    | arr vs => exact readField_quoted _ _ hq
    | obj kvs => exact readField_quoted _ _ hq

theorem terminator_comma_blank (r : List Char) : terminator (',' :: ' ' :: r) = some (true, r) := by
  simp [terminator]

theorem terminator_lf (r : List Char) : terminator ('\n' :: r) = some (false, r) := by
  simp [terminator]

/-- the fields of a row, read with enough fuel -/
theorem readFields_row (vals : List (Option JV)) (hne : vals ≠ []) (hp : FloatsPlain vals)
    (fuel : Nat) (hfuel : vals.length ≤ fuel) (rest : List Char) :
    readFields fuel
      (List.intercalate [',', ' '] (vals.map (textField csvOpts)) ++ '\n' :: rest)
      = some (vals.map csvField, rest) := by
  induction vals generalizing fuel with
  | nil => exact absurd rfl hne
  | cons v vs ih =>
    have hv : ∀ f, v = some (JV.num (.flt f)) → Plain f.toDisplay :=
      fun f hf => hp f (by simp [hf])
    cases fuel with
    | zero => simp at hfuel
    | succ fuel =>
      cases vs with
      | nil =>
        simp only [List.map_cons, List.map_nil, intercalate_single]
        simp only [readFields, readField_textField v '\n' rest hv (Or.inr rfl), terminator_lf]
      | cons w ws =>
        have h := ih (by simp) hp.tail fuel (by simp at hfuel ⊢; omega)
        simp only [List.map_cons, intercalate_cons_cons, List.append_assoc, List.cons_append,
          List.nil_append]
        simp only [List.map_cons] at h
        simp only [readFields, readField_textField v ',' _ hv (Or.inl rfl),
          terminator_comma_blank, h]

theorem length_le_intercalate {α} (sep : List α) (xs : List (List α)) (hsep : sep ≠ []) :
    xs.length ≤ (List.intercalate sep xs).length + 1 := by
  induction xs with
  | nil => simp
  | cons x xs ih =>
    cases xs with
    | nil => simp
    | cons y ys =>
      have : 0 < sep.length := List.length_pos_iff.2 hsep
      rw [intercalate_cons_cons]
      simp only [List.length_cons, List.length_append] at ih ⊢
      omega

theorem rowText_csv (sep : Str) (vals : List (Option JV)) :
    rowText csvOpts sep vals
      = List.intercalate [',', ' '] (vals.map (textField csvOpts)) ++ sep := by
  rw [rowText, csvPreset_ok.1]; rfl

/-- MAIN (item 5): the csv reader reads a printed row back as the denotations of the selected
values, in order, and stops exactly after the row; this holds for EVERY non-empty list of
values (strings with commas, quotes, line breaks; arrays and objects; absent values), the only
assumption being that floats print without comma/quote/CR/LF.

About `[none]` (a single absent value): the row is the empty line, which the reader of
`Spec/Csv.lean` (as the RFC 4180 grammar) reads as ONE empty unquoted field, so the statement
holds there too; a reader that maps an empty line to zero fields (python) would differ. -/
theorem csv_row_roundtrip_of_plain (vals : List (Option JV)) (hne : vals ≠ [])
    (hp : FloatsPlain vals)
    (rest : List Char) :
    Csv.readRecord (rowText csvOpts ['\n'] vals ++ rest) = some (vals.map csvField, rest) := by
  rw [rowText_csv]
  have hlen := length_le_intercalate [',', ' '] (vals.map (textField csvOpts)) (by simp)
  simp only [List.length_map] at hlen
  have hne' : List.intercalate [',', ' '] (vals.map (textField csvOpts)) ++ ['\n'] ++ rest ≠ [] := by
    simp
  rw [readRecord, if_neg hne']
  rw [List.append_assoc]
  exact readFields_row vals hne hp _ (by simp; omega) rest

/-- the float hypothesis always holds -/
theorem floatsPlain_all (vals : List (Option JV)) : FloatsPlain vals :=
  fun f _ => plain_toDisplay f

/-- MAIN (item 5), without any hypothesis on the numbers -/
theorem csv_row_roundtrip (vals : List (Option JV)) (hne : vals ≠ []) (rest : List Char) :
    Csv.readRecord (rowText csvOpts ['\n'] vals ++ rest) = some (vals.map csvField, rest) :=
  csv_row_roundtrip_of_plain vals hne (floatsPlain_all vals) rest

/-- one field per selection: the number of fields read back is the number of values -/
theorem field_count (vals : List (Option JV)) (hne : vals ≠ []) (rest : List Char) :
    ∃ fields, Csv.readRecord (rowText csvOpts ['\n'] vals ++ rest) = some (fields, rest) ∧
      fields.length = vals.length :=
  ⟨vals.map csvField, csv_row_roundtrip vals hne rest, by simp⟩

/-- the whole csv output (header row and data rows are all rows of this shape): a sequence of
printed rows reads back, record by record, as the denotations of the rows -/
theorem csv_rows_roundtrip (rows : List (List (Option JV))) (hne : ∀ r ∈ rows, r ≠ []) :
    Csv.readAll (rows.flatMap (rowText csvOpts ['\n'])) = some (rows.map (·.map csvField)) := by
  have key : ∀ fuel, rows.length < fuel →
      Csv.readAllAux fuel (rows.flatMap (rowText csvOpts ['\n']))
        = some (rows.map (·.map csvField)) := by
    intro fuel hfuel
    induction rows generalizing fuel with
    | nil =>
      cases fuel with
      | zero => simp at hfuel
      | succ fuel => simp [readAllAux]
    | cons r rs ih =>
      cases fuel with
      | zero => simp at hfuel
      | succ fuel =>
        have hr : r ≠ [] := hne r (by simp)
        have hne0 : rowText csvOpts ['\n'] r ++ rs.flatMap (rowText csvOpts ['\n']) ≠ [] := by
          simp [rowText]
        rw [List.flatMap_cons, readAllAux, if_neg hne0, csv_row_roundtrip r hr]
        simp only
        rw [ih (fun x hx => hne x (by simp [hx])) fuel (by simp at hfuel; omega)]
        rfl
  have hlen : rows.length ≤ (rows.flatMap (rowText csvOpts ['\n'])).length := by
    clear key hne
    induction rows with
    | nil => simp
    | cons r rs ih =>
      simp only [List.flatMap_cons, List.length_cons, List.length_append, rowText]
      omega
  exact key _ (by omega)

/-! ### The sink: header row and data rows -/

theorem put_unbounded (w : Writer) (hr : w.room = none) (hf : w.failed = false) (bs : List Byte) :
    w.put bs = { w with out := w.out ++ bs } := by
  simp [Writer.put, hr, hf]

theorem putAll_unbounded (w : Writer) (hr : w.room = none) (hf : w.failed = false)
    (chunks : List (List Byte)) :
    putAll w chunks = { w with out := w.out ++ chunks.flatten } := by
  induction chunks generalizing w with
  | nil => simp [putAll]
  | cons c cs ih =>
    have h := ih (w.put c) (by rw [put_unbounded w hr hf]; exact hr)
      (by rw [put_unbounded w hr hf]; exact hf)
    simp only [putAll, List.foldl_cons] at h ⊢
    rw [h, put_unbounded w hr hf]
    simp [List.append_assoc]

/-- item 6: with titles, `start` writes exactly one row: the titles, in order, as strings -/
theorem header_row (sep : Str) (titles : List Str) (w : Writer) (ht : titles ≠ []) :
    sinkStart (.text csvOpts sep) titles w
      = wres (putAll w (textRow csvOpts sep titles.length (titles.map (some ∘ JV.str)))) := by
  have hl : titles.length > 0 := List.length_pos_iff.2 ht
  simp only [sinkStart, csvPreset_ok.2.2.2.1, if_true, hl]
  rfl

/-- item 6, on a writer that accepts everything: the bytes appended are the UTF-8 of the row
text of the titles -/
theorem header_row_unbounded (sep : Str) (titles : List Str) (w : Writer) (ht : titles ≠ [])
    (hr : w.room = none) (hf : w.failed = false) :
    sinkStart (.text csvOpts sep) titles w
      = .ok { w with out := w.out ++ utf8 (rowText csvOpts sep (titles.map (some ∘ JV.str))) } := by
  rw [header_row sep titles w ht, putAll_unbounded w hr hf]
  have h := textRow_flatten csvOpts sep (titles.map (some ∘ JV.str))
  rw [List.length_map] at h
  rw [h]
  simp [wres, hf]

/-- item 6: csv without titles is an error at `start`, nothing is written -/
theorem header_row_no_titles (sep : Str) (w : Writer) :
    sinkStart (.text csvOpts sep) [] w = .error ⟨.invalidInput, w⟩ := by
  simp [sinkStart, csvPreset_ok.2.2.2.1]

/-- the header row reads back as the selection names, in order, each a quoted field -/
theorem header_reads_back (titles : List Str) (ht : titles ≠ []) (rest : List Char) :
    Csv.readRecord (rowText csvOpts ['\n'] (titles.map (some ∘ JV.str)) ++ rest)
      = some (titles.map (fun t => (true, t)), rest) := by
  have h := csv_row_roundtrip (titles.map (some ∘ JV.str)) (by simpa using ht) rest
  rw [h, List.map_map]
  rfl

/-- a data row of the text sink (any `TextOpts`) on a writer that accepts everything, when the
sink's `length` is the number of selected values: the bytes appended are the UTF-8 of the row text -/
theorem data_row_unbounded (o : TextOpts) (sep : Str) (w : Writer) (ctx : Ctx)
    (hne : ctx.toList ≠ []) (hr : w.room = none) (hf : w.failed = false) :
    sinkProcess (.text o sep) ctx.toList.length w ctx
      = .ok { w with out := w.out ++ utf8 (rowText o sep ctx.toList) } := by
  have hl : ctx.toList.length ≠ 0 := by
    intro h; exact hne (List.length_eq_zero_iff.1 h)
  simp only [sinkProcess, hl, ne_eq, not_false_eq_true, if_true]
  rw [putAll_unbounded w hr hf, textRow_flatten]
  simp [wres, hf]

/-! ### Non-vacuity -/

/-- the sample row of the task, as printed: `"x""y,z⏎w", "[1]", null, , True, 1.5⏎` -/
def sampleRow : List (Option JV) :=
  [some (.str "x\"y,z\nw".toList), some (.arr [.num (.pos 1)]), some .null, none,
    some (.bool true), some (.num (.flt (.fin false 6755399441055744 (-52))))]

example : rowText csvOpts ['\n'] sampleRow
    = "\"x\"\"y,z\nw\", \"[1]\", null, , True, 1.5\n".toList := by decide

/-- a row with a string containing quote, comma and line feed, an array, null, an absent value,
a boolean and a float: printed and read back by evaluation (no theorem used) -/
example :
    Csv.readRecord (rowText csvOpts ['\n'] sampleRow ++ "next".toList)
    = some ([(true, "x\"y,z\nw".toList), (true, "[1]".toList), (false, "null".toList),
        (false, []), (false, "True".toList), (false, "1.5".toList)], "next".toList) := by
  decide

/-- the hypotheses of `csv_row_roundtrip_of_plain` hold for the sample row (float `1.5`) -/
example : sampleRow ≠ [] ∧ FloatsPlain sampleRow := by
  refine ⟨by decide, ?_⟩
  intro f hf
  have : f = .fin false 6755399441055744 (-52) := by
    simp [sampleRow] at hf; exact hf
  subst this
  decide

example : Csv.readRecord (rowText csvOpts ['\n'] sampleRow ++ "next".toList)
    = some (sampleRow.map csvField, "next".toList) :=
  csv_row_roundtrip sampleRow (by decide) _

/-- `[none]`: the empty line reads back as one empty unquoted field -/
example : Csv.readRecord (rowText csvOpts ['\n'] [none] ++ "x\n".toList)
    = some ([(false, [])], "x\n".toList) := by decide

/-- two rows (a header and a data row), read by evaluation -/
example :
    Csv.readAll ([["a,b".toList, "c".toList].map (some ∘ JV.str),
        [some (.num (.neg (-7))), none]].flatMap (rowText csvOpts ['\n']))
    = some [[(true, "a,b".toList), (true, "c".toList)], [(false, "-7".toList), (false, [])]] := by
  decide

/-- `quotedTail_dbl`, `unquotedTail_plain` on concrete inputs -/
example : quotedTail (dbl "a\"\n,".toList ++ '"' :: ", 1\n".toList)
    = some ("a\"\n,".toList, ", 1\n".toList) := by decide
example : unquotedTail ("-12".toList ++ ',' :: " x".toList) = some ("-12".toList, ", x".toList) := by
  decide

/-- `header_row_unbounded` / `data_row_unbounded` on concrete instances -/
example : sinkStart (.text csvOpts ['\n']) ["a,b".toList, "c".toList] {}
    = .ok { out := utf8 "\"a,b\", \"c\"\n".toList } :=
  header_row_unbounded ['\n'] ["a,b".toList, "c".toList] {} (by decide) rfl rfl

example : sinkProcess (.text {} ['\n']) 2 {}
      { results := [("a".toList, some (.num (.pos 1))), ("b".toList, some (.str "x".toList))] }
    = .ok { out := utf8 "1\tx\n".toList } :=
  data_row_unbounded {} ['\n'] {}
    { results := [("a".toList, some (.num (.pos 1))), ("b".toList, some (.str "x".toList))] }
    (by decide) rfl rfl

/- `#print axioms` of every theorem above (checked while developing): all within
   [propext, Classical.choice, Quot.sound]; `quotedTail_dbl` uses only [propext].
#print axioms csvPreset_ok
#print axioms textString_csv
#print axioms quotedTail_dbl
#print axioms plain_printNum_pos
#print axioms plain_printNum_neg
#print axioms plain_toDisplay
#print axioms csv_row_roundtrip_of_plain
#print axioms csv_row_roundtrip
#print axioms field_count
#print axioms csv_rows_roundtrip
#print axioms header_row
#print axioms header_row_unbounded
#print axioms header_row_no_titles
#print axioms header_reads_back
#print axioms data_row_unbounded
#print axioms row_is_intercalate
#print axioms textRow_flatten
-/

end Jawk.CsvRT
