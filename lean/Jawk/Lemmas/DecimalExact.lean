/-
  Property C19: number-as-string arithmetic is exact, 64-bit integers print/parse exactly.

  `value d : ℚ` is the rational denoted by `d : Dec` (`mant × 10^(-scale)`).
  * `value_add/sub/mul/abs/zero/one`  -- the operations compute the exact rational result
  * `cmp_lt/cmp_eq/cmp_gt/cmp_exact`  -- comparison is comparison of the values
  * `value_normalize`, `normalize_canon`, `normalize_eq_iff`, `render_eq_of_value_eq`
                                      -- spelling independence (the `strip` fuel suffices)
  * `round0_scale`, `round0_isInt`, `value_round0`, `round0_tie_even`
  * `rem_exact`, `rem_lt`, `rem_sign`
  * `parse_digits`, `parse_digits_dot`, `parse_signed*`, `parse_trailing_zero`, `value_trailing_zero`
  * `digitsToNat_toDigits`, `printNum_pos`, `parseU64_print`, `parseI64Neg_print`, roundtrips
-/
import Mathlib.Tactic.Ring
import Mathlib.Tactic.Linarith
import Mathlib.Data.Rat.Defs
import Mathlib.Tactic.FieldSimp
import Mathlib.Tactic.NormNum
import Mathlib.Algebra.Order.Ring.Abs
import Jawk.Model.Decimal
import Jawk.Model.Print
import Jawk.Model.Parser

namespace Jawk.DecExact
open Jawk

/-- the rational number denoted by a decimal: `mant × 10^(-scale)` -/
def value (d : Dec) : ℚ := (d.mant : ℚ) * (10 : ℚ) ^ (-d.scale)

theorem ten_ne : (10 : ℚ) ≠ 0 := by norm_num

theorem ten_zpow_pos (z : ℤ) : (0 : ℚ) < (10 : ℚ) ^ z := zpow_pos (by norm_num) z

/-- rescaling: multiplying the mantissa by `10^k` and adding `k` to the scale keeps the value -/
theorem value_rescale (m : ℤ) (s : ℤ) (k : ℕ) :
    value ⟨m * 10 ^ k, s + k⟩ = value ⟨m, s⟩ := by
  simp only [value]
  rw [neg_add, zpow_add₀ ten_ne, zpow_neg, zpow_neg, zpow_natCast]
  push_cast
  have : (10 : ℚ) ^ k ≠ 0 := pow_ne_zero _ ten_ne
  field_simp

theorem value_trailing_zero (m s : ℤ) : value ⟨m * 10, s + 1⟩ = value ⟨m, s⟩ := by
  have := value_rescale m s 1
  simpa using this

/-- the aligned mantissa is `value * 10^s` -/
theorem cast_scaled (m sc s : ℤ) (h : sc ≤ s) :
    ((m * 10 ^ (s - sc).toNat : ℤ) : ℚ) = value ⟨m, sc⟩ * (10 : ℚ) ^ s := by
  have hk : s = sc + ((s - sc).toNat : ℤ) := by omega
  have := value_rescale m sc (s - sc).toNat
  rw [← hk] at this
  rw [← this]
  simp only [value]
  rw [mul_assoc, ← zpow_add₀ ten_ne]
  simp

theorem align_fst (a b : Dec) :
    (((Dec.align a b).1 : ℤ) : ℚ) = value a * (10 : ℚ) ^ (max a.scale b.scale) := by
  exact cast_scaled a.mant a.scale _ (le_max_left _ _)

theorem align_snd (a b : Dec) :
    (((Dec.align a b).2.1 : ℤ) : ℚ) = value b * (10 : ℚ) ^ (max a.scale b.scale) := by
  exact cast_scaled b.mant b.scale _ (le_max_right _ _)

theorem align_scale (a b : Dec) : (Dec.align a b).2.2 = max a.scale b.scale := rfl

theorem value_mk (m s : ℤ) : value ⟨m, s⟩ = (m : ℚ) * (10 : ℚ) ^ (-s) := rfl

theorem value_of_scaled (x : ℤ) (v : ℚ) (s : ℤ) (h : (x : ℚ) = v * (10 : ℚ) ^ s) :
    value ⟨x, s⟩ = v := by
  rw [value_mk, h, mul_assoc, ← zpow_add₀ ten_ne]; simp

theorem value_add (a b : Dec) : value (Dec.add a b) = value a + value b := by
  show value ⟨(Dec.align a b).1 + (Dec.align a b).2.1, max a.scale b.scale⟩ = _
  apply value_of_scaled
  push_cast
  rw [align_fst, align_snd]; ring

theorem value_sub (a b : Dec) : value (Dec.sub a b) = value a - value b := by
  show value ⟨(Dec.align a b).1 - (Dec.align a b).2.1, max a.scale b.scale⟩ = _
  apply value_of_scaled
  push_cast
  rw [align_fst, align_snd]; ring

theorem value_mul (a b : Dec) : value (Dec.mul a b) = value a * value b := by
  simp only [Dec.mul, value]
  rw [neg_add, zpow_add₀ ten_ne]
  push_cast; ring

theorem value_abs (a : Dec) : value a.abs = |value a| := by
  simp only [Dec.abs, value]
  rw [abs_mul, abs_of_pos (ten_zpow_pos _)]
  simp

theorem value_zero : value Dec.zero = 0 := by simp [value, Dec.zero]
theorem value_one : value Dec.one = 1 := by simp [value, Dec.one]
/-! ### comparison -/

theorem scaled_lt (a b : Dec) :
    (Dec.align a b).1 < (Dec.align a b).2.1 ↔ value a < value b := by
  rw [← @Int.cast_lt ℚ, align_fst, align_snd]
  exact mul_lt_mul_iff_left₀ (ten_zpow_pos _)

theorem scaled_eq (a b : Dec) :
    (Dec.align a b).1 = (Dec.align a b).2.1 ↔ value a = value b := by
  rw [← @Int.cast_inj ℚ, align_fst, align_snd]
  exact mul_left_inj' (ne_of_gt (ten_zpow_pos _))

theorem cmp_def (a b : Dec) : Dec.cmp a b = compare (Dec.align a b).1 (Dec.align a b).2.1 := rfl

theorem cmp_lt (a b : Dec) : Dec.cmp a b = .lt ↔ value a < value b := by
  rw [cmp_def, compare_lt_iff_lt, scaled_lt]

theorem cmp_eq (a b : Dec) : Dec.cmp a b = .eq ↔ value a = value b := by
  rw [cmp_def, compare_eq_iff_eq, scaled_eq]

theorem cmp_gt (a b : Dec) : Dec.cmp a b = .gt ↔ value b < value a := by
  rw [cmp_def, compare_gt_iff_gt]
  rw [← @Int.cast_lt ℚ, align_fst, align_snd]
  exact mul_lt_mul_iff_left₀ (ten_zpow_pos _)

theorem cmp_exact (a b : Dec) : Dec.cmp a b = compare (value a) (value b) := by
  rcases lt_trichotomy (value a) (value b) with h | h | h
  · rw [(cmp_lt a b).2 h, (compare_lt_iff_lt).2 h]
  · rw [(cmp_eq a b).2 h, (compare_eq_iff_eq).2 h]
  · rw [(cmp_gt a b).2 h, (compare_gt_iff_gt).2 h]
/-! ### normalisation -/

theorem strip_spec (fuel n : ℕ) (s : ℤ) :
    ∃ k : ℕ, (Dec.normalize.strip fuel n s).1 * 10 ^ k = n ∧
      (Dec.normalize.strip fuel n s).2 + k = s := by
  induction fuel generalizing n s with
  | zero => exact ⟨0, by simp [Dec.normalize.strip]⟩
  | succ f ih =>
    unfold Dec.normalize.strip
    split
    · obtain ⟨k, h1, h2⟩ := ih (n / 10) (s - 1)
      refine ⟨k + 1, ?_, ?_⟩
      · rw [pow_succ, ← mul_assoc, h1]; omega
      · push_cast; omega
    · exact ⟨0, by simp⟩

theorem strip_not_dvd (fuel n : ℕ) (s : ℤ) (hn : 0 < n) (hf : n < fuel) :
    (Dec.normalize.strip fuel n s).1 % 10 ≠ 0 := by
  induction fuel generalizing n s with
  | zero => omega
  | succ f ih =>
    unfold Dec.normalize.strip
    split
    · apply ih <;> omega
    · assumption

/-- canonical form: zero is `⟨0,0⟩`, otherwise the mantissa has no trailing zero -/
def Canon (d : Dec) : Prop := (d.mant = 0 ∧ d.scale = 0) ∨ d.mant % 10 ≠ 0

theorem normalize_nonzero (a : Dec) (h : a.mant ≠ 0) :
    Dec.normalize a =
      ⟨if a.mant < 0 then -((Dec.normalize.strip (a.mant.natAbs + 1) a.mant.natAbs a.scale).1 : ℤ)
        else ((Dec.normalize.strip (a.mant.natAbs + 1) a.mant.natAbs a.scale).1 : ℤ),
       (Dec.normalize.strip (a.mant.natAbs + 1) a.mant.natAbs a.scale).2⟩ := by
  simp only [Dec.normalize, if_neg h]

theorem normalize_zero (a : Dec) (h : a.mant = 0) : Dec.normalize a = Dec.zero := by
  simp only [Dec.normalize, if_pos h]

theorem value_normalize (a : Dec) : value (Dec.normalize a) = value a := by
  by_cases h : a.mant = 0
  · rw [normalize_zero a h, value_zero, value, h]; simp
  · rw [normalize_nonzero a h]
    obtain ⟨k, h1, h2⟩ := strip_spec (a.mant.natAbs + 1) a.mant.natAbs a.scale
    generalize Dec.normalize.strip (a.mant.natAbs + 1) a.mant.natAbs a.scale = r at *
    obtain ⟨n', s'⟩ := r
    simp only at h1 h2 ⊢
    have hv := value_rescale (if a.mant < 0 then -(n' : ℤ) else n') s' k
    rw [← hv]
    have : (if a.mant < 0 then -(n' : ℤ) else n') * 10 ^ k = a.mant := by
      have : (n' : ℤ) * 10 ^ k = (a.mant.natAbs : ℤ) := by
        rw [← h1]; simp only [Nat.cast_mul, Nat.cast_pow, Nat.cast_ofNat]
      split <;> [rw [neg_mul, this]; rw [this]] <;> omega
    rw [this, h2]

/-- the fuel of `strip` suffices: the result is canonical -/
theorem normalize_canon (a : Dec) : Canon (Dec.normalize a) := by
  by_cases h : a.mant = 0
  · rw [normalize_zero a h]; left; exact ⟨rfl, rfl⟩
  · rw [normalize_nonzero a h]; right
    have := strip_not_dvd (a.mant.natAbs + 1) a.mant.natAbs a.scale (by omega) (by omega)
    simp only
    split <;> omega


theorem value_eq_zero_iff (a : Dec) : value a = 0 ↔ a.mant = 0 := by
  simp only [value, mul_eq_zero, Int.cast_eq_zero, or_iff_left_iff_imp]
  intro h; exact absurd h (ne_of_gt (ten_zpow_pos _))

theorem pow_zero_of_not_dvd (m1 m2 : ℤ) (k : ℕ) (h : m1 * 10 ^ k = m2) (h2 : m2 % 10 ≠ 0) : k = 0 := by
  cases k with
  | zero => rfl
  | succ j =>
    exfalso; apply h2
    rw [← h, pow_succ, ← mul_assoc]; omega

theorem Canon.eq_zero {a : Dec} (h : Canon a) (h0 : a.mant = 0) : a = Dec.zero := by
  rcases h with ⟨h1, h2⟩ | h
  · cases a; simp_all [Dec.zero]
  · rw [h0] at h; omega

theorem canon_unique {a b : Dec} (ha : Canon a) (hb : Canon b) (h : value a = value b) : a = b := by
  by_cases h0 : a.mant = 0
  · have hb0 : b.mant = 0 := by
      rw [← value_eq_zero_iff, ← h, value_eq_zero_iff]; exact h0
    rw [ha.eq_zero h0, hb.eq_zero hb0]
  · have hb0 : b.mant ≠ 0 := by
      rw [Ne, ← value_eq_zero_iff, ← h, value_eq_zero_iff]; exact h0
    have ha' : a.mant % 10 ≠ 0 := by
      rcases ha with ⟨h1, _⟩ | h1 <;> [exact absurd h1 h0; exact h1]
    have hb' : b.mant % 10 ≠ 0 := by
      rcases hb with ⟨h1, _⟩ | h1 <;> [exact absurd h1 hb0; exact h1]
    have hx := (scaled_eq a b).2 h
    simp only [Dec.align] at hx
    obtain ⟨ma, sa⟩ := a
    obtain ⟨mb, sb⟩ := b
    simp only at *
    rcases lt_trichotomy sa sb with hlt | heq | hgt
    · have e1 : max sa sb = sb := by omega
      rw [e1, sub_self] at hx
      simp only [Int.toNat_zero, pow_zero, mul_one] at hx
      have := pow_zero_of_not_dvd _ _ _ hx hb'
      omega
    · subst heq
      rw [max_self, sub_self] at hx
      simp only [Int.toNat_zero, pow_zero, mul_one] at hx
      rw [hx]
    · have e1 : max sa sb = sa := by omega
      rw [e1, sub_self] at hx
      simp only [Int.toNat_zero, pow_zero, mul_one] at hx
      have := pow_zero_of_not_dvd _ _ _ hx.symm ha'
      omega

/-- spelling independence: decimals of equal value have the same normal form (hence print identically) -/
theorem normalize_eq_iff (a b : Dec) : Dec.normalize a = Dec.normalize b ↔ value a = value b := by
  constructor
  · intro h; rw [← value_normalize a, ← value_normalize b, h]
  · intro h
    exact canon_unique (normalize_canon a) (normalize_canon b)
      (by rw [value_normalize, value_normalize, h])

theorem normalize_idem (a : Dec) : Dec.normalize (Dec.normalize a) = Dec.normalize a :=
  (normalize_eq_iff _ _).2 (value_normalize a)

theorem render_eq_of_value_eq (a b : Dec) (h : value a = value b) : Dec.render a = Dec.render b := by
  unfold Dec.render
  rw [(normalize_eq_iff a b).2 h]

/-! ### round(0) -/

/-- the half-even rounded quotient used by `Dec.round0` -/
def rq (n p : ℕ) : ℕ :=
  if 2 * (n % p) > p ∨ (2 * (n % p) = p ∧ (n / p) % 2 = 1) then n / p + 1 else n / p

theorem rq_err_eq (n p : ℕ) (hp : 0 < p) :
    ((rq n p : ℕ) : ℚ) - (n : ℚ) / p =
      (((rq n p : ℚ) - ((n / p : ℕ) : ℚ)) * p - ((n % p : ℕ) : ℚ)) / p := by
  have hn : (n : ℚ) = (p : ℚ) * ((n / p : ℕ) : ℚ) + ((n % p : ℕ) : ℚ) := by
    exact_mod_cast (Nat.div_add_mod n p).symm
  have hp' : (p : ℚ) ≠ 0 := by exact_mod_cast hp.ne'
  rw [eq_div_iff hp', sub_mul, div_mul_cancel₀ _ hp']
  rw (occs := [1]) [hn]
  ring

theorem rq_core (n p : ℕ) (hp : 0 < p) :
    |((rq n p : ℕ) : ℚ) - (n : ℚ) / p| ≤ 1 / 2 ∧
    (|((rq n p : ℕ) : ℚ) - (n : ℚ) / p| = 1 / 2 → rq n p % 2 = 0) := by
  rw [rq_err_eq n p hp]
  have hp' : (0 : ℚ) < p := by exact_mod_cast hp
  have hr : ((n % p : ℕ) : ℚ) < p := by exact_mod_cast Nat.mod_lt n hp
  have hr0 : (0 : ℚ) ≤ ((n % p : ℕ) : ℚ) := by positivity
  by_cases hC : 2 * (n % p) > p ∨ (2 * (n % p) = p ∧ (n / p) % 2 = 1)
  · have e : rq n p = n / p + 1 := by simp only [rq, if_pos hC]
    have h2 : (p : ℚ) ≤ 2 * ((n % p : ℕ) : ℚ) := by
      have : p ≤ 2 * (n % p) := by omega
      exact_mod_cast this
    rw [e]; push_cast
    have ex : ((((n / p : ℕ) : ℚ) + 1 - ((n / p : ℕ) : ℚ)) * p - ((n % p : ℕ) : ℚ)) / p
        = ((p : ℚ) - ((n % p : ℕ) : ℚ)) / p := by ring
    rw [ex]
    have hnn : (0 : ℚ) ≤ ((p : ℚ) - ((n % p : ℕ) : ℚ)) / p := div_nonneg (by linarith) hp'.le
    rw [abs_of_nonneg hnn]
    constructor
    · rw [div_le_iff₀ hp']; linarith
    · intro h
      rw [div_eq_iff hp'.ne'] at h
      have h3 : (2 : ℚ) * ((n % p : ℕ) : ℚ) = p := by linarith
      have h4 : 2 * (n % p) = p := by exact_mod_cast h3
      omega
  · have e : rq n p = n / p := by simp only [rq, if_neg hC]
    have h2 : 2 * ((n % p : ℕ) : ℚ) ≤ (p : ℚ) := by
      have : 2 * (n % p) ≤ p := by omega
      exact_mod_cast this
    rw [e]
    have ex : ((((n / p : ℕ) : ℚ) - ((n / p : ℕ) : ℚ)) * p - ((n % p : ℕ) : ℚ)) / p
        = -(((n % p : ℕ) : ℚ) / p) := by ring
    rw [ex, abs_neg]
    have hnn : (0 : ℚ) ≤ ((n % p : ℕ) : ℚ) / p := div_nonneg hr0 hp'.le
    rw [abs_of_nonneg hnn]
    constructor
    · rw [div_le_iff₀ hp']; linarith
    · intro h
      rw [div_eq_iff hp'.ne'] at h
      have h3 : (2 : ℚ) * ((n % p : ℕ) : ℚ) = p := by linarith
      have h4 : 2 * (n % p) = p := by exact_mod_cast h3
      omega

theorem round0_of_scale_nonpos (a : Dec) (h : a.scale ≤ 0) : Dec.round0 a = a := by
  simp only [Dec.round0, if_pos h]

theorem round0_of_scale_pos (a : Dec) (h : 0 < a.scale) :
    Dec.round0 a =
      ⟨if a.mant < 0 then -((rq a.mant.natAbs (10 ^ a.scale.toNat) : ℕ) : ℤ)
        else ((rq a.mant.natAbs (10 ^ a.scale.toNat) : ℕ) : ℤ), 0⟩ := by
  simp only [Dec.round0, if_neg (not_le.2 h), rq]

theorem round0_scale (a : Dec) : (Dec.round0 a).scale ≤ 0 := by
  by_cases h : a.scale ≤ 0
  · rw [round0_of_scale_nonpos a h]; exact h
  · rw [round0_of_scale_pos a (not_le.1 h)]

/-- a decimal of non-positive scale denotes an integer -/
theorem value_int_of_scale_nonpos (d : Dec) (h : d.scale ≤ 0) :
    value d = ((d.mant * 10 ^ (-d.scale).toNat : ℤ) : ℚ) := by
  have := cast_scaled d.mant d.scale 0 h
  simp only [zero_sub, zpow_zero, mul_one] at this
  rw [this]

theorem round0_isInt (a : Dec) : ∃ z : ℤ, value (Dec.round0 a) = z :=
  ⟨_, value_int_of_scale_nonpos _ (round0_scale a)⟩

/-- value of a decimal with positive scale as a signed fraction -/
theorem value_pos_scale (a : Dec) (h : 0 < a.scale) :
    value a = (if a.mant < 0 then -1 else 1) *
      (((a.mant.natAbs : ℕ) : ℚ) / ((10 ^ a.scale.toNat : ℕ) : ℚ)) := by
  have hs : a.scale = (a.scale.toNat : ℤ) := by omega
  simp only [value]
  rw (occs := [1]) [hs]
  rw [zpow_neg, zpow_natCast]
  push_cast
  have : (a.mant : ℚ) = (if a.mant < 0 then -1 else 1) * |(a.mant : ℚ)| := by
    split
    · rename_i hm
      have : (a.mant : ℚ) < 0 := by exact_mod_cast hm
      rw [abs_of_neg this]; ring
    · rename_i hm
      have : (0 : ℚ) ≤ (a.mant : ℚ) := by exact_mod_cast (not_lt.1 hm)
      rw [abs_of_nonneg this]; ring
  rw (occs := [1]) [this]
  rw [div_eq_mul_inv, Nat.cast_natAbs, Int.cast_abs, mul_assoc]

theorem round0_core (a : Dec) :
    |value (Dec.round0 a) - value a| ≤ 1 / 2 ∧
    (|value (Dec.round0 a) - value a| = 1 / 2 → ∃ k : ℤ, value (Dec.round0 a) = 2 * k) := by
  by_cases h : a.scale ≤ 0
  · rw [round0_of_scale_nonpos a h]
    simp only [sub_self, abs_zero]
    constructor
    · norm_num
    · intro h; norm_num at h
  · have hs := not_le.1 h
    have hp : 0 < 10 ^ a.scale.toNat := Nat.pow_pos (by norm_num)
    obtain ⟨h1, h2⟩ := rq_core a.mant.natAbs (10 ^ a.scale.toNat) hp
    rw [round0_of_scale_pos a hs, value_pos_scale a hs]
    have hv : ∀ m : ℤ, value ⟨m, 0⟩ = (m : ℚ) := by intro m; simp [value]
    rw [hv]
    generalize rq a.mant.natAbs (10 ^ a.scale.toNat) = Q at *
    generalize ((a.mant.natAbs : ℕ) : ℚ) / ((10 ^ a.scale.toNat : ℕ) : ℚ) = F at *
    by_cases hm : a.mant < 0
    · simp only [if_pos hm]
      have e : ((-(Q : ℤ) : ℤ) : ℚ) - -1 * F = -((Q : ℚ) - F) := by
        push_cast; ring
      rw [e, abs_neg]
      refine ⟨h1, fun h => ?_⟩
      have := h2 h
      refine ⟨-((Q / 2 : ℕ) : ℤ), ?_⟩
      have hq : Q = 2 * (Q / 2) := by omega
      rw (occs := [1]) [hq]; push_cast; ring
    · simp only [if_neg hm]
      have e : (((Q : ℤ) : ℤ) : ℚ) - 1 * F = ((Q : ℚ) - F) := by
        push_cast; ring
      rw [e]
      refine ⟨h1, fun h => ?_⟩
      have := h2 h
      refine ⟨((Q / 2 : ℕ) : ℤ), ?_⟩
      have hq : Q = 2 * (Q / 2) := by omega
      rw (occs := [1]) [hq]; push_cast; ring


/-- `round(0)` is within one half of the argument -/
theorem value_round0 (a : Dec) : |value (Dec.round0 a) - value a| ≤ 1 / 2 := (round0_core a).1

/-- ties go to the even integer -/
theorem round0_tie_even (a : Dec) (h : |value (Dec.round0 a) - value a| = 1 / 2) :
    ∃ k : ℤ, value (Dec.round0 a) = 2 * k := (round0_core a).2 h
/-! ### parsing -/

def isE (c : Char) : Bool := c = 'e' || c = 'E'

def signSplit (t : Str) : Bool × Str :=
  match t with
  | '-' :: r => (true, r)
  | '+' :: r => (false, r)
  | r => (false, r)

def parseInt (t : Str) : Option Int :=
  let (neg, ds) := signSplit t
  if ds.isEmpty || !ds.all Char.isDigit then none
  else some (if neg then -(F64.digitsToNat ds : Int) else F64.digitsToNat ds)

def parseBase (base : Str) (e : Int) : Option Dec :=
  if base.isEmpty then none else
  let lead := base.takeWhile (· ≠ '.')
  let hasDot := base.any (· = '.')
  let trail := (base.dropWhile (· ≠ '.')).drop 1
  if trail.any (· = '.') then none else
  let digits := if hasDot then lead ++ trail else lead
  match parseInt digits with
  | none => none
  | some m =>
    if trail.any (fun c => c = '-' || c = '+') then none
    else some ⟨m, (trail.length : Int) - e⟩

theorem parse_eq (s : Str) :
    Dec.parse s =
      match (if s.any isE then parseInt ((s.dropWhile (fun c => !isE c)).drop 1) else some 0) with
      | none => none
      | some e => parseBase (s.takeWhile (fun c => !isE c)) e := rfl


theorem isDigit_ne {c : Char} (h : c.isDigit = true) :
    c ≠ '.' ∧ c ≠ '-' ∧ c ≠ '+' ∧ c ≠ 'e' ∧ c ≠ 'E' := by
  refine ⟨?_, ?_, ?_, ?_, ?_⟩ <;> (intro e; subst e; revert h; decide)

/-- a sign prefix -/
def IsSign (sg : Str) : Prop := sg = [] ∨ sg = ['-'] ∨ sg = ['+']

def sgnApply (sg : Str) (n : ℕ) : ℤ := if sg = ['-'] then -(n : ℤ) else n

theorem parseInt_signed (sg ds : Str) (hsg : IsSign sg) (hne : ds ≠ [])
    (hd : ds.all Char.isDigit = true) :
    parseInt (sg ++ ds) = some (sgnApply sg (F64.digitsToNat ds)) := by
  have hemp : ds.isEmpty = false := by cases ds <;> simp_all
  rcases hsg with rfl | rfl | rfl
  · cases ds with
    | nil => exact absurd rfl hne
    | cons c r =>
      have hc : c.isDigit = true := by simp [List.all_cons] at hd; exact hd.1
      obtain ⟨_, h1, h2, _, _⟩ := isDigit_ne hc
      have : signSplit (c :: r) = (false, c :: r) := by
        unfold signSplit
        split
        · next heq => simp at heq; exact absurd heq.1 h1
        · next heq => simp at heq; exact absurd heq.1 h2
        · rfl
      simp [parseInt, this, hd, sgnApply]
  · simp [parseInt, signSplit, hemp, hd, sgnApply]
  · simp [parseInt, signSplit, hemp, hd, sgnApply]


theorem IsSign.no_dot {sg : Str} (h : IsSign sg) : ∀ c ∈ sg, c ≠ '.' ∧ c ≠ 'e' ∧ c ≠ 'E' := by
  rcases h with rfl | rfl | rfl <;> simp

theorem digits_mem {ds : Str} (hd : ds.all Char.isDigit = true) : ∀ c ∈ ds, c.isDigit = true := by
  simpa [List.all_eq_true] using hd

theorem parseBase_dot (sg ds fs : Str) (e : ℤ) (hsg : IsSign sg)
    (hd : ds.all Char.isDigit = true) (hf : fs.all Char.isDigit = true) (hne : ds ++ fs ≠ []) :
    parseBase (sg ++ ds ++ '.' :: fs) e =
      some ⟨sgnApply sg (F64.digitsToNat (ds ++ fs)), (fs.length : ℤ) - e⟩ := by
  have hd' := digits_mem hd
  have hf' := digits_mem hf
  have hlead : ∀ c ∈ sg ++ ds, (decide (c ≠ '.')) = true := by
    intro c hc
    rcases List.mem_append.1 hc with h | h
    · simpa using (hsg.no_dot c h).1
    · simpa using (isDigit_ne (hd' c h)).1
  have h1 : (sg ++ ds ++ '.' :: fs).takeWhile (· ≠ '.') = sg ++ ds := by
    rw [List.takeWhile_append_of_pos hlead]; simp
  have h2 : ((sg ++ ds ++ '.' :: fs).dropWhile (· ≠ '.')).drop 1 = fs := by
    rw [List.dropWhile_append_of_pos hlead]; simp
  have h3 : (sg ++ ds ++ '.' :: fs).any (· = '.') = true := by simp
  have h4 : fs.any (· = '.') = false := by
    simp only [List.any_eq_false, decide_eq_true_eq]
    intro c hc; exact (isDigit_ne (hf' c hc)).1
  have h5 : fs.any (fun c => c = '-' || c = '+') = false := by
    simp only [List.any_eq_false, Bool.or_eq_true, decide_eq_true_eq, not_or]
    intro c hc; exact ⟨(isDigit_ne (hf' c hc)).2.1, (isDigit_ne (hf' c hc)).2.2.1⟩
  have h6 : (sg ++ ds ++ '.' :: fs).isEmpty = false := by simp
  have h7 : parseInt (sg ++ ds ++ fs) = some (sgnApply sg (F64.digitsToNat (ds ++ fs))) := by
    rw [List.append_assoc]
    exact parseInt_signed sg (ds ++ fs) hsg hne (by simp [List.all_append, hd, hf])
  simp only [parseBase, h1, h2, h3, h4, h5, h6, h7, if_true, Bool.false_eq_true, if_false]

theorem parseBase_nodot (sg ds : Str) (e : ℤ) (hsg : IsSign sg)
    (hd : ds.all Char.isDigit = true) (hne : ds ≠ []) :
    parseBase (sg ++ ds) e = some ⟨sgnApply sg (F64.digitsToNat ds), -e⟩ := by
  have hd' := digits_mem hd
  have hlead : ∀ c ∈ sg ++ ds, (decide (c ≠ '.')) = true := by
    intro c hc
    rcases List.mem_append.1 hc with h | h
    · simpa using (hsg.no_dot c h).1
    · simpa using (isDigit_ne (hd' c h)).1
  have h1 : (sg ++ ds).takeWhile (· ≠ '.') = sg ++ ds := by
    have := List.takeWhile_append_of_pos (l₂ := []) hlead
    simpa using this
  have h2 : ((sg ++ ds).dropWhile (· ≠ '.')).drop 1 = [] := by
    have := List.dropWhile_append_of_pos (l₂ := []) hlead
    simp only [List.append_nil] at this
    rw [this]; rfl
  have h3 : (sg ++ ds).any (· = '.') = false := by
    simp only [List.any_eq_false, decide_eq_true_eq]
    intro c hc; simpa using hlead c hc
  have h6 : (sg ++ ds).isEmpty = false := by cases ds <;> simp_all
  have h7 := parseInt_signed sg ds hsg hne hd
  simp only [parseBase, h1, h2, h3, h6, h7, Bool.false_eq_true, if_false]
  simp


def NoE (base : Str) : Prop := ∀ c ∈ base, (!isE c) = true

theorem isE_iff (c : Char) : isE c = true ↔ c = 'e' ∨ c = 'E' := by simp [isE]

theorem noE_digits {ds : Str} (hd : ds.all Char.isDigit = true) : NoE ds := by
  intro c hc
  have := isDigit_ne (digits_mem hd c hc)
  simp [isE, this.2.2.2.1, this.2.2.2.2]

theorem noE_sign {sg : Str} (h : IsSign sg) : NoE sg := by
  intro c hc
  have := h.no_dot c hc
  simp [isE, this.2.1, this.2.2]

theorem NoE.append {a b : Str} (ha : NoE a) (hb : NoE b) : NoE (a ++ b) := by
  intro c hc
  rcases List.mem_append.1 hc with h | h
  · exact ha c h
  · exact hb c h

theorem noE_dot {fs : Str} (h : NoE fs) : NoE ('.' :: fs) := by
  intro c hc
  rcases List.mem_cons.1 hc with rfl | h'
  · decide
  · exact h c h'

theorem parse_noexp (base : Str) (h : NoE base) : Dec.parse base = parseBase base 0 := by
  rw [parse_eq]
  have h1 : base.any isE = false := by
    simp only [List.any_eq_false]
    intro c hc; simpa using h c hc
  have h2 : base.takeWhile (fun c => !isE c) = base := by
    have := List.takeWhile_append_of_pos (l₂ := []) h
    simpa using this
  simp only [h1, h2, Bool.false_eq_true, if_false]

theorem parse_exp (base : Str) (ec : Char) (esg es : Str) (h : NoE base) (hec : isE ec = true)
    (hsg : IsSign esg) (hes : es.all Char.isDigit = true) (hne : es ≠ []) :
    Dec.parse (base ++ ec :: (esg ++ es)) = parseBase base (sgnApply esg (F64.digitsToNat es)) := by
  rw [parse_eq]
  have h1 : (base ++ ec :: (esg ++ es)).any isE = true := by
    simp only [List.any_append, List.any_cons, hec, Bool.true_or, Bool.or_true]
  have h2 : (base ++ ec :: (esg ++ es)).takeWhile (fun c => !isE c) = base := by
    rw [List.takeWhile_append_of_pos h]; simp [hec]
  have h3 : ((base ++ ec :: (esg ++ es)).dropWhile (fun c => !isE c)).drop 1 = esg ++ es := by
    rw [List.dropWhile_append_of_pos h]; simp [hec]
  simp only [h1, h2, h3, if_true, parseInt_signed esg es hsg hne hes]

/-- a plain digit string -/
theorem parse_digits (ds : Str) (hne : ds ≠ []) (hd : ds.all Char.isDigit = true) :
    Dec.parse ds = some ⟨F64.digitsToNat ds, 0⟩ := by
  rw [parse_noexp ds (noE_digits hd)]
  have := parseBase_nodot [] ds 0 (Or.inl rfl) hd hne
  simpa [sgnApply] using this

/-- digits, a point, digits -/
theorem parse_digits_dot (ds fs : Str) (hne : ds ≠ []) (hd : ds.all Char.isDigit = true)
    (hf : fs.all Char.isDigit = true) :
    Dec.parse (ds ++ '.' :: fs) = some ⟨F64.digitsToNat (ds ++ fs), fs.length⟩ := by
  rw [parse_noexp _ ((noE_digits hd).append (noE_dot (noE_digits hf)))]
  have := parseBase_dot [] ds fs 0 (Or.inl rfl) hd hf (by simp [hne])
  simpa [sgnApply] using this

/-- the general shape `[sign] digits . digits [e [sign] digits]`, without exponent -/
theorem parse_signed_dot (sg ds fs : Str) (hsg : IsSign sg)
    (hd : ds.all Char.isDigit = true) (hf : fs.all Char.isDigit = true) (hne : ds ++ fs ≠ []) :
    Dec.parse (sg ++ ds ++ '.' :: fs) =
      some ⟨sgnApply sg (F64.digitsToNat (ds ++ fs)), fs.length⟩ := by
  rw [parse_noexp _ (((noE_sign hsg).append (noE_digits hd)).append (noE_dot (noE_digits hf)))]
  have := parseBase_dot sg ds fs 0 hsg hd hf hne
  simpa using this

theorem parse_signed (sg ds : Str) (hsg : IsSign sg)
    (hd : ds.all Char.isDigit = true) (hne : ds ≠ []) :
    Dec.parse (sg ++ ds) = some ⟨sgnApply sg (F64.digitsToNat ds), 0⟩ := by
  rw [parse_noexp _ ((noE_sign hsg).append (noE_digits hd))]
  have := parseBase_nodot sg ds 0 hsg hd hne
  simpa using this

/-- with exponent: the exponent shifts the scale -/
theorem parse_signed_dot_exp (sg ds fs : Str) (ec : Char) (esg es : Str) (hsg : IsSign sg)
    (hd : ds.all Char.isDigit = true) (hf : fs.all Char.isDigit = true) (hne : ds ++ fs ≠ [])
    (hec : ec = 'e' ∨ ec = 'E') (hesg : IsSign esg)
    (hes : es.all Char.isDigit = true) (hene : es ≠ []) :
    Dec.parse ((sg ++ ds ++ '.' :: fs) ++ ec :: (esg ++ es)) =
      some ⟨sgnApply sg (F64.digitsToNat (ds ++ fs)),
            (fs.length : ℤ) - sgnApply esg (F64.digitsToNat es)⟩ := by
  rw [parse_exp _ ec esg es
    (((noE_sign hsg).append (noE_digits hd)).append (noE_dot (noE_digits hf)))
    ((isE_iff ec).2 hec) hesg hes hene]
  exact parseBase_dot sg ds fs _ hsg hd hf hne

theorem parse_signed_exp (sg ds : Str) (ec : Char) (esg es : Str) (hsg : IsSign sg)
    (hd : ds.all Char.isDigit = true) (hne : ds ≠ [])
    (hec : ec = 'e' ∨ ec = 'E') (hesg : IsSign esg)
    (hes : es.all Char.isDigit = true) (hene : es ≠ []) :
    Dec.parse ((sg ++ ds) ++ ec :: (esg ++ es)) =
      some ⟨sgnApply sg (F64.digitsToNat ds), - sgnApply esg (F64.digitsToNat es)⟩ := by
  rw [parse_exp _ ec esg es ((noE_sign hsg).append (noE_digits hd))
    ((isE_iff ec).2 hec) hesg hes hene]
  exact parseBase_nodot sg ds _ hsg hd hne

example : Dec.parse "-12.50e+3".toList = some ⟨-1250, 2 - 3⟩ :=
  parse_signed_dot_exp ['-'] "12".toList "50".toList 'e' ['+'] "3".toList
    (Or.inr (Or.inl rfl)) (by decide) (by decide) (by decide) (Or.inl rfl) (Or.inr (Or.inr rfl))
    (by decide) (by decide)


theorem digitsToNat_append (l m : Str) :
    F64.digitsToNat (l ++ m) = m.foldl (fun acc c => acc * 10 + F64.digitVal c) (F64.digitsToNat l) := by
  simp [F64.digitsToNat, List.foldl_append]

theorem digitsToNat_append_zero (l : Str) : F64.digitsToNat (l ++ ['0']) = F64.digitsToNat l * 10 := by
  rw [digitsToNat_append]; simp [F64.digitVal]

/-- a trailing zero after the point does not change the value of the parsed number -/
theorem parse_trailing_zero (ds fs : Str) (hne : ds ≠ []) (hd : ds.all Char.isDigit = true)
    (hf : fs.all Char.isDigit = true) :
    (Dec.parse (ds ++ '.' :: (fs ++ ['0']))).map value = (Dec.parse (ds ++ '.' :: fs)).map value := by
  rw [parse_digits_dot ds fs hne hd hf,
    parse_digits_dot ds (fs ++ ['0']) hne hd (by simp [List.all_append, hf])]
  simp only [Option.map_some, Option.some.injEq]
  rw [← List.append_assoc, digitsToNat_append_zero]
  have := value_trailing_zero (F64.digitsToNat (ds ++ fs)) fs.length
  simpa using this

/-- `"12."` and `"12"` parse to the same decimal -/
theorem parse_dot_nothing (ds : Str) (hne : ds ≠ []) (hd : ds.all Char.isDigit = true) :
    Dec.parse (ds ++ ['.']) = Dec.parse ds := by
  rw [parse_digits ds hne hd, parse_digits_dot ds [] hne hd rfl]; simp

/-! ### integers print and parse back exactly -/

theorem digitsToNat_eq_ofDigitChars (l : Str) : F64.digitsToNat l = Nat.ofDigitChars 10 l 0 := by
  unfold F64.digitsToNat Nat.ofDigitChars
  generalize 0 = init
  induction l generalizing init with
  | nil => rfl
  | cons c r ih => simp only [List.foldl_cons]; rw [ih]; simp [F64.digitVal, Nat.mul_comm]

theorem digitsToNat_toDigits (n : ℕ) : F64.digitsToNat (Nat.toDigits 10 n) = n := by
  rw [digitsToNat_eq_ofDigitChars]; exact Nat.ofDigitChars_ten_toDigits

theorem printNum_pos (n : ℕ) : printNum (.pos n) = Nat.toDigits 10 n := rfl

theorem printNum_neg (i : ℤ) (h : i < 0) : printNum (.neg i) = '-' :: Nat.toDigits 10 i.natAbs := by
  simp [printNum, h]

/-- the ASCII bytes of a printed number -/
def toBytes (s : Str) : List Byte := s.map (fun c => c.toNat.toUInt8)

theorem byteToChar_digit (c : Char) (h : c.isDigit = true) : byteToChar c.toNat.toUInt8 = c := by
  have hc : c.toNat ≤ 57 := by
    simp only [Char.isDigit, Bool.and_eq_true, decide_eq_true_eq] at h
    have := h.2
    exact this
  unfold byteToChar
  have : c.toNat.toUInt8.toNat = c.toNat := by
    simp only [Nat.toUInt8, UInt8.toNat_ofNat']
    omega
  rw [this]; exact Char.ofNat_toNat c

theorem bytesToStr_toBytes_toDigits (n : ℕ) : bytesToStr (toBytes (Nat.toDigits 10 n)) = Nat.toDigits 10 n := by
  unfold bytesToStr toBytes
  rw [List.map_map]
  conv => rhs; rw [← List.map_id (Nat.toDigits 10 n)]
  apply List.map_congr_left
  intro c hc
  exact byteToChar_digit c (Nat.isDigit_of_mem_toDigits (by decide) (by decide) hc)

theorem parseU64_print (n : ℕ) (h : n < 2 ^ 64) :
    parseU64 ((Nat.toDigits 10 n).map (fun c => c.toNat.toUInt8)) = some n := by
  have := bytesToStr_toBytes_toDigits n
  unfold toBytes at this
  simp only [parseU64, this, digitsToNat_toDigits, if_pos h]

theorem parseU64_overflow (n : ℕ) (h : 2 ^ 64 ≤ n) :
    parseU64 ((Nat.toDigits 10 n).map (fun c => c.toNat.toUInt8)) = none := by
  have := bytesToStr_toBytes_toDigits n
  unfold toBytes at this
  simp only [parseU64, this, digitsToNat_toDigits, if_neg (not_lt.2 h)]

theorem parseI64Neg_print (k : ℕ) (h : k ≤ 2 ^ 63) :
    parseI64Neg ((Nat.toDigits 10 k).map (fun c => c.toNat.toUInt8)) = .ok (-(k : ℤ)) := by
  have := bytesToStr_toBytes_toDigits k
  unfold toBytes at this
  have hne : ((Nat.toDigits 10 k).map (fun c => c.toNat.toUInt8)).isEmpty = false := by
    have := @Nat.toDigits_ne_nil k 10
    cases hh : Nat.toDigits 10 k <;> simp_all
  simp only [parseI64Neg, hne, this, digitsToNat_toDigits, if_pos h, Bool.false_eq_true, if_false]

/-- an `i64` that is negative prints as `-digits`, and `digits` parses back to it -/
theorem printNum_neg_roundtrip (i : ℤ) (h : i < 0) (hlo : -(2 ^ 63 : ℤ) ≤ i) :
    ∃ ds : Str, printNum (.neg i) = '-' :: ds ∧ parseI64Neg (toBytes ds) = .ok i := by
  refine ⟨Nat.toDigits 10 i.natAbs, printNum_neg i h, ?_⟩
  have := parseI64Neg_print i.natAbs (by omega)
  unfold toBytes
  rw [this]; congr 1; omega

/-- a `u64` prints as digits that parse back to it -/
theorem printNum_pos_roundtrip (n : ℕ) (h : n < 2 ^ 64) :
    parseU64 (toBytes (printNum (.pos n))) = some n := parseU64_print n h

/-! ### remainder -/

theorem nat_div_spec (X Y : ℕ) (hY : 0 < Y) :
    ((X / Y : ℕ) : ℚ) ≤ (X : ℚ) / Y ∧ (X : ℚ) / Y < ((X / Y : ℕ) : ℚ) + 1 := by
  have hY' : (0 : ℚ) < Y := by exact_mod_cast hY
  have hn : (X : ℚ) = (Y : ℚ) * ((X / Y : ℕ) : ℚ) + ((X % Y : ℕ) : ℚ) := by
    exact_mod_cast (Nat.div_add_mod X Y).symm
  have hr : ((X % Y : ℕ) : ℚ) < Y := by exact_mod_cast Nat.mod_lt X hY
  have hr0 : (0 : ℚ) ≤ ((X % Y : ℕ) : ℚ) := by positivity
  constructor
  · rw [le_div_iff₀ hY']; linarith
  · rw [div_lt_iff₀ hY']; linarith

set_option linter.unusedSimpArgs false in
/-- `Int.tdiv` and the rational quotient differ only by a common sign from the natural-number picture -/
theorem tdiv_sign (x y : ℤ) :
    ∃ ε : ℚ, (ε = 1 ∨ ε = -1) ∧
      ((Int.tdiv x y : ℤ) : ℚ) = ε * ((x.natAbs / y.natAbs : ℕ) : ℚ) ∧
      (x : ℚ) / y = ε * ((x.natAbs : ℚ) / (y.natAbs : ℚ)) := by
  obtain ⟨X, rfl | rfl⟩ := Int.eq_nat_or_neg x <;> obtain ⟨Y, rfl | rfl⟩ := Int.eq_nat_or_neg y
  · refine ⟨1, Or.inl rfl, ?_, ?_⟩
    · simp only [Int.natAbs_natCast, Int.natAbs_neg, ← Int.ofNat_tdiv, Int.neg_tdiv, Int.tdiv_neg, neg_neg, Int.cast_neg, Int.cast_natCast]; ring
    · simp
  · refine ⟨-1, Or.inr rfl, ?_, ?_⟩
    · simp only [Int.natAbs_natCast, Int.natAbs_neg, ← Int.ofNat_tdiv, Int.neg_tdiv, Int.tdiv_neg, neg_neg, Int.cast_neg, Int.cast_natCast]; ring
    · simp [div_neg]
  · refine ⟨-1, Or.inr rfl, ?_, ?_⟩
    · simp only [Int.natAbs_natCast, Int.natAbs_neg, ← Int.ofNat_tdiv, Int.neg_tdiv, Int.tdiv_neg, neg_neg, Int.cast_neg, Int.cast_natCast]; ring
    · simp [neg_div]
  · refine ⟨1, Or.inl rfl, ?_, ?_⟩
    · simp only [Int.natAbs_natCast, Int.natAbs_neg, ← Int.ofNat_tdiv, Int.neg_tdiv, Int.tdiv_neg, neg_neg, Int.cast_neg, Int.cast_natCast]; ring
    · simp

/-- `Int.tdiv x y` is the rational quotient `x / y` truncated toward zero -/
theorem tdiv_spec (x y : ℤ) (hy : y ≠ 0) :
    |((Int.tdiv x y : ℤ) : ℚ)| ≤ |(x : ℚ) / y| ∧ |(x : ℚ) / y| < |((Int.tdiv x y : ℤ) : ℚ)| + 1 ∧
    0 ≤ ((Int.tdiv x y : ℤ) : ℚ) * ((x : ℚ) / y) := by
  obtain ⟨ε, hε, h1, h2⟩ := tdiv_sign x y
  obtain ⟨h3, h4⟩ := nat_div_spec x.natAbs y.natAbs (by omega)
  have hq : (0 : ℚ) ≤ ((x.natAbs / y.natAbs : ℕ) : ℚ) := by positivity
  rw [h1, h2]
  generalize ((x.natAbs / y.natAbs : ℕ) : ℚ) = q at *
  generalize ((x.natAbs : ℕ) : ℚ) / ((y.natAbs : ℕ) : ℚ) = F at *
  have hF : 0 ≤ F := le_trans hq h3
  have e1 : |ε * q| = q := by
    rcases hε with rfl | rfl
    · rw [one_mul, abs_of_nonneg hq]
    · rw [neg_one_mul, abs_neg, abs_of_nonneg hq]
  have e2 : |ε * F| = F := by
    rcases hε with rfl | rfl
    · rw [one_mul, abs_of_nonneg hF]
    · rw [neg_one_mul, abs_neg, abs_of_nonneg hF]
  have e3 : ε * q * (ε * F) = q * F := by
    rcases hε with rfl | rfl <;> ring
  rw [e1, e2, e3]
  exact ⟨h3, h4, mul_nonneg hq hF⟩

theorem rem_def (a b : Dec) :
    Dec.rem a b = ⟨Int.tmod (Dec.align a b).1 (Dec.align a b).2.1, max a.scale b.scale⟩ := rfl

/-- `%` is exact: `a % b = a - b * t` where the integer `t` is `a / b` truncated toward zero
(`|t| ≤ |a/b| < |t| + 1` and `t` has the sign of `a/b`). -/
theorem rem_exact (a b : Dec) (hb : value b ≠ 0) :
    ∃ t : ℤ, value (Dec.rem a b) = value a - value b * t ∧
      |(t : ℚ)| ≤ |value a / value b| ∧ |value a / value b| < |(t : ℚ)| + 1 ∧
      0 ≤ (t : ℚ) * (value a / value b) := by
  have hy : (Dec.align a b).2.1 ≠ 0 := by
    intro h
    have := align_snd a b
    rw [h] at this
    simp only [Int.cast_zero] at this
    rcases mul_eq_zero.1 this.symm with h' | h'
    · exact hb h'
    · exact absurd h' (ne_of_gt (ten_zpow_pos _))
  refine ⟨Int.tdiv (Dec.align a b).1 (Dec.align a b).2.1, ?_, ?_⟩
  · rw [rem_def]
    apply value_of_scaled
    rw [Int.tmod_def]
    push_cast
    rw [align_fst, align_snd]; ring
  · have := tdiv_spec (Dec.align a b).1 (Dec.align a b).2.1 hy
    rw [align_fst, align_snd, mul_div_mul_right _ _ (ne_of_gt (ten_zpow_pos _))] at this
    exact this

theorem cast_abs_eq (m : ℤ) : |(m : ℚ)| = ((m.natAbs : ℕ) : ℚ) := by
  rw [Nat.cast_natAbs, Int.cast_abs]

theorem abs_value (d : Dec) : |value d| = ((d.mant.natAbs : ℕ) : ℚ) * (10 : ℚ) ^ (-d.scale) := by
  rw [value, abs_mul, abs_of_pos (ten_zpow_pos _), cast_abs_eq]

/-- the remainder is smaller in magnitude than the divisor -/
theorem rem_lt (a b : Dec) (hb : value b ≠ 0) : |value (Dec.rem a b)| < |value b| := by
  have hy : (Dec.align a b).2.1 ≠ 0 := by
    intro h
    have := align_snd a b
    rw [h] at this
    simp only [Int.cast_zero] at this
    rcases mul_eq_zero.1 this.symm with h' | h'
    · exact hb h'
    · exact absurd h' (ne_of_gt (ten_zpow_pos _))
  have hb2 : |value b| * (10 : ℚ) ^ (max a.scale b.scale) = (((Dec.align a b).2.1.natAbs : ℕ) : ℚ) := by
    rw [← cast_abs_eq, align_snd, abs_mul, abs_of_pos (ten_zpow_pos _)]
  have hr : |value (Dec.rem a b)| * (10 : ℚ) ^ (max a.scale b.scale)
      = (((Dec.align a b).1.natAbs % (Dec.align a b).2.1.natAbs : ℕ) : ℚ) := by
    rw [rem_def, abs_value, ← Int.natAbs_tmod, mul_assoc, ← zpow_add₀ ten_ne]; simp
  have hlt : (((Dec.align a b).1.natAbs % (Dec.align a b).2.1.natAbs : ℕ) : ℚ)
      < (((Dec.align a b).2.1.natAbs : ℕ) : ℚ) := by
    exact_mod_cast Nat.mod_lt _ (by omega)
  rw [← hr, ← hb2] at hlt
  exact lt_of_mul_lt_mul_right hlt (ten_zpow_pos _).le

/-- the remainder has the sign of the dividend (or is zero) -/
theorem rem_sign (a b : Dec) : 0 ≤ value (Dec.rem a b) * value a := by
  have h : 0 ≤ Int.tmod (Dec.align a b).1 (Dec.align a b).2.1 * (Dec.align a b).1 := by
    generalize (Dec.align a b).1 = x
    generalize (Dec.align a b).2.1 = y
    rcases le_or_gt 0 x with hx | hx
    · exact mul_nonneg (Int.tmod_nonneg y hx) hx
    · have : 0 ≤ Int.tmod (-x) y := Int.tmod_nonneg y (by omega)
      rw [Int.neg_tmod] at this
      exact mul_nonneg_of_nonpos_of_nonpos (by omega) hx.le
  have h' : (0 : ℚ) ≤ ((Int.tmod (Dec.align a b).1 (Dec.align a b).2.1 * (Dec.align a b).1 : ℤ) : ℚ) := by
    exact_mod_cast h
  rw [Int.cast_mul, align_fst] at h'
  rw [rem_def, value_mk]
  have hp := ten_zpow_pos (max a.scale b.scale)
  have hp2 := ten_zpow_pos (-(max a.scale b.scale))
  have e : ((Int.tmod (Dec.align a b).1 (Dec.align a b).2.1 : ℤ) : ℚ) * (10 : ℚ) ^ (-(max a.scale b.scale)) * value a
      = (((Int.tmod (Dec.align a b).1 (Dec.align a b).2.1 : ℤ) : ℚ) * (value a * (10 : ℚ) ^ (max a.scale b.scale)))
        * ((10 : ℚ) ^ (-(max a.scale b.scale)) * (10 : ℚ) ^ (-(max a.scale b.scale))) := by
    rw [zpow_neg]; field_simp
  rw [e]
  exact mul_nonneg h' (mul_pos hp2 hp2).le


/-! ### spelling independence of the arithmetic results, examples -/

theorem render_add_congr (a a' b b' : Dec) (ha : value a = value a') (hb : value b = value b') :
    Dec.render (Dec.add a b) = Dec.render (Dec.add a' b') :=
  render_eq_of_value_eq _ _ (by rw [value_add, value_add, ha, hb])

theorem render_sub_congr (a a' b b' : Dec) (ha : value a = value a') (hb : value b = value b') :
    Dec.render (Dec.sub a b) = Dec.render (Dec.sub a' b') :=
  render_eq_of_value_eq _ _ (by rw [value_sub, value_sub, ha, hb])

theorem render_mul_congr (a a' b b' : Dec) (ha : value a = value a') (hb : value b = value b') :
    Dec.render (Dec.mul a b) = Dec.render (Dec.mul a' b') :=
  render_eq_of_value_eq _ _ (by rw [value_mul, value_mul, ha, hb])

theorem render_abs_congr (a a' : Dec) (ha : value a = value a') :
    Dec.render (Dec.abs a) = Dec.render (Dec.abs a') :=
  render_eq_of_value_eq _ _ (by rw [value_abs, value_abs, ha])

theorem cmp_congr (a a' b b' : Dec) (ha : value a = value a') (hb : value b = value b') :
    Dec.cmp a b = Dec.cmp a' b' := by
  rw [cmp_exact, cmp_exact, ha, hb]

-- 0.1 + 0.2 = 0.3 exactly
example : Dec.render (Dec.add ⟨1, 1⟩ ⟨2, 1⟩) = "0.3".toList := by decide
-- 1.0 = 1
example : Dec.cmp ⟨10, 1⟩ ⟨1, 0⟩ = .eq := by decide
example : Dec.normalize ⟨1500, 2⟩ = ⟨15, 0⟩ := by decide
example : Dec.normalize ⟨1500, 2⟩ = Dec.normalize ⟨15, 0⟩ := (normalize_eq_iff _ _).2 (by norm_num [value])
-- ties to even: 2.5 ↦ 2, 3.5 ↦ 4, -2.5 ↦ -2
example : Dec.round0 ⟨25, 1⟩ = ⟨2, 0⟩ ∧ Dec.round0 ⟨35, 1⟩ = ⟨4, 0⟩ ∧ Dec.round0 ⟨-25, 1⟩ = ⟨-2, 0⟩ := by decide
example : |value (Dec.round0 ⟨25, 1⟩) - value ⟨25, 1⟩| = 1 / 2 := by
  have : Dec.round0 ⟨25, 1⟩ = ⟨2, 0⟩ := by decide
  rw [this]; norm_num [value]
-- 7.5 % 2 = 1.5, -7.5 % 2 = -1.5
example : Dec.rem ⟨75, 1⟩ ⟨2, 0⟩ = ⟨15, 1⟩ ∧ Dec.rem ⟨-75, 1⟩ ⟨2, 0⟩ = ⟨-15, 1⟩ := by decide
example : value ⟨2, 0⟩ ≠ 0 := by norm_num [value]
example : Dec.parse "123".toList = some ⟨123, 0⟩ := parse_digits _ (by decide) (by decide)
example : Dec.parse "1.50".toList = some ⟨150, 2⟩ :=
  parse_digits_dot "1".toList "50".toList (by decide) (by decide) (by decide)
example : parseU64 (toBytes (Nat.toDigits 10 18446744073709551615)) = some 18446744073709551615 :=
  parseU64_print _ (by norm_num)
example : parseI64Neg (toBytes (Nat.toDigits 10 9223372036854775808)) = .ok (-9223372036854775808) :=
  parseI64Neg_print 9223372036854775808 (by norm_num)
example : Canon ⟨15, 0⟩ := Or.inr (by decide)


end Jawk.DecExact

/- axioms check (all ⊆ {propext, Classical.choice, Quot.sound}):
#print axioms Jawk.DecExact.value_add
#print axioms Jawk.DecExact.cmp_exact
#print axioms Jawk.DecExact.normalize_eq_iff
#print axioms Jawk.DecExact.value_round0
#print axioms Jawk.DecExact.round0_tie_even
#print axioms Jawk.DecExact.rem_exact
#print axioms Jawk.DecExact.parse_signed_dot_exp
#print axioms Jawk.DecExact.parse_trailing_zero
#print axioms Jawk.DecExact.digitsToNat_toDigits
#print axioms Jawk.DecExact.parseU64_print
#print axioms Jawk.DecExact.parseI64Neg_print
-/
