/-
  Property C04: expressions evaluate to what the documentation of each function
  (`/repo/src/functions/**/<name>.rs`, `add_description_line` / `add_example`) prescribes.

  Every law is stated for arbitrary argument EXPRESSIONS `a b … : Expr`; what the arguments
  evaluate to is given by hypotheses `eval orc fuel a ctx = .ok …`, so the laws do not depend
  on how the arguments are spelled, and hold for collections of every size.
  `eval … = .ok none` is the evaluator's "nothing".
-/
import Jawk.Model.Eval
namespace Jawk.EvalLaws
open Jawk

/-! ## Dispatch: `callFn` tries the groups in order; a name of a later group is skipped by the earlier ones -/
section Dispatch
variable (ev : Ev) (args : List Expr) (ctx : Ctx)

theorem skipB_first : callBasic ev "first" args ctx = none := rfl
theorem skipB_last : callBasic ev "last" args ctx = none := rfl
theorem skipB_join : callBasic ev "join" args ctx = none := rfl
theorem skipB_pop : callBasic ev "pop" args ctx = none := rfl
theorem skipB_pop_first : callBasic ev "pop_first" args ctx = none := rfl
theorem skipB_push : callBasic ev "push" args ctx = none := rfl
theorem skipB_push_front : callBasic ev "push_front" args ctx = none := rfl
theorem skipB_reverese : callBasic ev "reverese" args ctx = none := rfl
theorem skipB_map : callBasic ev "map" args ctx = none := rfl
theorem skipB_filter : callBasic ev "filter" args ctx = none := rfl
theorem skipB_keys : callBasic ev "keys" args ctx = none := rfl
theorem skipB_values : callBasic ev "values" args ctx = none := rfl
theorem skipB_entries : callBasic ev "entries" args ctx = none := rfl
theorem skipB_head : callBasic ev "head" args ctx = none := rfl
theorem skipB_tail : callBasic ev "tail" args ctx = none := rfl
theorem skipB_add : callBasic ev "+" args ctx = none := rfl
theorem skipL_keys : callList ev "keys" args ctx = none := rfl
theorem skipL_values : callList ev "values" args ctx = none := rfl
theorem skipL_entries : callList ev "entries" args ctx = none := rfl
theorem skipL_head : callList ev "head" args ctx = none := rfl
theorem skipL_tail : callList ev "tail" args ctx = none := rfl
theorem skipL_add : callList ev "+" args ctx = none := rfl
theorem skipO_head : callObject ev "head" args ctx = none := rfl
theorem skipO_tail : callObject ev "tail" args ctx = none := rfl
theorem skipO_add : callObject ev "+" args ctx = none := rfl
theorem skipN_head : callNumber ev "head" args ctx = none := rfl
theorem skipN_tail : callNumber ev "tail" args ctx = none := rfl

end Dispatch

/-- reduces a call on a literal function name with a literal argument list, given the values of the arguments -/
macro "call_simp" "[" ts:Lean.Parser.Tactic.simpLemma,* "]" : tactic =>
  `(tactic| (
    simp only [eval, callFn, skipB_first, skipB_last, skipB_join, skipB_pop, skipB_pop_first, skipB_push,
      skipB_push_front, skipB_reverese, skipB_map, skipB_filter, skipB_keys, skipB_values, skipB_entries,
      skipB_head, skipB_tail, skipB_add, skipL_keys, skipL_values, skipL_entries, skipL_head, skipL_tail,
      skipL_add, skipO_head, skipO_tail, skipO_add, skipN_head, skipN_tail]
    simp only [callBasic, callList, callObject, callNumber, callString,
      applyArg, List.getElem?_cons_zero, List.getElem?_cons_succ, List.getElem?_nil,
      List.drop_succ_cons, List.drop_zero, mapM', List.filterMap_cons, List.filterMap_nil, id,
      bind, Except.bind, pure, Except.pure, usizeArg, strArg, numArg, Num.toUsize?, jusize, jbool, $ts,*]))

variable (orc : Oracles) (fuel : Nat) (ctx : Ctx)

/-! ## 1. `take`: "Take the first N of element in an array, object of string" -/

theorem take_arr (a b : Expr) (l : List JV) (n : Nat)
    (ha : eval orc fuel a ctx = .ok (some (.arr l))) (hb : eval orc fuel b ctx = .ok (some (.num (.pos n)))) :
    eval orc (fuel + 1) (.call "take" [a, b]) ctx = .ok (some (.arr (l.take n))) := by
  call_simp [ha, hb]

theorem take_obj (a b : Expr) (m : List (Str × JV)) (n : Nat)
    (ha : eval orc fuel a ctx = .ok (some (.obj m))) (hb : eval orc fuel b ctx = .ok (some (.num (.pos n)))) :
    eval orc (fuel + 1) (.call "take" [a, b]) ctx = .ok (some (.obj (m.take n))) := by
  call_simp [ha, hb]

theorem take_str (a b : Expr) (s : Str) (n : Nat)
    (ha : eval orc fuel a ctx = .ok (some (.str s))) (hb : eval orc fuel b ctx = .ok (some (.num (.pos n)))) :
    eval orc (fuel + 1) (.call "take" [a, b]) ctx = .ok (some (.str (s.take n))) := by
  call_simp [ha, hb]

/-- `take 0` is the empty collection -/
theorem take_arr_zero (a b : Expr) (l : List JV)
    (ha : eval orc fuel a ctx = .ok (some (.arr l))) (hb : eval orc fuel b ctx = .ok (some (.num (.pos 0)))) :
    eval orc (fuel + 1) (.call "take" [a, b]) ctx = .ok (some (.arr [])) := by
  rw [take_arr orc fuel ctx a b l 0 ha hb, List.take_zero]

theorem take_obj_zero (a b : Expr) (m : List (Str × JV))
    (ha : eval orc fuel a ctx = .ok (some (.obj m))) (hb : eval orc fuel b ctx = .ok (some (.num (.pos 0)))) :
    eval orc (fuel + 1) (.call "take" [a, b]) ctx = .ok (some (.obj [])) := by
  rw [take_obj orc fuel ctx a b m 0 ha hb, List.take_zero]

theorem take_str_zero (a b : Expr) (s : Str)
    (ha : eval orc fuel a ctx = .ok (some (.str s))) (hb : eval orc fuel b ctx = .ok (some (.num (.pos 0)))) :
    eval orc (fuel + 1) (.call "take" [a, b]) ctx = .ok (some (.str [])) := by
  rw [take_str orc fuel ctx a b s 0 ha hb, List.take_zero]

/-- `take n` with `n ≥ size` is the whole collection -/
theorem take_arr_all (a b : Expr) (l : List JV) (n : Nat) (hn : l.length ≤ n)
    (ha : eval orc fuel a ctx = .ok (some (.arr l))) (hb : eval orc fuel b ctx = .ok (some (.num (.pos n)))) :
    eval orc (fuel + 1) (.call "take" [a, b]) ctx = .ok (some (.arr l)) := by
  rw [take_arr orc fuel ctx a b l n ha hb, List.take_of_length_le hn]

theorem take_obj_all (a b : Expr) (m : List (Str × JV)) (n : Nat) (hn : m.length ≤ n)
    (ha : eval orc fuel a ctx = .ok (some (.obj m))) (hb : eval orc fuel b ctx = .ok (some (.num (.pos n)))) :
    eval orc (fuel + 1) (.call "take" [a, b]) ctx = .ok (some (.obj m)) := by
  rw [take_obj orc fuel ctx a b m n ha hb, List.take_of_length_le hn]

theorem take_str_all (a b : Expr) (s : Str) (n : Nat) (hn : s.length ≤ n)
    (ha : eval orc fuel a ctx = .ok (some (.str s))) (hb : eval orc fuel b ctx = .ok (some (.num (.pos n)))) :
    eval orc (fuel + 1) (.call "take" [a, b]) ctx = .ok (some (.str s)) := by
  rw [take_str orc fuel ctx a b s n ha hb, List.take_of_length_le hn]

/-- the result of `take` is a prefix (same elements, same order) of exactly `min n size` elements -/
theorem take_arr_prefix (a b : Expr) (l : List JV) (n : Nat)
    (ha : eval orc fuel a ctx = .ok (some (.arr l))) (hb : eval orc fuel b ctx = .ok (some (.num (.pos n)))) :
    ∃ r, eval orc (fuel + 1) (.call "take" [a, b]) ctx = .ok (some (.arr r)) ∧
      r <+: l ∧ r.Sublist l ∧ r.length = min n l.length :=
  ⟨_, take_arr orc fuel ctx a b l n ha hb, List.take_prefix n l, List.take_sublist n l, List.length_take⟩

theorem take_obj_prefix (a b : Expr) (m : List (Str × JV)) (n : Nat)
    (ha : eval orc fuel a ctx = .ok (some (.obj m))) (hb : eval orc fuel b ctx = .ok (some (.num (.pos n)))) :
    ∃ r, eval orc (fuel + 1) (.call "take" [a, b]) ctx = .ok (some (.obj r)) ∧
      r <+: m ∧ r.Sublist m ∧ r.length = min n m.length :=
  ⟨_, take_obj orc fuel ctx a b m n ha hb, List.take_prefix n m, List.take_sublist n m, List.length_take⟩

theorem take_str_prefix (a b : Expr) (s : Str) (n : Nat)
    (ha : eval orc fuel a ctx = .ok (some (.str s))) (hb : eval orc fuel b ctx = .ok (some (.num (.pos n)))) :
    ∃ r, eval orc (fuel + 1) (.call "take" [a, b]) ctx = .ok (some (.str r)) ∧
      r <+: s ∧ r.Sublist s ∧ r.length = min n s.length :=
  ⟨_, take_str orc fuel ctx a b s n ha hb, List.take_prefix n s, List.take_sublist n s, List.length_take⟩

example : eval {} 10 (.call "take" [.const (.arr [.null, .bool true]), .const (.num (.pos 0))]) {} = .ok (some (.arr [])) := by
  rfl
example : eval {} 10 (.call "take" [.const (.arr [.null, .bool true, .null]), .const (.num (.pos 2))]) {}
    = .ok (some (.arr [.null, .bool true])) :=
  take_arr {} 9 {} _ _ [.null, .bool true, .null] 2 rfl rfl
example : eval {} 10 (.call "take" [.const (.str "abc".toList), .const (.num (.pos 7))]) {}
    = .ok (some (.str "abc".toList)) :=
  take_str_all {} 9 {} _ _ _ 7 (by decide) rfl rfl

/-! ## 2. `take_last`: "Take the last N of element in an array, object of string" -/

theorem take_last_arr (a b : Expr) (l : List JV) (n : Nat)
    (ha : eval orc fuel a ctx = .ok (some (.arr l))) (hb : eval orc fuel b ctx = .ok (some (.num (.pos n)))) :
    eval orc (fuel + 1) (.call "take_last" [a, b]) ctx = .ok (some (.arr (l.drop (l.length - n)))) := by
  call_simp [ha, hb]

theorem take_last_obj (a b : Expr) (m : List (Str × JV)) (n : Nat)
    (ha : eval orc fuel a ctx = .ok (some (.obj m))) (hb : eval orc fuel b ctx = .ok (some (.num (.pos n)))) :
    eval orc (fuel + 1) (.call "take_last" [a, b]) ctx = .ok (some (.obj (m.drop (m.length - n)))) := by
  call_simp [ha, hb]

theorem take_last_str (a b : Expr) (s : Str) (n : Nat)
    (ha : eval orc fuel a ctx = .ok (some (.str s))) (hb : eval orc fuel b ctx = .ok (some (.num (.pos n)))) :
    eval orc (fuel + 1) (.call "take_last" [a, b]) ctx = .ok (some (.str (s.drop (s.length - n)))) := by
  call_simp [ha, hb]

/-- the last `n` elements: a suffix of exactly `min n size` elements, so that
`whole = (the first size - n) ++ result` -/
theorem drop_length_sub {α} (l : List α) (n : Nat) :
    l.drop (l.length - n) <:+ l ∧ (l.drop (l.length - n)).Sublist l ∧
    (l.drop (l.length - n)).length = min n l.length ∧
    l.take (l.length - n) ++ l.drop (l.length - n) = l :=
  ⟨List.drop_suffix _ l, List.drop_sublist _ l, by rw [List.length_drop]; omega, List.take_append_drop _ l⟩

theorem take_last_arr_suffix (a b : Expr) (l : List JV) (n : Nat)
    (ha : eval orc fuel a ctx = .ok (some (.arr l))) (hb : eval orc fuel b ctx = .ok (some (.num (.pos n)))) :
    ∃ r, eval orc (fuel + 1) (.call "take_last" [a, b]) ctx = .ok (some (.arr r)) ∧
      r <:+ l ∧ r.Sublist l ∧ r.length = min n l.length :=
  ⟨_, take_last_arr orc fuel ctx a b l n ha hb, (drop_length_sub l n).1, (drop_length_sub l n).2.1, (drop_length_sub l n).2.2.1⟩

theorem take_last_obj_suffix (a b : Expr) (m : List (Str × JV)) (n : Nat)
    (ha : eval orc fuel a ctx = .ok (some (.obj m))) (hb : eval orc fuel b ctx = .ok (some (.num (.pos n)))) :
    ∃ r, eval orc (fuel + 1) (.call "take_last" [a, b]) ctx = .ok (some (.obj r)) ∧
      r <:+ m ∧ r.Sublist m ∧ r.length = min n m.length :=
  ⟨_, take_last_obj orc fuel ctx a b m n ha hb, (drop_length_sub m n).1, (drop_length_sub m n).2.1, (drop_length_sub m n).2.2.1⟩

theorem take_last_str_suffix (a b : Expr) (s : Str) (n : Nat)
    (ha : eval orc fuel a ctx = .ok (some (.str s))) (hb : eval orc fuel b ctx = .ok (some (.num (.pos n)))) :
    ∃ r, eval orc (fuel + 1) (.call "take_last" [a, b]) ctx = .ok (some (.str r)) ∧
      r <:+ s ∧ r.Sublist s ∧ r.length = min n s.length :=
  ⟨_, take_last_str orc fuel ctx a b s n ha hb, (drop_length_sub s n).1, (drop_length_sub s n).2.1, (drop_length_sub s n).2.2.1⟩

/-- `take_last 0` is the empty collection -/
theorem take_last_arr_zero (a b : Expr) (l : List JV)
    (ha : eval orc fuel a ctx = .ok (some (.arr l))) (hb : eval orc fuel b ctx = .ok (some (.num (.pos 0)))) :
    eval orc (fuel + 1) (.call "take_last" [a, b]) ctx = .ok (some (.arr [])) := by
  rw [take_last_arr orc fuel ctx a b l 0 ha hb, Nat.sub_zero, List.drop_length]

theorem take_last_obj_zero (a b : Expr) (m : List (Str × JV))
    (ha : eval orc fuel a ctx = .ok (some (.obj m))) (hb : eval orc fuel b ctx = .ok (some (.num (.pos 0)))) :
    eval orc (fuel + 1) (.call "take_last" [a, b]) ctx = .ok (some (.obj [])) := by
  rw [take_last_obj orc fuel ctx a b m 0 ha hb, Nat.sub_zero, List.drop_length]

theorem take_last_str_zero (a b : Expr) (s : Str)
    (ha : eval orc fuel a ctx = .ok (some (.str s))) (hb : eval orc fuel b ctx = .ok (some (.num (.pos 0)))) :
    eval orc (fuel + 1) (.call "take_last" [a, b]) ctx = .ok (some (.str [])) := by
  rw [take_last_str orc fuel ctx a b s 0 ha hb, Nat.sub_zero, List.drop_length]

/-- `take_last n` with `n ≥ size` is the whole collection -/
theorem take_last_arr_all (a b : Expr) (l : List JV) (n : Nat) (hn : l.length ≤ n)
    (ha : eval orc fuel a ctx = .ok (some (.arr l))) (hb : eval orc fuel b ctx = .ok (some (.num (.pos n)))) :
    eval orc (fuel + 1) (.call "take_last" [a, b]) ctx = .ok (some (.arr l)) := by
  rw [take_last_arr orc fuel ctx a b l n ha hb, Nat.sub_eq_zero_of_le hn, List.drop_zero]

theorem take_last_obj_all (a b : Expr) (m : List (Str × JV)) (n : Nat) (hn : m.length ≤ n)
    (ha : eval orc fuel a ctx = .ok (some (.obj m))) (hb : eval orc fuel b ctx = .ok (some (.num (.pos n)))) :
    eval orc (fuel + 1) (.call "take_last" [a, b]) ctx = .ok (some (.obj m)) := by
  rw [take_last_obj orc fuel ctx a b m n ha hb, Nat.sub_eq_zero_of_le hn, List.drop_zero]

theorem take_last_str_all (a b : Expr) (s : Str) (n : Nat) (hn : s.length ≤ n)
    (ha : eval orc fuel a ctx = .ok (some (.str s))) (hb : eval orc fuel b ctx = .ok (some (.num (.pos n)))) :
    eval orc (fuel + 1) (.call "take_last" [a, b]) ctx = .ok (some (.str s)) := by
  rw [take_last_str orc fuel ctx a b s n ha hb, Nat.sub_eq_zero_of_le hn, List.drop_zero]

/-! ### `sub`: "creates a new list that start from the second arguments and has the size of the third argument" -/

theorem sub_arr (a b c : Expr) (l : List JV) (start len : Nat)
    (ha : eval orc fuel a ctx = .ok (some (.arr l))) (hb : eval orc fuel b ctx = .ok (some (.num (.pos start))))
    (hc : eval orc fuel c ctx = .ok (some (.num (.pos len)))) :
    eval orc (fuel + 1) (.call "sub" [a, b, c]) ctx = .ok (some (.arr ((l.drop start).take len))) := by
  call_simp [ha, hb, hc]

theorem sub_obj (a b c : Expr) (m : List (Str × JV)) (start len : Nat)
    (ha : eval orc fuel a ctx = .ok (some (.obj m))) (hb : eval orc fuel b ctx = .ok (some (.num (.pos start))))
    (hc : eval orc fuel c ctx = .ok (some (.num (.pos len)))) :
    eval orc (fuel + 1) (.call "sub" [a, b, c]) ctx = .ok (some (.obj ((m.drop start).take len))) := by
  call_simp [ha, hb, hc]

theorem sub_str (a b c : Expr) (s : Str) (start len : Nat)
    (ha : eval orc fuel a ctx = .ok (some (.str s))) (hb : eval orc fuel b ctx = .ok (some (.num (.pos start))))
    (hc : eval orc fuel c ctx = .ok (some (.num (.pos len)))) :
    eval orc (fuel + 1) (.call "sub" [a, b, c]) ctx = .ok (some (.str ((s.drop start).take len))) := by
  call_simp [ha, hb, hc]

/-- shape of `sub`: a contiguous piece, in order, of `min len (size - start)` elements, whose `i`-th element is
element `start + i` of the whole -/
theorem drop_take_spec {α} (l : List α) (start len : Nat) :
    (l.drop start).take len <:+: l ∧ ((l.drop start).take len).Sublist l ∧
    ((l.drop start).take len).length = min len (l.length - start) ∧
    ∀ i, i < len → ((l.drop start).take len)[i]? = l[start + i]? := by
  refine ⟨?_, ?_, by simp, ?_⟩
  · exact List.IsInfix.trans (List.take_prefix _ _).isInfix (List.drop_suffix _ _).isInfix
  · exact (List.take_sublist _ _).trans (List.drop_sublist _ _)
  · intro i hi
    rw [List.getElem?_take_of_lt hi, List.getElem?_drop]

/-- `sub x 0 n` is `take x n` -/
theorem sub_zero_eq_take_arr (a b c : Expr) (l : List JV) (len : Nat)
    (ha : eval orc fuel a ctx = .ok (some (.arr l))) (hb : eval orc fuel b ctx = .ok (some (.num (.pos 0))))
    (hc : eval orc fuel c ctx = .ok (some (.num (.pos len)))) :
    eval orc (fuel + 1) (.call "sub" [a, b, c]) ctx = eval orc (fuel + 1) (.call "take" [a, c]) ctx := by
  rw [sub_arr orc fuel ctx a b c l 0 len ha hb hc, take_arr orc fuel ctx a c l len ha hc, List.drop_zero]

/-- a start beyond the end gives the empty collection -/
theorem sub_arr_beyond (a b c : Expr) (l : List JV) (start len : Nat) (h : l.length ≤ start)
    (ha : eval orc fuel a ctx = .ok (some (.arr l))) (hb : eval orc fuel b ctx = .ok (some (.num (.pos start))))
    (hc : eval orc fuel c ctx = .ok (some (.num (.pos len)))) :
    eval orc (fuel + 1) (.call "sub" [a, b, c]) ctx = .ok (some (.arr [])) := by
  rw [sub_arr orc fuel ctx a b c l start len ha hb hc, List.drop_of_length_le h, List.take_nil]

/-! ### `first`, `last`, `pop`, `pop_first`, `push`, `push_front`, `reverese` -/

/-- "The first item in a list." (nothing for the empty list) -/
theorem first_arr (a : Expr) (l : List JV) (ha : eval orc fuel a ctx = .ok (some (.arr l))) :
    eval orc (fuel + 1) (.call "first" [a]) ctx = .ok l.head? := by
  call_simp [ha]

/-- "The last item in a list." (nothing for the empty list) -/
theorem last_arr (a : Expr) (l : List JV) (ha : eval orc fuel a ctx = .ok (some (.arr l))) :
    eval orc (fuel + 1) (.call "last" [a]) ctx = .ok l.getLast? := by
  call_simp [ha]

/-- "will return the list without it's last argument" -/
theorem pop_arr (a : Expr) (l : List JV) (ha : eval orc fuel a ctx = .ok (some (.arr l))) :
    eval orc (fuel + 1) (.call "pop" [a]) ctx = .ok (some (.arr l.dropLast)) := by
  call_simp [ha]

/-- "will return the list without it's first argument" -/
theorem pop_first_arr (a : Expr) (l : List JV) (ha : eval orc fuel a ctx = .ok (some (.arr l))) :
    eval orc (fuel + 1) (.call "pop_first" [a]) ctx = .ok (some (.arr l.tail)) := by
  call_simp [ha]
  simp

/-- "Reveres the order of a list." -/
theorem reverese_arr (a : Expr) (l : List JV) (ha : eval orc fuel a ctx = .ok (some (.arr l))) :
    eval orc (fuel + 1) (.call "reverese" [a]) ctx = .ok (some (.arr l.reverse)) := by
  call_simp [ha]

/-- "will iterate over all the other arguments and add them to the list if they exists": general form,
`vs` are the values of the other arguments -/
theorem push_arr_many (a : Expr) (xs : List Expr) (l : List JV) (vs : List (Option JV))
    (ha : eval orc fuel a ctx = .ok (some (.arr l)))
    (hxs : mapM' (fun e => eval orc fuel e ctx) xs = .ok vs) :
    eval orc (fuel + 1) (.call "push" (a :: xs)) ctx = .ok (some (.arr (l ++ vs.filterMap id))) := by
  call_simp [ha, hxs]

theorem push_arr (a x : Expr) (l : List JV) (v : JV)
    (ha : eval orc fuel a ctx = .ok (some (.arr l))) (hx : eval orc fuel x ctx = .ok (some v)) :
    eval orc (fuel + 1) (.call "push" [a, x]) ctx = .ok (some (.arr (l ++ [v]))) := by
  call_simp [ha, hx]

/-- an argument that is nothing is not added -/
theorem push_arr_nothing (a x : Expr) (l : List JV)
    (ha : eval orc fuel a ctx = .ok (some (.arr l))) (hx : eval orc fuel x ctx = .ok none) :
    eval orc (fuel + 1) (.call "push" [a, x]) ctx = .ok (some (.arr l)) := by
  call_simp [ha, hx]
  simp

theorem push_arr2 (a x y : Expr) (l : List JV) (v w : JV)
    (ha : eval orc fuel a ctx = .ok (some (.arr l))) (hx : eval orc fuel x ctx = .ok (some v))
    (hy : eval orc fuel y ctx = .ok (some w)) :
    eval orc (fuel + 1) (.call "push" [a, x, y]) ctx = .ok (some (.arr (l ++ [v, w]))) := by
  call_simp [ha, hx, hy]

theorem push_front_arr_many (a : Expr) (xs : List Expr) (l : List JV) (vs : List (Option JV))
    (ha : eval orc fuel a ctx = .ok (some (.arr l)))
    (hxs : mapM' (fun e => eval orc fuel e ctx) xs = .ok vs) :
    eval orc (fuel + 1) (.call "push_front" (a :: xs)) ctx = .ok (some (.arr ((vs.filterMap id).reverse ++ l))) := by
  call_simp [ha, hxs]

theorem push_front_arr (a x : Expr) (l : List JV) (v : JV)
    (ha : eval orc fuel a ctx = .ok (some (.arr l))) (hx : eval orc fuel x ctx = .ok (some v)) :
    eval orc (fuel + 1) (.call "push_front" [a, x]) ctx = .ok (some (.arr (v :: l))) := by
  call_simp [ha, hx]
  simp

/-- each further argument is put in front of the previous ones -/
theorem push_front_arr2 (a x y : Expr) (l : List JV) (v w : JV)
    (ha : eval orc fuel a ctx = .ok (some (.arr l))) (hx : eval orc fuel x ctx = .ok (some v))
    (hy : eval orc fuel y ctx = .ok (some w)) :
    eval orc (fuel + 1) (.call "push_front" [a, x, y]) ctx = .ok (some (.arr (w :: v :: l))) := by
  call_simp [ha, hx, hy]
  simp

/-! composite laws (the inner call is an argument expression of the outer one) -/

/-- `reverese` is an involution -/
theorem reverese_reverese (a : Expr) (l : List JV) (ha : eval orc fuel a ctx = .ok (some (.arr l))) :
    eval orc (fuel + 2) (.call "reverese" [.call "reverese" [a]]) ctx = .ok (some (.arr l)) := by
  rw [reverese_arr orc (fuel + 1) ctx _ _ (reverese_arr orc fuel ctx a l ha), List.reverse_reverse]

/-- `pop (push l x) = l` -/
theorem pop_push (a x : Expr) (l : List JV) (v : JV)
    (ha : eval orc fuel a ctx = .ok (some (.arr l))) (hx : eval orc fuel x ctx = .ok (some v)) :
    eval orc (fuel + 2) (.call "pop" [.call "push" [a, x]]) ctx = .ok (some (.arr l)) := by
  rw [pop_arr orc (fuel + 1) ctx _ _ (push_arr orc fuel ctx a x l v ha hx), List.dropLast_concat]

/-- `last (push l x) = x` -/
theorem last_push (a x : Expr) (l : List JV) (v : JV)
    (ha : eval orc fuel a ctx = .ok (some (.arr l))) (hx : eval orc fuel x ctx = .ok (some v)) :
    eval orc (fuel + 2) (.call "last" [.call "push" [a, x]]) ctx = .ok (some v) := by
  rw [last_arr orc (fuel + 1) ctx _ _ (push_arr orc fuel ctx a x l v ha hx), List.getLast?_concat]

/-- `first (push_front l x) = x` and `pop_first (push_front l x) = l` -/
theorem first_push_front (a x : Expr) (l : List JV) (v : JV)
    (ha : eval orc fuel a ctx = .ok (some (.arr l))) (hx : eval orc fuel x ctx = .ok (some v)) :
    eval orc (fuel + 2) (.call "first" [.call "push_front" [a, x]]) ctx = .ok (some v) := by
  rw [first_arr orc (fuel + 1) ctx _ _ (push_front_arr orc fuel ctx a x l v ha hx), List.head?_cons]

theorem pop_first_push_front (a x : Expr) (l : List JV) (v : JV)
    (ha : eval orc fuel a ctx = .ok (some (.arr l))) (hx : eval orc fuel x ctx = .ok (some v)) :
    eval orc (fuel + 2) (.call "pop_first" [.call "push_front" [a, x]]) ctx = .ok (some (.arr l)) := by
  rw [pop_first_arr orc (fuel + 1) ctx _ _ (push_front_arr orc fuel ctx a x l v ha hx), List.tail_cons]

/-- `first` is `get 0`, and agrees with `take 1` -/
theorem first_eq_get_zero (a z : Expr) (l : List JV) (ha : eval orc fuel a ctx = .ok (some (.arr l)))
    (hz : eval orc fuel z ctx = .ok (some (.num (.pos 0)))) :
    eval orc (fuel + 1) (.call "first" [a]) ctx = eval orc (fuel + 1) (.call "get" [a, z]) ctx := by
  rw [first_arr orc fuel ctx a l ha]
  call_simp [ha, hz]
  cases l <;> rfl

/-! ### string `head` / `tail` -/

/-- "a string with the beggining of the first argument" -/
theorem head_str (a b : Expr) (s : Str) (n : Nat)
    (ha : eval orc fuel a ctx = .ok (some (.str s))) (hb : eval orc fuel b ctx = .ok (some (.num (.pos n)))) :
    eval orc (fuel + 1) (.call "head" [a, b]) ctx = .ok (some (.str (s.take n))) := by
  call_simp [ha, hb]

/-- `head` on a string is `take` on a string -/
theorem head_eq_take (a b : Expr) (s : Str) (n : Nat)
    (ha : eval orc fuel a ctx = .ok (some (.str s))) (hb : eval orc fuel b ctx = .ok (some (.num (.pos n)))) :
    eval orc (fuel + 1) (.call "head" [a, b]) ctx = eval orc (fuel + 1) (.call "take" [a, b]) ctx := by
  rw [head_str orc fuel ctx a b s n ha hb, take_str orc fuel ctx a b s n ha hb]

/-- "a string with the end of the first argument": the string WITHOUT its first `n` characters
(the whole string when it has fewer than `n`) -/
theorem tail_str (a b : Expr) (s : Str) (n : Nat)
    (ha : eval orc fuel a ctx = .ok (some (.str s))) (hb : eval orc fuel b ctx = .ok (some (.num (.pos n)))) :
    eval orc (fuel + 1) (.call "tail" [a, b]) ctx = .ok (some (.str (if s.length < n then s else s.drop n))) := by
  call_simp [ha, hb]

/-- the result of `tail` is a suffix, and `head s n ++ tail s n = s` whenever `n ≤ size` -/
theorem tail_str_suffix (a b : Expr) (s : Str) (n : Nat)
    (ha : eval orc fuel a ctx = .ok (some (.str s))) (hb : eval orc fuel b ctx = .ok (some (.num (.pos n)))) :
    ∃ r, eval orc (fuel + 1) (.call "tail" [a, b]) ctx = .ok (some (.str r)) ∧ r <:+ s ∧
      (n ≤ s.length → s.take n ++ r = s) := by
  refine ⟨_, tail_str orc fuel ctx a b s n ha hb, ?_, ?_⟩
  · split
    · exact List.suffix_refl s
    · exact List.drop_suffix n s
  · intro h
    rw [if_neg (by omega), List.take_append_drop]

/-! ## 3. `size`: "the number of element in an array, the number of keys in an object or the number of characters in a string" -/

theorem size_arr (a : Expr) (l : List JV) (ha : eval orc fuel a ctx = .ok (some (.arr l))) :
    eval orc (fuel + 1) (.call "size" [a]) ctx = .ok (some (.num (.pos l.length))) := by
  call_simp [ha]

theorem size_obj (a : Expr) (m : List (Str × JV)) (ha : eval orc fuel a ctx = .ok (some (.obj m))) :
    eval orc (fuel + 1) (.call "size" [a]) ctx = .ok (some (.num (.pos m.length))) := by
  call_simp [ha]

/-- characters (Unicode scalar values), not bytes -/
theorem size_str (a : Expr) (s : Str) (ha : eval orc fuel a ctx = .ok (some (.str s))) :
    eval orc (fuel + 1) (.call "size" [a]) ctx = .ok (some (.num (.pos s.length))) := by
  call_simp [ha]

/-- `size (push l x) = size l + 1` -/
theorem size_push (a x : Expr) (l : List JV) (v : JV)
    (ha : eval orc fuel a ctx = .ok (some (.arr l))) (hx : eval orc fuel x ctx = .ok (some v)) :
    eval orc (fuel + 2) (.call "size" [.call "push" [a, x]]) ctx = .ok (some (.num (.pos (l.length + 1)))) := by
  rw [size_arr orc (fuel + 1) ctx _ _ (push_arr orc fuel ctx a x l v ha hx), List.length_append]; rfl

/-- `size (take x n) = min n (size x)` -/
theorem size_take_arr (a b : Expr) (l : List JV) (n : Nat)
    (ha : eval orc fuel a ctx = .ok (some (.arr l))) (hb : eval orc fuel b ctx = .ok (some (.num (.pos n)))) :
    eval orc (fuel + 2) (.call "size" [.call "take" [a, b]]) ctx = .ok (some (.num (.pos (min n l.length)))) := by
  rw [size_arr orc (fuel + 1) ctx _ _ (take_arr orc fuel ctx a b l n ha hb), List.length_take]

theorem size_take_last_arr (a b : Expr) (l : List JV) (n : Nat)
    (ha : eval orc fuel a ctx = .ok (some (.arr l))) (hb : eval orc fuel b ctx = .ok (some (.num (.pos n)))) :
    eval orc (fuel + 2) (.call "size" [.call "take_last" [a, b]]) ctx = .ok (some (.num (.pos (min n l.length)))) := by
  rw [size_arr orc (fuel + 1) ctx _ _ (take_last_arr orc fuel ctx a b l n ha hb), (drop_length_sub l n).2.2.1]

/-- `size (reverese l) = size l` -/
theorem size_reverese (a : Expr) (l : List JV) (ha : eval orc fuel a ctx = .ok (some (.arr l))) :
    eval orc (fuel + 2) (.call "size" [.call "reverese" [a]]) ctx = .ok (some (.num (.pos l.length))) := by
  rw [size_arr orc (fuel + 1) ctx _ _ (reverese_arr orc fuel ctx a l ha), List.length_reverse]

example : eval {} 5 (.call "size" [.const (.str "añb".toList)]) {} = .ok (some (.num (.pos 3))) := by
  rw [size_str {} 4 {} _ "añb".toList rfl]; rfl
example : eval {} 5 (.call "size" [.call "push" [.const (.arr [.null]), .const (.bool true)]]) {} = .ok (some (.num (.pos 2))) :=
  size_push {} 3 {} _ _ [.null] (.bool true) rfl rfl
example : eval {} 5 (.call "take_last" [.const (.arr [.null, .bool true, .bool false]), .const (.num (.pos 2))]) {}
    = .ok (some (.arr [.bool true, .bool false])) :=
  take_last_arr {} 4 {} _ _ [.null, .bool true, .bool false] 2 rfl rfl
example : eval {} 5 (.call "sub" [.const (.str "123456".toList), .const (.num (.pos 1)), .const (.num (.pos 3))]) {}
    = .ok (some (.str "234".toList)) :=
  sub_str {} 4 {} _ _ _ "123456".toList 1 3 rfl rfl rfl
example : eval {} 5 (.call "tail" [.const (.str "test-123".toList), .const (.num (.pos 4))]) {}
    = .ok (some (.str "-123".toList)) :=
  tail_str {} 4 {} _ _ "test-123".toList 4 rfl rfl
example : eval {} 5 (.call "reverese" [.call "reverese" [.const (.arr [.null, .bool true])]]) {}
    = .ok (some (.arr [.null, .bool true])) :=
  reverese_reverese {} 3 {} _ [.null, .bool true] rfl

/-! ### `join`: "Join all the items in the list into a String. If list have non string items, it will return nuthing.
If the second argument is ommited, the items will be seperated by comma." -/

/-- the evaluator's `join` in terms of the model's loop `joinGo` (separator given) -/
theorem join_arr (a b : Expr) (l : List JV) (sep : Str)
    (ha : eval orc fuel a ctx = .ok (some (.arr l))) (hb : eval orc fuel b ctx = .ok (some (.str sep))) :
    eval orc (fuel + 1) (.call "join" [a, b]) ctx = .ok ((callList.joinGo sep true [] l).map JV.str) := by
  call_simp [ha, hb]
  rfl

/-- separator omitted: `", "` -/
theorem join_arr_default (a : Expr) (l : List JV) (ha : eval orc fuel a ctx = .ok (some (.arr l))) :
    eval orc (fuel + 1) (.call "join" [a]) ctx = .ok ((callList.joinGo ", ".toList true [] l).map JV.str) := by
  call_simp [ha]
  rfl

/-- after the first item every further string is preceded by the separator -/
theorem joinGo_strs_rest (sep acc : Str) (ss : List Str) :
    callList.joinGo sep false acc (ss.map JV.str) = some (acc ++ (ss.map (sep ++ ·)).flatten) := by
  induction ss generalizing acc with
  | nil => simp [callList.joinGo]
  | cons s ss ih =>
    simp only [List.map_cons, callList.joinGo, Bool.false_eq_true, if_false]
    rw [ih]
    simp [List.append_assoc]

theorem intercalate_cons_eq (sep s : Str) (ss : List Str) :
    s ++ (ss.map (sep ++ ·)).flatten = sep.intercalate (s :: ss) := by
  induction ss generalizing s with
  | nil => simp [List.intercalate]
  | cons t ss ih =>
    have h := ih t
    simp only [List.intercalate] at h ⊢
    simp only [List.map_cons, List.flatten_cons, List.intersperse_cons_cons, ← h, List.append_assoc]

/-- a list of strings is joined with the separator between consecutive items — empty strings included -/
theorem joinGo_strs (sep s : Str) (ss : List Str) :
    callList.joinGo sep true [] ((s :: ss).map JV.str) = some (sep.intercalate (s :: ss)) := by
  simp only [List.map_cons, callList.joinGo, if_true, List.nil_append, joinGo_strs_rest sep s ss]
  rw [intercalate_cons_eq]

theorem joinGo_nil (sep : Str) : callList.joinGo sep true [] [] = some [] := rfl

/-- an item that is not a string makes the result nothing -/
theorem joinGo_non_string (sep : Str) (first : Bool) (acc : Str) (l : List JV) (h : ∃ v ∈ l, ∀ s, v ≠ JV.str s) :
    callList.joinGo sep first acc l = none := by
  induction l generalizing acc first with
  | nil => simp at h
  | cons x xs ih =>
    obtain ⟨v, hv, hns⟩ := h
    cases x with
    | str s =>
      rw [callList.joinGo]
      apply ih
      rcases List.mem_cons.1 hv with rfl | h'
      · exact absurd rfl (hns s)
      · exact ⟨v, h', hns⟩
    | _ => simp [callList.joinGo]

theorem join_strs (a b : Expr) (s : Str) (ss : List Str) (sep : Str)
    (ha : eval orc fuel a ctx = .ok (some (.arr ((s :: ss).map JV.str))))
    (hb : eval orc fuel b ctx = .ok (some (.str sep))) :
    eval orc (fuel + 1) (.call "join" [a, b]) ctx = .ok (some (.str (sep.intercalate (s :: ss)))) := by
  rw [join_arr orc fuel ctx a b _ sep ha hb, joinGo_strs sep s ss]; rfl

theorem join_non_string (a b : Expr) (l : List JV) (sep : Str) (h : ∃ v ∈ l, ∀ s, v ≠ JV.str s)
    (ha : eval orc fuel a ctx = .ok (some (.arr l))) (hb : eval orc fuel b ctx = .ok (some (.str sep))) :
    eval orc (fuel + 1) (.call "join" [a, b]) ctx = .ok none := by
  rw [join_arr orc fuel ctx a b _ sep ha hb, joinGo_non_string sep true [] l h]; rfl

example : eval {} 5 (.call "join" [.const (.arr [.str "one".toList, .str "two".toList, .str "three".toList])]) {}
    = .ok (some (.str "one, two, three".toList)) := by
  rw [join_arr_default {} 4 {} _ _ rfl]; rfl
example : eval {} 5 (.call "join" [.const (.arr [.str "a".toList, .str "b".toList]), .const (.str ";".toList)]) {}
    = .ok (some (.str "a;b".toList)) :=
  join_strs {} 4 {} _ _ "a".toList ["b".toList] ";".toList rfl rfl
/-- an empty first item is an item like any other (repaired defect): `join ["", "a"]` is `", a"` -/
example : eval {} 5 (.call "join" [.const (.arr [.str [], .str "a".toList])]) {} = .ok (some (.str ", a".toList)) := by
  rw [join_arr_default {} 4 {} _ _ rfl]; rfl

/-! ## 4. `get` ("Get an item from an array by index or from a map by key"), `keys`, `values`, `entries` -/

theorem get_arr (a b : Expr) (l : List JV) (i : Nat)
    (ha : eval orc fuel a ctx = .ok (some (.arr l))) (hb : eval orc fuel b ctx = .ok (some (.num (.pos i)))) :
    eval orc (fuel + 1) (.call "get" [a, b]) ctx = .ok l[i]? := by
  call_simp [ha, hb]

theorem get_arr_lt (a b : Expr) (l : List JV) (i : Nat) (h : i < l.length)
    (ha : eval orc fuel a ctx = .ok (some (.arr l))) (hb : eval orc fuel b ctx = .ok (some (.num (.pos i)))) :
    eval orc (fuel + 1) (.call "get" [a, b]) ctx = .ok (some l[i]) := by
  rw [get_arr orc fuel ctx a b l i ha hb, List.getElem?_eq_getElem h]

/-- an index past the end gives nothing -/
theorem get_arr_out (a b : Expr) (l : List JV) (i : Nat) (h : l.length ≤ i)
    (ha : eval orc fuel a ctx = .ok (some (.arr l))) (hb : eval orc fuel b ctx = .ok (some (.num (.pos i)))) :
    eval orc (fuel + 1) (.call "get" [a, b]) ctx = .ok none := by
  rw [get_arr orc fuel ctx a b l i ha hb, List.getElem?_eq_none h]

theorem get_obj (a b : Expr) (m : List (Str × JV)) (k : Str)
    (ha : eval orc fuel a ctx = .ok (some (.obj m))) (hb : eval orc fuel b ctx = .ok (some (.str k))) :
    eval orc (fuel + 1) (.call "get" [a, b]) ctx = .ok (objGet? m k) := by
  call_simp [ha, hb]

/-- `objGet?` is the value of the first member with that key -/
theorem objGet?_eq_find (m : List (Str × JV)) (k : Str) :
    objGet? m k = (m.find? (fun kv => kv.1 == k)).map (·.2) := by
  induction m with
  | nil => rfl
  | cons kv m ih =>
    obtain ⟨k', v⟩ := kv
    by_cases h : k' = k <;> simp [objGet?, h, ih]

theorem objGet?_mem (m : List (Str × JV)) (k : Str) (v : JV) (h : objGet? m k = some v) : (k, v) ∈ m := by
  induction m with
  | nil => simp [objGet?] at h
  | cons kv m ih =>
    obtain ⟨k', v'⟩ := kv
    by_cases hk : k' = k
    · simp [objGet?, hk] at h; simp [hk, h]
    · simp [objGet?, hk] at h; exact List.mem_cons_of_mem _ (ih h)

theorem objGet?_none_iff (m : List (Str × JV)) (k : Str) : objGet? m k = none ↔ ∀ kv ∈ m, kv.1 ≠ k := by
  induction m with
  | nil => simp [objGet?]
  | cons kv m ih =>
    obtain ⟨k', v'⟩ := kv
    by_cases hk : k' = k <;> simp [objGet?, hk, ih]

/-- a key that is present gives a member of the object; an absent key gives nothing -/
theorem get_obj_present (a b : Expr) (m : List (Str × JV)) (k : Str) (v : JV) (h : objGet? m k = some v)
    (ha : eval orc fuel a ctx = .ok (some (.obj m))) (hb : eval orc fuel b ctx = .ok (some (.str k))) :
    eval orc (fuel + 1) (.call "get" [a, b]) ctx = .ok (some v) ∧ (k, v) ∈ m :=
  ⟨by rw [get_obj orc fuel ctx a b m k ha hb, h], objGet?_mem m k v h⟩

theorem get_obj_absent (a b : Expr) (m : List (Str × JV)) (k : Str) (h : ∀ kv ∈ m, kv.1 ≠ k)
    (ha : eval orc fuel a ctx = .ok (some (.obj m))) (hb : eval orc fuel b ctx = .ok (some (.str k))) :
    eval orc (fuel + 1) (.call "get" [a, b]) ctx = .ok none := by
  rw [get_obj orc fuel ctx a b m k ha hb, (objGet?_none_iff m k).2 h]

/-- "Get the list of keys from an object.": in member order -/
theorem keys_obj (a : Expr) (m : List (Str × JV)) (ha : eval orc fuel a ctx = .ok (some (.obj m))) :
    eval orc (fuel + 1) (.call "keys" [a]) ctx = .ok (some (.arr (m.map (fun kv => JV.str kv.1)))) := by
  call_simp [ha]

/-- "Get the list of values from an object.": in member order -/
theorem values_obj (a : Expr) (m : List (Str × JV)) (ha : eval orc fuel a ctx = .ok (some (.obj m))) :
    eval orc (fuel + 1) (.call "values" [a]) ctx = .ok (some (.arr (m.map (·.2)))) := by
  call_simp [ha]

/-- "Each item of the list will be an object with `key` and `value` entries": in member order -/
theorem entries_obj (a : Expr) (m : List (Str × JV)) (ha : eval orc fuel a ctx = .ok (some (.obj m))) :
    eval orc (fuel + 1) (.call "entries" [a]) ctx =
      .ok (some (.arr (m.map (fun kv => JV.obj [("value".toList, kv.2), ("key".toList, .str kv.1)])))) := by
  call_simp [ha]

/-- `size (keys o) = size (values o) = size (entries o) = size o` -/
theorem size_keys (a : Expr) (m : List (Str × JV)) (ha : eval orc fuel a ctx = .ok (some (.obj m))) :
    eval orc (fuel + 2) (.call "size" [.call "keys" [a]]) ctx = .ok (some (.num (.pos m.length))) := by
  rw [size_arr orc (fuel + 1) ctx _ _ (keys_obj orc fuel ctx a m ha), List.length_map]

theorem size_values (a : Expr) (m : List (Str × JV)) (ha : eval orc fuel a ctx = .ok (some (.obj m))) :
    eval orc (fuel + 2) (.call "size" [.call "values" [a]]) ctx = .ok (some (.num (.pos m.length))) := by
  rw [size_arr orc (fuel + 1) ctx _ _ (values_obj orc fuel ctx a m ha), List.length_map]

theorem size_entries (a : Expr) (m : List (Str × JV)) (ha : eval orc fuel a ctx = .ok (some (.obj m))) :
    eval orc (fuel + 2) (.call "size" [.call "entries" [a]]) ctx = .ok (some (.num (.pos m.length))) := by
  rw [size_arr orc (fuel + 1) ctx _ _ (entries_obj orc fuel ctx a m ha), List.length_map]

/-- the `i`-th key / value is the key / value of the `i`-th member -/
theorem get_keys (a b : Expr) (m : List (Str × JV)) (i : Nat)
    (ha : eval orc fuel a ctx = .ok (some (.obj m))) (hb : eval orc (fuel + 1) b ctx = .ok (some (.num (.pos i)))) :
    eval orc (fuel + 2) (.call "get" [.call "keys" [a], b]) ctx = .ok (m[i]?.map (fun kv => JV.str kv.1)) := by
  rw [get_arr orc (fuel + 1) ctx _ b _ i (keys_obj orc fuel ctx a m ha) hb, List.getElem?_map]

theorem get_values (a b : Expr) (m : List (Str × JV)) (i : Nat)
    (ha : eval orc fuel a ctx = .ok (some (.obj m))) (hb : eval orc (fuel + 1) b ctx = .ok (some (.num (.pos i)))) :
    eval orc (fuel + 2) (.call "get" [.call "values" [a], b]) ctx = .ok (m[i]?.map (·.2)) := by
  rw [get_arr orc (fuel + 1) ctx _ b _ i (values_obj orc fuel ctx a m ha) hb, List.getElem?_map]

/-- the entry objects carry the key under `"key"` and the value under `"value"` -/
theorem entry_get (k : Str) (v : JV) :
    objGet? [("value".toList, v), ("key".toList, JV.str k)] "key".toList = some (.str k) ∧
    objGet? [("value".toList, v), ("key".toList, JV.str k)] "value".toList = some v := by
  constructor <;> simp [objGet?]

example : eval {} 5 (.call "get" [.const (.arr [.str "a".toList, .str "b".toList]), .const (.num (.pos 1))]) {}
    = .ok (some (.str "b".toList)) :=
  get_arr_lt {} 4 {} _ _ [.str "a".toList, .str "b".toList] 1 (by decide) rfl rfl
example : eval {} 5 (.call "get" [.const (.obj [("k1".toList, .null), ("k2".toList, .bool true)]), .const (.str "k2".toList)]) {}
    = .ok (some (.bool true)) :=
  (get_obj_present {} 4 {} _ _ [("k1".toList, .null), ("k2".toList, .bool true)] "k2".toList (.bool true) rfl rfl rfl).1
example : eval {} 5 (.call "keys" [.const (.obj [("k1".toList, .null), ("k2".toList, .bool true)])]) {}
    = .ok (some (.arr [.str "k1".toList, .str "k2".toList])) :=
  keys_obj {} 4 {} _ [("k1".toList, .null), ("k2".toList, .bool true)] rfl

/-! ## 5. `map` and `filter` -/

/-- all evaluations return: the results, in order -/
theorem mapM'_ok_iff {α β} (f : α → Except Abort β) (l : List α) (r : List β) :
    mapM' f l = .ok r ↔ l.map f = r.map .ok := by
  induction l generalizing r with
  | nil => cases r <;> simp [mapM']
  | cons x xs ih =>
    cases hx : f x with
    | error e => cases r <;> simp [mapM', hx, bind, Except.bind]
    | ok y =>
      cases hxs : mapM' f xs with
      | error e =>
        cases r with
        | nil => simp [mapM', hx, hxs, bind, Except.bind]
        | cons z zs =>
          have := ih zs
          simp_all [mapM', bind, Except.bind]
      | ok ys =>
        have h1 := (ih ys).1 hxs
        cases r with
        | nil => simp [mapM', hx, hxs, bind, Except.bind]
        | cons z zs =>
          simp only [mapM', hx, hxs, bind, Except.bind, List.map_cons, List.cons.injEq, Except.ok.injEq, h1]
          constructor
          · rintro ⟨rfl, rfl⟩; exact ⟨rfl, rfl⟩
          · rintro ⟨rfl, h⟩
            refine ⟨rfl, ?_⟩
            exact (List.map_inj_right (fun _ _ h => by injection h)).1 h

theorem mapM'_ok {α β} (f : α → Except Abort β) (g : α → β) (l : List α) (h : ∀ x ∈ l, f x = .ok (g x)) :
    mapM' f l = .ok (l.map g) := by
  rw [mapM'_ok_iff, List.map_map]
  exact List.map_congr_left h

theorem mapM'_length {α β} (f : α → Except Abort β) (l : List α) (r : List β) (h : mapM' f l = .ok r) :
    r.length = l.length := by
  have := congrArg List.length ((mapM'_ok_iff f l r).1 h)
  simpa using this.symm

/-- an abort of the iteration is the abort of one of the evaluations -/
theorem mapM'_error {α β} (f : α → Except Abort β) (l : List α) (e : Abort) (h : mapM' f l = .error e) :
    ∃ x ∈ l, f x = .error e := by
  induction l with
  | nil => simp [mapM'] at h
  | cons x xs ih =>
    cases hx : f x with
    | error e' =>
      simp [mapM', hx, bind, Except.bind] at h
      exact ⟨x, List.mem_cons_self, by rw [hx, h]⟩
    | ok y =>
      cases hxs : mapM' f xs with
      | error e' =>
        simp [mapM', hx, hxs, bind, Except.bind] at h
        obtain ⟨z, hz, hz'⟩ := ih (by rw [hxs, h])
        exact ⟨z, List.mem_cons_of_mem _ hz, hz'⟩
      | ok ys => simp [mapM', hx, hxs, bind, Except.bind] at h

/-- `map`: "activate the second argument on each item and collect into a new list": the function is evaluated
with each item as input, results that are nothing are dropped -/
theorem map_arr_ok (a f : Expr) (l : List JV) (rs : List (Option JV))
    (ha : eval orc fuel a ctx = .ok (some (.arr l)))
    (hf : mapM' (fun v => eval orc fuel f (ctx.withInput v)) l = .ok rs) :
    eval orc (fuel + 1) (.call "map" [a, f]) ctx = .ok (some (.arr (rs.filterMap id))) := by
  call_simp [ha, hf]

theorem map_arr_error (a f : Expr) (l : List JV) (e : Abort)
    (ha : eval orc fuel a ctx = .ok (some (.arr l)))
    (hf : mapM' (fun v => eval orc fuel f (ctx.withInput v)) l = .error e) :
    eval orc (fuel + 1) (.call "map" [a, f]) ctx = .error e := by
  call_simp [ha, hf]

theorem map_arr (a f : Expr) (l : List JV) (g : JV → Option JV)
    (ha : eval orc fuel a ctx = .ok (some (.arr l)))
    (hf : ∀ v ∈ l, eval orc fuel f (ctx.withInput v) = .ok (g v)) :
    eval orc (fuel + 1) (.call "map" [a, f]) ctx = .ok (some (.arr (l.filterMap g))) := by
  rw [map_arr_ok orc fuel ctx a f l _ ha (mapM'_ok _ g l hf)]
  simp [List.filterMap_map]

/-- when the function gives a value for every item, `map` preserves length and order: item `i` of the result
is the function's value on item `i` -/
theorem map_arr_total (a f : Expr) (l : List JV) (g : JV → JV)
    (ha : eval orc fuel a ctx = .ok (some (.arr l)))
    (hf : ∀ v ∈ l, eval orc fuel f (ctx.withInput v) = .ok (some (g v))) :
    eval orc (fuel + 1) (.call "map" [a, f]) ctx = .ok (some (.arr (l.map g))) := by
  rw [map_arr orc fuel ctx a f l (fun v => some (g v)) ha hf, List.filterMap_eq_map']

theorem size_map_total (a f : Expr) (l : List JV) (g : JV → JV)
    (ha : eval orc fuel a ctx = .ok (some (.arr l)))
    (hf : ∀ v ∈ l, eval orc fuel f (ctx.withInput v) = .ok (some (g v))) :
    eval orc (fuel + 2) (.call "size" [.call "map" [a, f]]) ctx = .ok (some (.num (.pos l.length))) := by
  rw [size_arr orc (fuel + 1) ctx _ _ (map_arr_total orc fuel ctx a f l g ha hf), List.length_map]

/-- whatever the function is: a result of `map` on an array is an array of at most as many items, and an abort
of `map` is an abort of the function on one of the items -/
theorem map_arr_result (a f : Expr) (l : List JV) (ha : eval orc fuel a ctx = .ok (some (.arr l))) :
    (∃ rs : List (Option JV), rs.length = l.length ∧
        l.map (fun v => eval orc fuel f (ctx.withInput v)) = rs.map .ok ∧
        eval orc (fuel + 1) (.call "map" [a, f]) ctx = .ok (some (.arr (rs.filterMap id))) ∧
        (rs.filterMap id).length ≤ l.length) ∨
    (∃ e, eval orc (fuel + 1) (.call "map" [a, f]) ctx = .error e ∧
        ∃ v ∈ l, eval orc fuel f (ctx.withInput v) = .error e) := by
  cases h : mapM' (fun v => eval orc fuel f (ctx.withInput v)) l with
  | error e => exact .inr ⟨e, map_arr_error orc fuel ctx a f l e ha h, mapM'_error _ l e h⟩
  | ok rs =>
    have hl := mapM'_length _ l rs h
    exact .inl ⟨rs, hl, (mapM'_ok_iff _ l rs).1 h, map_arr_ok orc fuel ctx a f l rs ha h,
      hl ▸ List.length_filterMap_le _ _⟩

/-- the test of `filter`: the item is kept exactly when the function's value is `true` -/
def isTrue : Option JV → Bool
  | some (.bool true) => true
  | _ => false

/-- the items whose flag is set -/
def select {α} (l : List α) (keep : List Bool) : List α :=
  (l.zip keep).filterMap (fun x => if x.2 = true then some x.1 else none)

theorem select_sublist {α} (l : List α) (keep : List Bool) : (select l keep).Sublist l := by
  induction l generalizing keep with
  | nil => simp [select]
  | cons x xs ih =>
    cases keep with
    | nil => simp [select]
    | cons k ks =>
      cases k
      · simpa [select] using (ih ks).cons x
      · simpa [select] using (ih ks).cons_cons x

theorem select_map {α} (l : List α) (p : α → Bool) : select l (l.map p) = l.filter p := by
  induction l with
  | nil => rfl
  | cons x xs ih =>
    simp only [select] at ih
    cases h : p x <;> simp [select, h, ih]

theorem filter_arr_aux (a f : Expr) (l : List JV) (x : Except Abort (List Bool))
    (ha : eval orc fuel a ctx = .ok (some (.arr l)))
    (hf : mapM' (fun v => (eval orc fuel f (ctx.withInput v)).map isTrue) l = x) :
    eval orc (fuel + 1) (.call "filter" [a, f]) ctx =
      x.bind (fun keep => .ok (some (.arr (select l keep)))) := by
  call_simp [ha]
  generalize hF : mapM' _ l = y
  have : mapM' (fun v => (eval orc fuel f (ctx.withInput v)).map isTrue) l = y := by
    rw [← hF]; congr 1; funext v
    cases eval orc fuel f (ctx.withInput v) with
    | error e => rfl
    | ok r =>
      simp only [Except.map]
      split <;> simp_all [isTrue]
  rw [← hf, this]
  rfl

theorem filter_arr_ok (a f : Expr) (l : List JV) (keep : List Bool)
    (ha : eval orc fuel a ctx = .ok (some (.arr l)))
    (hf : mapM' (fun v => (eval orc fuel f (ctx.withInput v)).map isTrue) l = .ok keep) :
    eval orc (fuel + 1) (.call "filter" [a, f]) ctx = .ok (some (.arr (select l keep))) :=
  filter_arr_aux orc fuel ctx a f l _ ha hf

theorem filter_arr_error (a f : Expr) (l : List JV) (e : Abort)
    (ha : eval orc fuel a ctx = .ok (some (.arr l)))
    (hf : mapM' (fun v => (eval orc fuel f (ctx.withInput v)).map isTrue) l = .error e) :
    eval orc (fuel + 1) (.call "filter" [a, f]) ctx = .error e :=
  filter_arr_aux orc fuel ctx a f l _ ha hf

/-- `filter`: the items for which the function is `true`, in their original order -/
theorem filter_arr (a f : Expr) (l : List JV) (p : JV → Option JV)
    (ha : eval orc fuel a ctx = .ok (some (.arr l)))
    (hf : ∀ v ∈ l, eval orc fuel f (ctx.withInput v) = .ok (p v)) :
    eval orc (fuel + 1) (.call "filter" [a, f]) ctx = .ok (some (.arr (l.filter (fun v => isTrue (p v))))) := by
  rw [filter_arr_ok orc fuel ctx a f l _ ha (mapM'_ok _ (fun v => isTrue (p v)) l (fun v hv => by rw [hf v hv]; rfl)),
    select_map]

/-- whatever the function is: a result of `filter` on an array is a sub-list (`List.Sublist`: same items, same
order, some left out) of the array, and an abort is an abort of the function on one of the items -/
theorem filter_arr_result (a f : Expr) (l : List JV) (ha : eval orc fuel a ctx = .ok (some (.arr l))) :
    (∃ l' : List JV, eval orc (fuel + 1) (.call "filter" [a, f]) ctx = .ok (some (.arr l')) ∧ l'.Sublist l) ∨
    (∃ e, eval orc (fuel + 1) (.call "filter" [a, f]) ctx = .error e ∧
        ∃ v ∈ l, eval orc fuel f (ctx.withInput v) = .error e) := by
  cases h : mapM' (fun v => (eval orc fuel f (ctx.withInput v)).map isTrue) l with
  | error e =>
    refine .inr ⟨e, filter_arr_error orc fuel ctx a f l e ha h, ?_⟩
    obtain ⟨v, hv, hve⟩ := mapM'_error _ l e h
    refine ⟨v, hv, ?_⟩
    cases h' : eval orc fuel f (ctx.withInput v) with
    | error e' => rw [h'] at hve; simp [Except.map] at hve; rw [hve]
    | ok r => rw [h'] at hve; simp [Except.map] at hve
  | ok keep => exact .inl ⟨_, filter_arr_ok orc fuel ctx a f l keep ha h, select_sublist l keep⟩

/-- `filter x true` keeps everything, `filter x null` nothing (the documentation's examples) -/
theorem filter_const_true (a : Expr) (l : List JV) (ha : eval orc (fuel + 1) a ctx = .ok (some (.arr l))) :
    eval orc (fuel + 2) (.call "filter" [a, .const (.bool true)]) ctx = .ok (some (.arr l)) := by
  rw [filter_arr orc (fuel + 1) ctx a _ l (fun _ => some (.bool true)) ha (fun _ _ => rfl)]
  simp [isTrue]

theorem filter_const_not_true (a : Expr) (l : List JV) (c : JV) (hc : isTrue (some c) = false)
    (ha : eval orc (fuel + 1) a ctx = .ok (some (.arr l))) :
    eval orc (fuel + 2) (.call "filter" [a, .const c]) ctx = .ok (some (.arr [])) := by
  rw [filter_arr orc (fuel + 1) ctx a _ l (fun _ => some c) ha (fun _ _ => rfl)]
  simp [hc]

/-- `map x .` (the identity selection) is `x` -/
theorem map_identity (a : Expr) (l : List JV) (ha : eval orc (fuel + 1) a ctx = .ok (some (.arr l))) :
    eval orc (fuel + 2) (.call "map" [a, .extract 0 []]) ctx = .ok (some (.arr l)) := by
  rw [map_arr_total orc (fuel + 1) ctx a _ l id ha (fun _ _ => rfl), List.map_id]

example : eval {} 5 (.call "map" [.const (.arr [.arr [.null], .arr []]), .call "size" [.extract 0 []]]) {}
    = .ok (some (.arr [.num (.pos 1), .num (.pos 0)])) := by
  rw [map_arr_total {} 4 {} _ _ [.arr [.null], .arr []]
    (fun v => match v with | .arr l => .num (.pos l.length) | _ => .null) rfl (by intro v hv; simp at hv; rcases hv with rfl | rfl <;> rfl)]
  rfl
example : eval {} 5 (.call "filter" [.const (.arr [.arr [.null], .bool true, .arr []]), .call "array?" [.extract 0 []]]) {}
    = .ok (some (.arr [.arr [.null], .arr []])) := by
  rw [filter_arr {} 4 {} _ _ [.arr [.null], .bool true, .arr []]
    (fun v => match v with | .arr _ => some (.bool true) | _ => some (.bool false)) rfl (by intro v hv; simp at hv; rcases hv with rfl | rfl | rfl <;> rfl)]
  rfl

/-! ## 6. Wrong type ⇒ nothing; never an abort unless an argument's own evaluation aborts -/

/-- the values `take` / `take_last` / `sub` / `size` work on: objects, arrays, strings -/
def isColl : Option JV → Bool
  | some (.obj _) => true
  | some (.arr _) => true
  | some (.str _) => true
  | _ => false

def isArr : Option JV → Bool
  | some (.arr _) => true
  | _ => false

def isObj : Option JV → Bool
  | some (.obj _) => true
  | _ => false

/-- a count / index argument is usable exactly when it is a non-negative integer (`NumberValue::Positive`) -/
theorem usizeArg_eq_some (w : Option JV) (n : Nat) : usizeArg w = some n ↔ w = some (.num (.pos n)) := by
  rcases w with _ | (_ | _ | _ | (_ | _ | _) | _ | _) <;> simp [usizeArg, Num.toUsize?]

theorem usizeArg_eq_none (w : Option JV) : usizeArg w = none ↔ ∀ n, w ≠ some (.num (.pos n)) := by
  rcases w with _ | (_ | _ | _ | (_ | _ | _) | _ | _) <;> simp [usizeArg, Num.toUsize?]

/-- nothing, a string, a negative integer, a float, a boolean, … are not counts -/
theorem usizeArg_nothing : usizeArg none = none := rfl
theorem usizeArg_str (s : Str) : usizeArg (some (.str s)) = none := rfl
theorem usizeArg_neg (i : Int) : usizeArg (some (.num (.neg i))) = none := rfl
theorem usizeArg_flt (f : F64) : usizeArg (some (.num (.flt f))) = none := rfl
theorem usizeArg_bool (b : Bool) : usizeArg (some (.bool b)) = none := rfl
theorem usizeArg_null : usizeArg (some .null) = none := rfl
theorem usizeArg_arr (l : List JV) : usizeArg (some (.arr l)) = none := rfl
theorem usizeArg_obj (m : List (Str × JV)) : usizeArg (some (.obj m)) = none := rfl

/-! ### `take` -/

/-- the count is not a non-negative integer ⇒ nothing (the first argument is not even looked at) -/
theorem take_bad_count (a b : Expr) (w : Option JV) (hw : usizeArg w = none)
    (hb : eval orc fuel b ctx = .ok w) :
    eval orc (fuel + 1) (.call "take" [a, b]) ctx = .ok none := by
  call_simp [hb]
  simp only [usizeArg, Num.toUsize?] at hw
  simp only [hw]

/-- the first argument is not an object, array or string ⇒ nothing -/
theorem take_wrong_type (a b : Expr) (v w : Option JV) (hv : isColl v = false)
    (ha : eval orc fuel a ctx = .ok v) (hb : eval orc fuel b ctx = .ok w) :
    eval orc (fuel + 1) (.call "take" [a, b]) ctx = .ok none := by
  cases hw : usizeArg w with
  | none => exact take_bad_count orc fuel ctx a b w hw hb
  | some n =>
    rw [usizeArg_eq_some] at hw
    subst hw
    call_simp [ha, hb]
    rcases v with _ | (_ | _ | _ | _ | _ | _) <;> simp_all [isColl]

/-- `take` aborts only when the evaluation of one of its arguments aborts -/
theorem take_total (a b : Expr) (v w : Option JV)
    (ha : eval orc fuel a ctx = .ok v) (hb : eval orc fuel b ctx = .ok w) :
    ∃ r, eval orc (fuel + 1) (.call "take" [a, b]) ctx = .ok r := by
  cases hw : usizeArg w with
  | none => exact ⟨_, take_bad_count orc fuel ctx a b w hw hb⟩
  | some n =>
    rw [usizeArg_eq_some] at hw
    subst hw
    rcases v with _ | (_ | _ | s | _ | m | l)
    case some.obj => exact ⟨_, take_obj orc fuel ctx a b m n ha hb⟩
    case some.arr => exact ⟨_, take_arr orc fuel ctx a b l n ha hb⟩
    case some.str => exact ⟨_, take_str orc fuel ctx a b s n ha hb⟩
    all_goals exact ⟨_, take_wrong_type orc fuel ctx a b _ _ rfl ha hb⟩

/-! ### `take_last` -/

theorem take_last_bad_count (a b : Expr) (w : Option JV) (hw : usizeArg w = none)
    (hb : eval orc fuel b ctx = .ok w) :
    eval orc (fuel + 1) (.call "take_last" [a, b]) ctx = .ok none := by
  call_simp [hb]
  simp only [usizeArg, Num.toUsize?] at hw
  simp only [hw]

theorem take_last_wrong_type (a b : Expr) (v w : Option JV) (hv : isColl v = false)
    (ha : eval orc fuel a ctx = .ok v) (hb : eval orc fuel b ctx = .ok w) :
    eval orc (fuel + 1) (.call "take_last" [a, b]) ctx = .ok none := by
  cases hw : usizeArg w with
  | none => exact take_last_bad_count orc fuel ctx a b w hw hb
  | some n =>
    rw [usizeArg_eq_some] at hw
    subst hw
    call_simp [ha, hb]
    rcases v with _ | (_ | _ | _ | _ | _ | _) <;> simp_all [isColl]

theorem take_last_total (a b : Expr) (v w : Option JV)
    (ha : eval orc fuel a ctx = .ok v) (hb : eval orc fuel b ctx = .ok w) :
    ∃ r, eval orc (fuel + 1) (.call "take_last" [a, b]) ctx = .ok r := by
  cases hw : usizeArg w with
  | none => exact ⟨_, take_last_bad_count orc fuel ctx a b w hw hb⟩
  | some n =>
    rw [usizeArg_eq_some] at hw
    subst hw
    rcases v with _ | (_ | _ | s | _ | m | l)
    case some.obj => exact ⟨_, take_last_obj orc fuel ctx a b m n ha hb⟩
    case some.arr => exact ⟨_, take_last_arr orc fuel ctx a b l n ha hb⟩
    case some.str => exact ⟨_, take_last_str orc fuel ctx a b s n ha hb⟩
    all_goals exact ⟨_, take_last_wrong_type orc fuel ctx a b _ _ rfl ha hb⟩

/-! ### `sub` -/

theorem sub_bad_start (a b c : Expr) (w : Option JV) (hw : usizeArg w = none)
    (hb : eval orc fuel b ctx = .ok w) :
    eval orc (fuel + 1) (.call "sub" [a, b, c]) ctx = .ok none := by
  call_simp [hb]
  simp only [usizeArg, Num.toUsize?] at hw
  simp only [hw]

theorem sub_bad_len (a b c : Expr) (start : Nat) (w : Option JV) (hw : usizeArg w = none)
    (hb : eval orc fuel b ctx = .ok (some (.num (.pos start)))) (hc : eval orc fuel c ctx = .ok w) :
    eval orc (fuel + 1) (.call "sub" [a, b, c]) ctx = .ok none := by
  call_simp [hb, hc]
  simp only [usizeArg, Num.toUsize?] at hw
  simp only [hw]

theorem sub_wrong_type (a b c : Expr) (v : Option JV) (start len : Nat) (hv : isColl v = false)
    (ha : eval orc fuel a ctx = .ok v) (hb : eval orc fuel b ctx = .ok (some (.num (.pos start))))
    (hc : eval orc fuel c ctx = .ok (some (.num (.pos len)))) :
    eval orc (fuel + 1) (.call "sub" [a, b, c]) ctx = .ok none := by
  call_simp [ha, hb, hc]
  rcases v with _ | (_ | _ | _ | _ | _ | _) <;> simp_all [isColl]

/-! ### `size` -/

/-- "50 is not an array, not an object nor a string." -/
theorem size_wrong_type (a : Expr) (v : Option JV) (hv : isColl v = false)
    (ha : eval orc fuel a ctx = .ok v) :
    eval orc (fuel + 1) (.call "size" [a]) ctx = .ok none := by
  call_simp [ha]
  rcases v with _ | (_ | _ | _ | _ | _ | _) <;> simp_all [isColl]

theorem size_total (a : Expr) (v : Option JV) (ha : eval orc fuel a ctx = .ok v) :
    ∃ r, eval orc (fuel + 1) (.call "size" [a]) ctx = .ok r := by
  rcases v with _ | (_ | _ | s | _ | m | l)
  case some.obj => exact ⟨_, size_obj orc fuel ctx a m ha⟩
  case some.arr => exact ⟨_, size_arr orc fuel ctx a l ha⟩
  case some.str => exact ⟨_, size_str orc fuel ctx a s ha⟩
  all_goals exact ⟨_, size_wrong_type orc fuel ctx a _ rfl ha⟩

/-- an abort of the argument is the abort of the call -/
theorem size_abort (a : Expr) (e : Abort) (ha : eval orc fuel a ctx = .error e) :
    eval orc (fuel + 1) (.call "size" [a]) ctx = .error e := by
  call_simp [ha]

/-! ### `get` -/

/-- the first argument is neither an object nor an array ⇒ nothing (the second is not even looked at) -/
theorem get_wrong_type (a b : Expr) (v : Option JV) (hv : isObj v = false) (hv' : isArr v = false)
    (ha : eval orc fuel a ctx = .ok v) :
    eval orc (fuel + 1) (.call "get" [a, b]) ctx = .ok none := by
  call_simp [ha]
  rcases v with _ | (_ | _ | _ | _ | _ | _) <;> simp_all [isObj, isArr]

/-- an array indexed by something that is not a non-negative integer ⇒ nothing -/
theorem get_arr_bad_index (a b : Expr) (l : List JV) (w : Option JV) (hw : usizeArg w = none)
    (ha : eval orc fuel a ctx = .ok (some (.arr l))) (hb : eval orc fuel b ctx = .ok w) :
    eval orc (fuel + 1) (.call "get" [a, b]) ctx = .ok none := by
  call_simp [ha, hb]
  simp only [usizeArg, Num.toUsize?] at hw
  simp only [hw]

/-- an object indexed by something that is not a string ⇒ nothing -/
theorem get_obj_bad_key (a b : Expr) (m : List (Str × JV)) (w : Option JV) (hw : strArg w = none)
    (ha : eval orc fuel a ctx = .ok (some (.obj m))) (hb : eval orc fuel b ctx = .ok w) :
    eval orc (fuel + 1) (.call "get" [a, b]) ctx = .ok none := by
  call_simp [ha, hb]
  simp only [strArg] at hw
  simp only [hw]

theorem strArg_eq_some (w : Option JV) (s : Str) : strArg w = some s ↔ w = some (.str s) := by
  rcases w with _ | (_ | _ | _ | _ | _ | _) <;> simp [strArg]

theorem get_total (a b : Expr) (v w : Option JV)
    (ha : eval orc fuel a ctx = .ok v) (hb : eval orc fuel b ctx = .ok w) :
    ∃ r, eval orc (fuel + 1) (.call "get" [a, b]) ctx = .ok r := by
  rcases v with _ | (_ | _ | s | _ | m | l)
  case some.obj =>
    cases hw : strArg w with
    | none => exact ⟨_, get_obj_bad_key orc fuel ctx a b m w hw ha hb⟩
    | some k => rw [strArg_eq_some] at hw; subst hw; exact ⟨_, get_obj orc fuel ctx a b m k ha hb⟩
  case some.arr =>
    cases hw : usizeArg w with
    | none => exact ⟨_, get_arr_bad_index orc fuel ctx a b l w hw ha hb⟩
    | some i => rw [usizeArg_eq_some] at hw; subst hw; exact ⟨_, get_arr orc fuel ctx a b l i ha hb⟩
  all_goals exact ⟨_, get_wrong_type orc fuel ctx a b _ rfl rfl ha⟩

/-! ### `keys`, `values`, `entries`: not an object ⇒ nothing -/

theorem keys_wrong_type (a : Expr) (v : Option JV) (hv : isObj v = false) (ha : eval orc fuel a ctx = .ok v) :
    eval orc (fuel + 1) (.call "keys" [a]) ctx = .ok none := by
  call_simp [ha]
  rcases v with _ | (_ | _ | _ | _ | _ | _) <;> simp_all [isObj]

theorem values_wrong_type (a : Expr) (v : Option JV) (hv : isObj v = false) (ha : eval orc fuel a ctx = .ok v) :
    eval orc (fuel + 1) (.call "values" [a]) ctx = .ok none := by
  call_simp [ha]
  rcases v with _ | (_ | _ | _ | _ | _ | _) <;> simp_all [isObj]

theorem entries_wrong_type (a : Expr) (v : Option JV) (hv : isObj v = false) (ha : eval orc fuel a ctx = .ok v) :
    eval orc (fuel + 1) (.call "entries" [a]) ctx = .ok none := by
  call_simp [ha]
  rcases v with _ | (_ | _ | _ | _ | _ | _) <;> simp_all [isObj]

theorem keys_total (a : Expr) (v : Option JV) (ha : eval orc fuel a ctx = .ok v) :
    ∃ r, eval orc (fuel + 1) (.call "keys" [a]) ctx = .ok r := by
  rcases v with _ | (_ | _ | s | _ | m | l)
  case some.obj => exact ⟨_, keys_obj orc fuel ctx a m ha⟩
  all_goals exact ⟨_, keys_wrong_type orc fuel ctx a _ rfl ha⟩

/-! ### list functions: not an array ⇒ nothing -/

theorem first_wrong_type (a : Expr) (v : Option JV) (hv : isArr v = false) (ha : eval orc fuel a ctx = .ok v) :
    eval orc (fuel + 1) (.call "first" [a]) ctx = .ok none := by
  call_simp [ha]
  rcases v with _ | (_ | _ | _ | _ | _ | _) <;> simp_all [isArr]

theorem last_wrong_type (a : Expr) (v : Option JV) (hv : isArr v = false) (ha : eval orc fuel a ctx = .ok v) :
    eval orc (fuel + 1) (.call "last" [a]) ctx = .ok none := by
  call_simp [ha]
  rcases v with _ | (_ | _ | _ | _ | _ | _) <;> simp_all [isArr]

theorem pop_wrong_type (a : Expr) (v : Option JV) (hv : isArr v = false) (ha : eval orc fuel a ctx = .ok v) :
    eval orc (fuel + 1) (.call "pop" [a]) ctx = .ok none := by
  call_simp [ha]
  rcases v with _ | (_ | _ | _ | _ | _ | _) <;> simp_all [isArr]

theorem reverese_wrong_type (a : Expr) (v : Option JV) (hv : isArr v = false) (ha : eval orc fuel a ctx = .ok v) :
    eval orc (fuel + 1) (.call "reverese" [a]) ctx = .ok none := by
  call_simp [ha]
  rcases v with _ | (_ | _ | _ | _ | _ | _) <;> simp_all [isArr]

theorem push_wrong_type (a : Expr) (xs : List Expr) (v : Option JV) (hv : isArr v = false)
    (ha : eval orc fuel a ctx = .ok v) :
    eval orc (fuel + 1) (.call "push" (a :: xs)) ctx = .ok none := by
  call_simp [ha]
  rcases v with _ | (_ | _ | _ | _ | _ | _) <;> simp_all [isArr]

theorem map_wrong_type (a f : Expr) (v : Option JV) (hv : isArr v = false) (ha : eval orc fuel a ctx = .ok v) :
    eval orc (fuel + 1) (.call "map" [a, f]) ctx = .ok none := by
  call_simp [ha]
  rcases v with _ | (_ | _ | _ | _ | _ | _) <;> simp_all [isArr]

theorem filter_wrong_type (a f : Expr) (v : Option JV) (hv : isArr v = false) (ha : eval orc fuel a ctx = .ok v) :
    eval orc (fuel + 1) (.call "filter" [a, f]) ctx = .ok none := by
  call_simp [ha]
  rcases v with _ | (_ | _ | _ | _ | _ | _) <;> simp_all [isArr]

/-! ### string `head` / `tail` -/

theorem head_wrong_type (a b : Expr) (v w : Option JV) (h : strArg v = none ∨ usizeArg w = none)
    (ha : eval orc fuel a ctx = .ok v) (hb : eval orc fuel b ctx = .ok w) :
    eval orc (fuel + 1) (.call "head" [a, b]) ctx = .ok none := by
  call_simp [ha, hb]
  simp only [strArg, usizeArg, Num.toUsize?] at h
  rcases h with h | h
  · simp only [h]
  · simp only [h]; split <;> simp_all

theorem tail_wrong_type (a b : Expr) (v w : Option JV) (h : strArg v = none ∨ usizeArg w = none)
    (ha : eval orc fuel a ctx = .ok v) (hb : eval orc fuel b ctx = .ok w) :
    eval orc (fuel + 1) (.call "tail" [a, b]) ctx = .ok none := by
  call_simp [ha, hb]
  simp only [strArg, usizeArg, Num.toUsize?] at h
  rcases h with h | h
  · simp only [h]
  · simp only [h]; split <;> simp_all

/-- abort propagation for `take` (the count is evaluated first) -/
theorem take_abort_count (a b : Expr) (e : Abort) (hb : eval orc fuel b ctx = .error e) :
    eval orc (fuel + 1) (.call "take" [a, b]) ctx = .error e := by
  call_simp [hb]

theorem take_abort_coll (a b : Expr) (n : Nat) (e : Abort)
    (ha : eval orc fuel a ctx = .error e) (hb : eval orc fuel b ctx = .ok (some (.num (.pos n)))) :
    eval orc (fuel + 1) (.call "take" [a, b]) ctx = .error e := by
  call_simp [ha, hb]

/-- the documentation's examples `(take 50 10)` and `(take "123" false)` give nothing -/
example : eval {} 5 (.call "take" [.const (.num (.pos 50)), .const (.num (.pos 10))]) {} = .ok none :=
  take_wrong_type {} 4 {} _ _ (some (.num (.pos 50))) _ rfl rfl rfl
example : eval {} 5 (.call "take" [.const (.str "123".toList), .const (.bool false)]) {} = .ok none :=
  take_bad_count {} 4 {} _ _ (some (.bool false)) rfl rfl
example : eval {} 5 (.call "take_last" [.const (.str "123".toList), .const (.num (.neg (-1)))]) {} = .ok none :=
  take_last_bad_count {} 4 {} _ _ (some (.num (.neg (-1)))) rfl rfl
example : eval {} 5 (.call "size" [.const (.num (.pos 50))]) {} = .ok none :=
  size_wrong_type {} 4 {} _ (some (.num (.pos 50))) rfl rfl
example : eval {} 5 (.call "get" [.const (.arr [.null]), .const (.str "a".toList)]) {} = .ok none :=
  get_arr_bad_index {} 4 {} _ _ [.null] (some (.str "a".toList)) rfl rfl rfl
example : eval {} 5 (.call "keys" [.const (.arr [.null])]) {} = .ok none :=
  keys_wrong_type {} 4 {} _ (some (.arr [.null])) rfl rfl
/-- an argument that is nothing (here: a variable that is not set) -/
example : eval {} 5 (.call "size" [.var "x".toList]) {} = .ok none :=
  size_wrong_type {} 4 {} _ none rfl rfl

/-! ## 7. Boolean functions -/

def isBool : Option JV → Bool
  | some (.bool _) => true
  | _ => false

/-- `and`: "Return true if all the arguments are true, nothing if there is a non boolean argument and false if
there is a false argument." — truth table on two booleans -/
theorem and_bool (a b : Expr) (x y : Bool)
    (ha : eval orc fuel a ctx = .ok (some (.bool x))) (hb : eval orc fuel b ctx = .ok (some (.bool y))) :
    eval orc (fuel + 1) (.call "and" [a, b]) ctx = .ok (some (.bool (x && y))) := by
  call_simp [ha, hb, foldArgs]
  cases x <;> cases y <;> simp

/-- evaluation is left to right and stops at the first `false`: the second argument is not evaluated -/
theorem and_false_left (a b : Expr) (ha : eval orc fuel a ctx = .ok (some (.bool false))) :
    eval orc (fuel + 1) (.call "and" [a, b]) ctx = .ok (some (.bool false)) := by
  call_simp [ha, foldArgs]

theorem and_non_bool_left (a b : Expr) (v : Option JV) (hv : isBool v = false)
    (ha : eval orc fuel a ctx = .ok v) :
    eval orc (fuel + 1) (.call "and" [a, b]) ctx = .ok none := by
  call_simp [ha, foldArgs]
  rcases v with _ | (_ | (_ | _) | _ | _ | _ | _) <;> simp_all [isBool]

theorem and_non_bool_right (a b : Expr) (w : Option JV) (hw : isBool w = false)
    (ha : eval orc fuel a ctx = .ok (some (.bool true))) (hb : eval orc fuel b ctx = .ok w) :
    eval orc (fuel + 1) (.call "and" [a, b]) ctx = .ok none := by
  call_simp [ha, hb, foldArgs]
  rcases w with _ | (_ | (_ | _) | _ | _ | _ | _) <;> simp_all [isBool]

/-- any number of arguments, all `true` -/
theorem and_all_true (args : List Expr) (h : ∀ e ∈ args, eval orc fuel e ctx = .ok (some (.bool true))) :
    eval orc (fuel + 1) (.call "and" args) ctx = .ok (some (.bool true)) := by
  simp only [eval, callFn, callBasic]
  induction args with
  | nil => rfl
  | cons e es ih =>
    simp only [foldArgs, h e List.mem_cons_self, bind, Except.bind]
    exact ih (fun e' he' => h e' (List.mem_cons_of_mem _ he'))

/-- any number of arguments: `true`s, then a `false` (the rest is not evaluated) -/
theorem and_first_false (pre post : List Expr) (e : Expr)
    (h : ∀ e' ∈ pre, eval orc fuel e' ctx = .ok (some (.bool true)))
    (he : eval orc fuel e ctx = .ok (some (.bool false))) :
    eval orc (fuel + 1) (.call "and" (pre ++ e :: post)) ctx = .ok (some (.bool false)) := by
  simp only [eval, callFn, callBasic]
  induction pre with
  | nil => simp only [List.nil_append, foldArgs, he, bind, Except.bind, jbool]
  | cons p ps ih =>
    simp only [List.cons_append, foldArgs, h p List.mem_cons_self, bind, Except.bind]
    exact ih (fun e' he' => h e' (List.mem_cons_of_mem _ he'))

/-- `or`: "Return true if any of the arguments are true, nothing if there is a non boolean argument and false if
all the arguments are false." -/
theorem or_bool (a b : Expr) (x y : Bool)
    (ha : eval orc fuel a ctx = .ok (some (.bool x))) (hb : eval orc fuel b ctx = .ok (some (.bool y))) :
    eval orc (fuel + 1) (.call "or" [a, b]) ctx = .ok (some (.bool (x || y))) := by
  call_simp [ha, hb, foldArgs]
  cases x <;> cases y <;> simp

theorem or_true_left (a b : Expr) (ha : eval orc fuel a ctx = .ok (some (.bool true))) :
    eval orc (fuel + 1) (.call "or" [a, b]) ctx = .ok (some (.bool true)) := by
  call_simp [ha, foldArgs]

theorem or_non_bool_left (a b : Expr) (v : Option JV) (hv : isBool v = false)
    (ha : eval orc fuel a ctx = .ok v) :
    eval orc (fuel + 1) (.call "or" [a, b]) ctx = .ok none := by
  call_simp [ha, foldArgs]
  rcases v with _ | (_ | (_ | _) | _ | _ | _ | _) <;> simp_all [isBool]

theorem or_non_bool_right (a b : Expr) (w : Option JV) (hw : isBool w = false)
    (ha : eval orc fuel a ctx = .ok (some (.bool false))) (hb : eval orc fuel b ctx = .ok w) :
    eval orc (fuel + 1) (.call "or" [a, b]) ctx = .ok none := by
  call_simp [ha, hb, foldArgs]
  rcases w with _ | (_ | (_ | _) | _ | _ | _ | _) <;> simp_all [isBool]

theorem or_all_false (args : List Expr) (h : ∀ e ∈ args, eval orc fuel e ctx = .ok (some (.bool false))) :
    eval orc (fuel + 1) (.call "or" args) ctx = .ok (some (.bool false)) := by
  simp only [eval, callFn, callBasic]
  induction args with
  | nil => rfl
  | cons e es ih =>
    simp only [foldArgs, h e List.mem_cons_self, bind, Except.bind]
    exact ih (fun e' he' => h e' (List.mem_cons_of_mem _ he'))

theorem or_first_true (pre post : List Expr) (e : Expr)
    (h : ∀ e' ∈ pre, eval orc fuel e' ctx = .ok (some (.bool false)))
    (he : eval orc fuel e ctx = .ok (some (.bool true))) :
    eval orc (fuel + 1) (.call "or" (pre ++ e :: post)) ctx = .ok (some (.bool true)) := by
  simp only [eval, callFn, callBasic]
  induction pre with
  | nil => simp only [List.nil_append, foldArgs, he, bind, Except.bind, jbool]
  | cons p ps ih =>
    simp only [List.cons_append, foldArgs, h p List.mem_cons_self, bind, Except.bind]
    exact ih (fun e' he' => h e' (List.mem_cons_of_mem _ he'))

/-- `not`: "Return false if the argument is true and true if the argument is false." -/
theorem not_bool (a : Expr) (x : Bool) (ha : eval orc fuel a ctx = .ok (some (.bool x))) :
    eval orc (fuel + 1) (.call "not" [a]) ctx = .ok (some (.bool (!x))) := by
  call_simp [ha]

theorem not_non_bool (a : Expr) (v : Option JV) (hv : isBool v = false) (ha : eval orc fuel a ctx = .ok v) :
    eval orc (fuel + 1) (.call "not" [a]) ctx = .ok none := by
  call_simp [ha]
  rcases v with _ | (_ | _ | _ | _ | _ | _) <;> simp_all [isBool]

theorem not_not (a : Expr) (x : Bool) (ha : eval orc fuel a ctx = .ok (some (.bool x))) :
    eval orc (fuel + 2) (.call "not" [.call "not" [a]]) ctx = .ok (some (.bool x)) := by
  rw [not_bool orc (fuel + 1) ctx _ _ (not_bool orc fuel ctx a x ha), Bool.not_not]

/-- `xor`: "Return true if one, and only one, of the argument is true." -/
theorem xor_bool (a b : Expr) (x y : Bool)
    (ha : eval orc fuel a ctx = .ok (some (.bool x))) (hb : eval orc fuel b ctx = .ok (some (.bool y))) :
    eval orc (fuel + 1) (.call "xor" [a, b]) ctx = .ok (some (.bool (x != y))) := by
  call_simp [ha, hb]

theorem xor_non_bool (a b : Expr) (v w : Option JV) (h : isBool v = false ∨ isBool w = false)
    (ha : eval orc fuel a ctx = .ok v) (hb : eval orc fuel b ctx = .ok w) :
    eval orc (fuel + 1) (.call "xor" [a, b]) ctx = .ok none := by
  call_simp [ha, hb]
  rcases v with _ | (_ | _ | _ | _ | _ | _) <;> rcases w with _ | (_ | _ | _ | _ | _ | _) <;> simp_all [isBool]

/-- De Morgan: `(not (and a b)) = (or (not a) (not b))` on booleans -/
theorem not_and (a b : Expr) (x y : Bool)
    (ha : eval orc fuel a ctx = .ok (some (.bool x))) (hb : eval orc fuel b ctx = .ok (some (.bool y))) :
    eval orc (fuel + 2) (.call "not" [.call "and" [a, b]]) ctx =
      eval orc (fuel + 2) (.call "or" [.call "not" [a], .call "not" [b]]) ctx := by
  rw [not_bool orc (fuel + 1) ctx _ _ (and_bool orc fuel ctx a b x y ha hb),
    or_bool orc (fuel + 1) ctx _ _ _ _ (not_bool orc fuel ctx a x ha) (not_bool orc fuel ctx b y hb), Bool.not_and]

example : eval {} 5 (.call "and" [.const (.bool true), .const (.bool false)]) {} = .ok (some (.bool false)) :=
  and_bool {} 4 {} _ _ true false rfl rfl
example : eval {} 5 (.call "or" [.const (.bool false), .const (.num (.pos 1))]) {} = .ok none :=
  or_non_bool_right {} 4 {} _ _ (some (.num (.pos 1))) rfl rfl rfl
/-- short circuit: `(and false <abort>)` is `false` -/
example : eval {} 5 (.call "and" [.const (.bool false), .call "no-such-function" []]) {} = .ok (some (.bool false)) :=
  and_false_left {} 4 {} _ _ rfl
example : eval {} 5 (.call "xor" [.const (.bool true), .const (.bool true)]) {} = .ok (some (.bool false)) :=
  xor_bool {} 4 {} _ _ true true rfl rfl

/-! ## 8. Comparison and flow -/

/-- `=`: "Compare two value and return true if both are equals." -/
theorem eq_vals (a b : Expr) (x y : JV)
    (ha : eval orc fuel a ctx = .ok (some x)) (hb : eval orc fuel b ctx = .ok (some y)) :
    eval orc (fuel + 1) (.call "=" [a, b]) ctx = .ok (some (.bool (JV.beq x y))) := by
  call_simp [ha, hb]

theorem neq_vals (a b : Expr) (x y : JV)
    (ha : eval orc fuel a ctx = .ok (some x)) (hb : eval orc fuel b ctx = .ok (some y)) :
    eval orc (fuel + 1) (.call "!=" [a, b]) ctx = .ok (some (.bool (!JV.beq x y))) := by
  call_simp [ha, hb]

/-- the order comparisons are those of `JV.cmp` (`impl Ord for JsonValue`) -/
theorem lt_vals (a b : Expr) (x y : JV)
    (ha : eval orc fuel a ctx = .ok (some x)) (hb : eval orc fuel b ctx = .ok (some y)) :
    eval orc (fuel + 1) (.call "<" [a, b]) ctx = .ok (some (.bool (JV.cmp x y == .lt))) := by
  call_simp [ha, hb]

theorem le_vals (a b : Expr) (x y : JV)
    (ha : eval orc fuel a ctx = .ok (some x)) (hb : eval orc fuel b ctx = .ok (some y)) :
    eval orc (fuel + 1) (.call "<=" [a, b]) ctx = .ok (some (.bool (JV.cmp x y != .gt))) := by
  call_simp [ha, hb]

theorem gt_vals (a b : Expr) (x y : JV)
    (ha : eval orc fuel a ctx = .ok (some x)) (hb : eval orc fuel b ctx = .ok (some y)) :
    eval orc (fuel + 1) (.call ">" [a, b]) ctx = .ok (some (.bool (JV.cmp x y == .gt))) := by
  call_simp [ha, hb]

theorem ge_vals (a b : Expr) (x y : JV)
    (ha : eval orc fuel a ctx = .ok (some x)) (hb : eval orc fuel b ctx = .ok (some y)) :
    eval orc (fuel + 1) (.call ">=" [a, b]) ctx = .ok (some (.bool (JV.cmp x y != .lt))) := by
  call_simp [ha, hb]

/-- a comparison with nothing on either side is nothing -/
theorem cmp_nothing (op : String) (hop : op ∈ ["=", "!=", "<", "<=", ">", ">="]) (a b : Expr) (v w : Option JV)
    (h : v = none ∨ w = none)
    (ha : eval orc fuel a ctx = .ok v) (hb : eval orc fuel b ctx = .ok w) :
    eval orc (fuel + 1) (.call op [a, b]) ctx = .ok none := by
  simp only [List.mem_cons, List.not_mem_nil, or_false] at hop
  rcases hop with rfl | rfl | rfl | rfl | rfl | rfl <;>
  · call_simp [ha, hb]
    rcases h with rfl | rfl
    · rfl
    · cases v <;> rfl

/-- the six comparisons are consistent with one another: `!=` negates `=`, `>=` negates `<`, `<=` negates `>` -/
theorem neq_eq_not_eq (a b : Expr) (x y : JV)
    (ha : eval orc fuel a ctx = .ok (some x)) (hb : eval orc fuel b ctx = .ok (some y)) :
    eval orc (fuel + 2) (.call "not" [.call "=" [a, b]]) ctx = eval orc (fuel + 1) (.call "!=" [a, b]) ctx := by
  rw [not_bool orc (fuel + 1) ctx _ _ (eq_vals orc fuel ctx a b x y ha hb), neq_vals orc fuel ctx a b x y ha hb]

theorem ge_eq_not_lt (a b : Expr) (x y : JV)
    (ha : eval orc fuel a ctx = .ok (some x)) (hb : eval orc fuel b ctx = .ok (some y)) :
    eval orc (fuel + 2) (.call "not" [.call "<" [a, b]]) ctx = eval orc (fuel + 1) (.call ">=" [a, b]) ctx := by
  rw [not_bool orc (fuel + 1) ctx _ _ (lt_vals orc fuel ctx a b x y ha hb), ge_vals orc fuel ctx a b x y ha hb]
  rfl

theorem le_eq_not_gt (a b : Expr) (x y : JV)
    (ha : eval orc fuel a ctx = .ok (some x)) (hb : eval orc fuel b ctx = .ok (some y)) :
    eval orc (fuel + 2) (.call "not" [.call ">" [a, b]]) ctx = eval orc (fuel + 1) (.call "<=" [a, b]) ctx := by
  rw [not_bool orc (fuel + 1) ctx _ _ (gt_vals orc fuel ctx a b x y ha hb), le_vals orc fuel ctx a b x y ha hb]
  rfl

/-- `?` / `if`: "Return the second argument if the first argument is true. Return the third argument if the first
is false. Return nothing if the first argument is not Boolean".  Only the selected branch is evaluated. -/
theorem cond_true (c a b : Expr) (hc : eval orc fuel c ctx = .ok (some (.bool true))) :
    eval orc (fuel + 1) (.call "?" [c, a, b]) ctx = eval orc fuel a ctx := by
  call_simp [hc]

theorem cond_false (c a b : Expr) (hc : eval orc fuel c ctx = .ok (some (.bool false))) :
    eval orc (fuel + 1) (.call "?" [c, a, b]) ctx = eval orc fuel b ctx := by
  call_simp [hc]

theorem cond_non_bool (c a b : Expr) (v : Option JV) (hv : isBool v = false) (hc : eval orc fuel c ctx = .ok v) :
    eval orc (fuel + 1) (.call "?" [c, a, b]) ctx = .ok none := by
  call_simp [hc]
  rcases v with _ | (_ | (_ | _) | _ | _ | _ | _) <;> simp_all [isBool]

/-- without an else branch a false condition gives nothing -/
theorem cond_false_no_else (c a : Expr) (hc : eval orc fuel c ctx = .ok (some (.bool false))) :
    eval orc (fuel + 1) (.call "?" [c, a]) ctx = .ok none := by
  call_simp [hc]

/-- `default`: "Get the first non empty value." -/
theorem default_nil : eval orc (fuel + 1) (.call "default" []) ctx = .ok none := rfl

theorem default_value (a : Expr) (rest : List Expr) (v : JV) (ha : eval orc fuel a ctx = .ok (some v)) :
    eval orc (fuel + 1) (.call "default" (a :: rest)) ctx = .ok (some v) := by
  call_simp [ha, foldArgs]

theorem default_nothing (a : Expr) (rest : List Expr) (ha : eval orc fuel a ctx = .ok none) :
    eval orc (fuel + 1) (.call "default" (a :: rest)) ctx = eval orc (fuel + 1) (.call "default" rest) ctx := by
  call_simp [ha, foldArgs]

/-- the general form: nothings, then a value -/
theorem default_first_value (pre post : List Expr) (e : Expr) (v : JV)
    (h : ∀ e' ∈ pre, eval orc fuel e' ctx = .ok none) (he : eval orc fuel e ctx = .ok (some v)) :
    eval orc (fuel + 1) (.call "default" (pre ++ e :: post)) ctx = .ok (some v) := by
  induction pre with
  | nil => exact default_value orc fuel ctx e post v he
  | cons p ps ih =>
    rw [List.cons_append, default_nothing orc fuel ctx p _ (h p List.mem_cons_self)]
    exact ih (fun e' he' => h e' (List.mem_cons_of_mem _ he'))

theorem default_all_nothing (args : List Expr) (h : ∀ e ∈ args, eval orc fuel e ctx = .ok none) :
    eval orc (fuel + 1) (.call "default" args) ctx = .ok none := by
  induction args with
  | nil => rfl
  | cons p ps ih =>
    rw [default_nothing orc fuel ctx p _ (h p List.mem_cons_self)]
    exact ih (fun e' he' => h e' (List.mem_cons_of_mem _ he'))

/-- `empty?` / `nothing?`: "return true if the argument is nothing." -/
theorem empty_nothing (a : Expr) (ha : eval orc fuel a ctx = .ok none) :
    eval orc (fuel + 1) (.call "empty?" [a]) ctx = .ok (some (.bool true)) := by
  call_simp [ha]

theorem empty_value (a : Expr) (v : JV) (ha : eval orc fuel a ctx = .ok (some v)) :
    eval orc (fuel + 1) (.call "empty?" [a]) ctx = .ok (some (.bool false)) := by
  call_simp [ha]

/-- the type tests always answer with a boolean (never nothing) -/
theorem type_tests (a : Expr) (v : Option JV) (ha : eval orc fuel a ctx = .ok v) :
    eval orc (fuel + 1) (.call "array?" [a]) ctx = .ok (some (.bool (isArr v))) ∧
    eval orc (fuel + 1) (.call "object?" [a]) ctx = .ok (some (.bool (isObj v))) ∧
    eval orc (fuel + 1) (.call "bool?" [a]) ctx = .ok (some (.bool (isBool v))) ∧
    eval orc (fuel + 1) (.call "string?" [a]) ctx = .ok (some (.bool (strArg v).isSome)) ∧
    eval orc (fuel + 1) (.call "number?" [a]) ctx = .ok (some (.bool (numArg v).isSome)) ∧
    eval orc (fuel + 1) (.call "empty?" [a]) ctx = .ok (some (.bool v.isNone)) := by
  refine ⟨?_, ?_, ?_, ?_, ?_, ?_⟩ <;>
  · call_simp [ha]
    rcases v with _ | (_ | _ | _ | _ | _ | _) <;> rfl

/-- `|`: "Pipe the output of one function to the next function." -/
theorem pipe_one (a : Expr) : 
    eval orc (fuel + 1) (.call "|" [a]) ctx = eval orc fuel a (ctx.withInput ctx.input) := by
  call_simp [callBasic.go]
  cases eval orc fuel a (ctx.withInput ctx.input) with
  | error e => rfl
  | ok v => cases v <;> rfl

theorem pipe_two (a b : Expr) (v : JV) (ha : eval orc fuel a (ctx.withInput ctx.input) = .ok (some v)) :
    eval orc (fuel + 1) (.call "|" [a, b]) ctx = eval orc fuel b ((ctx.withInput ctx.input).withInput v) := by
  call_simp [callBasic.go, ha]
  cases eval orc fuel b ((ctx.withInput ctx.input).withInput v) with
  | error e => rfl
  | ok v => cases v <;> rfl

/-- the pipe stops at the first nothing -/
theorem pipe_nothing (a : Expr) (rest : List Expr) (ha : eval orc fuel a (ctx.withInput ctx.input) = .ok none) :
    eval orc (fuel + 1) (.call "|" (a :: rest)) ctx = .ok none := by
  call_simp [callBasic.go, ha]

example : eval {} 5 (.call "=" [.const (.num (.pos 1)), .const (.num (.pos 3))]) {} = .ok (some (.bool false)) := by
  rw [eq_vals {} 4 {} _ _ (.num (.pos 1)) (.num (.pos 3)) rfl rfl]; simp [JV.beq, Num.beq]
example : eval {} 5 (.call "?" [.const (.bool true), .const (.num (.pos 1)), .const (.num (.pos 3))]) {}
    = .ok (some (.num (.pos 1))) :=
  cond_true {} 4 {} _ _ _ rfl
example : eval {} 5 (.call "default" [.var "x".toList, .const (.num (.pos 3)), .const .null]) {}
    = .ok (some (.num (.pos 3))) :=
  default_first_value {} 4 {} [.var "x".toList] [.const .null] (.const (.num (.pos 3))) _
    (by intro e he; simp at he; subst he; rfl) rfl

/-! ## 9. Numeric results with zero fractional part are integers (`impl From<f64> for JsonValue`) -/

/-- integral and in `[0, 2^64-1)`: a `Positive` integer, never a float -/
theorem ofF64_pos (f : F64) (hfr : f.fractIsZero = true) (h0 : F64.le F64.zero f = true)
    (h1 : F64.lt f (F64.ofNat (2 ^ 64 - 1)) = true) :
    Num.ofF64 f = .pos f.toU64 := by
  simp only [Num.ofF64, hfr, h0, h1, Bool.and_self, if_true]

/-- a value below zero is not at least zero (IEEE comparisons of the model) -/
theorem not_le_zero_of_lt_zero (f : F64) (h : F64.lt f F64.zero = true) : F64.le F64.zero f = false := by
  cases f with
  | nan => simp [F64.lt] at h
  | inf s => cases s <;> simp_all [F64.lt, F64.le, F64.eq, F64.zero]
  | fin s m e =>
    by_cases hm : m = 0
    · simp [F64.lt, F64.zero, hm] at h
    · cases s <;> simp_all [F64.lt, F64.le, F64.eq, F64.zero]

/-- integral and in `[-2^63, 0)`: a `Negative` integer, never a float -/
theorem ofF64_neg (f : F64) (hfr : f.fractIsZero = true) (h0 : F64.lt f F64.zero = true)
    (h1 : F64.le (F64.ofInt (-(2 ^ 63))) f = true) :
    Num.ofF64 f = .neg f.toI64 := by
  simp only [Num.ofF64, hfr, h0, h1, not_le_zero_of_lt_zero f h0, Bool.false_and, Bool.and_self, if_true,
    Bool.false_eq_true, if_false]

/-- a non-zero fractional part (or an infinity / NaN): a float -/
theorem ofF64_flt (f : F64) (hfr : f.fractIsZero = false) : Num.ofF64 f = .flt f := by
  simp [Num.ofF64, hfr]

/-- integral but outside both ranges: a float -/
theorem ofF64_flt_big (f : F64)
    (hp : (F64.le F64.zero f && F64.lt f (F64.ofNat (2 ^ 64 - 1))) = false)
    (hn : (F64.lt f F64.zero && F64.le (F64.ofInt (-(2 ^ 63))) f) = false) : Num.ofF64 f = .flt f := by
  unfold Num.ofF64
  rw [hp, hn]
  simp

/-- so an integral value in range is never rendered through the float printer -/
theorem ofF64_not_flt (f : F64) (hfr : f.fractIsZero = true)
    (h : (F64.le F64.zero f = true ∧ F64.lt f (F64.ofNat (2 ^ 64 - 1)) = true) ∨
         (F64.lt f F64.zero = true ∧ F64.le (F64.ofInt (-(2 ^ 63))) f = true)) :
    ∀ g, Num.ofF64 f ≠ .flt g := by
  intro g
  rcases h with ⟨h0, h1⟩ | ⟨h0, h1⟩
  · rw [ofF64_pos f hfr h0 h1]; exact fun h => Num.noConfusion h
  · rw [ofF64_neg f hfr h0 h1]; exact fun h => Num.noConfusion h

example : Num.ofF64 (F64.ofNat 7) = .pos 7 := by
  rw [ofF64_pos _ (by decide) (by decide) (by decide)]; decide
example : Num.ofF64 (F64.ofInt (-7)) = .neg (-7) := by
  rw [ofF64_neg _ (by decide) (by decide) (by decide)]; decide
example : Num.ofF64 (F64.fin false 3 (-1)) = .flt (F64.fin false 3 (-1)) := ofF64_flt _ (by decide)

/-- `+` on two numbers: the `f64` sum (starting from `0.0`), converted back by `From<f64>`; an overflow is nothing -/
theorem add_nums (a b : Expr) (x y : Num)
    (ha : eval orc fuel a ctx = .ok (some (.num x))) (hb : eval orc fuel b ctx = .ok (some (.num y))) :
    eval orc (fuel + 1) (.call "+" [a, b]) ctx =
      .ok (jnumFinite (F64.add (F64.add F64.zero x.toF64) y.toF64)) := by
  call_simp [ha, hb, foldArgs]

/-- a non-number argument ⇒ nothing -/
theorem add_non_number_left (a b : Expr) (v : Option JV) (hv : numArg v = none)
    (ha : eval orc fuel a ctx = .ok v) :
    eval orc (fuel + 1) (.call "+" [a, b]) ctx = .ok none := by
  call_simp [ha, foldArgs]
  simp only [numArg] at hv
  simp only [hv]

theorem add_non_number_right (a b : Expr) (x : Num) (w : Option JV) (hw : numArg w = none)
    (ha : eval orc fuel a ctx = .ok (some (.num x))) (hb : eval orc fuel b ctx = .ok w) :
    eval orc (fuel + 1) (.call "+" [a, b]) ctx = .ok none := by
  call_simp [ha, hb, foldArgs]
  simp only [numArg] at hw
  simp only [hw]

/-- when the `f64` sum is finite, integral and in `[0, 2^64-1)` the result of `+` is an integer value -/
theorem add_nums_integral (a b : Expr) (x y : Num) (s : F64)
    (hs : F64.add (F64.add F64.zero x.toF64) y.toF64 = s)
    (hfin : s.isFinite = true) (hfr : s.fractIsZero = true) (h0 : F64.le F64.zero s = true)
    (h1 : F64.lt s (F64.ofNat (2 ^ 64 - 1)) = true)
    (ha : eval orc fuel a ctx = .ok (some (.num x))) (hb : eval orc fuel b ctx = .ok (some (.num y))) :
    eval orc (fuel + 1) (.call "+" [a, b]) ctx = .ok (some (.num (.pos s.toU64))) := by
  rw [add_nums orc fuel ctx a b x y ha hb, hs]
  simp only [jnumFinite, hfin, if_true, jnum, ofF64_pos s hfr h0 h1]

example : eval {} 5 (.call "+" [.const (.num (.pos 2)), .const (.num (.pos 3))]) {} = .ok (some (.num (.pos 5))) := by
  rw [add_nums_integral {} 4 {} _ _ (.pos 2) (.pos 3) _ rfl (by decide +kernel) (by decide +kernel)
    (by decide +kernel) (by decide +kernel) rfl rfl]
  have : (F64.add (F64.add F64.zero (Num.pos 2).toF64) (Num.pos 3).toF64).toU64 = 5 := by decide +kernel
  rw [this]

/-! ### exact integer addition: `F64.add (ofNat m) (ofNat n) = ofNat (m + n)` below `2^53` -/

theorem scaleDiv_exact (k j t : Nat) :
    F64.scaleDiv (k * 2 ^ j) (2 ^ j) (-(t : Int)) = (k * 2 ^ t, 0, 2 ^ j) := by
  unfold F64.scaleDiv
  by_cases ht : t = 0
  · subst ht
    simp [Nat.mul_div_cancel _ (Nat.two_pow_pos j)]
  · have h1 : ¬ (0 : Int) ≤ -(t : Int) := by omega
    have h2 : (- -(t : Int)).toNat = t := by omega
    simp only [h1, if_false, h2]
    have : k * 2 ^ j * 2 ^ t = (k * 2 ^ t) * 2 ^ j := by
      rw [Nat.mul_assoc, Nat.mul_comm (2 ^ j), ← Nat.mul_assoc]
    rw [this, Nat.mul_div_cancel _ (Nat.two_pow_pos j), Nat.mul_mod_left]

theorem log2_mul_two_pow (k j : Nat) (hk0 : k ≠ 0) : Nat.log2 (k * 2 ^ j) = Nat.log2 k + j := by
  have hpos : k * 2 ^ j ≠ 0 := Nat.mul_ne_zero hk0 (Nat.pos_iff_ne_zero.1 (Nat.two_pow_pos j))
  rw [Nat.log2_eq_iff hpos]
  constructor
  · rw [Nat.pow_add]; exact Nat.mul_le_mul_right _ (Nat.log2_self_le hk0)
  · rw [show Nat.log2 k + j + 1 = (Nat.log2 k + 1) + j by omega, Nat.pow_add]
    exact Nat.mul_lt_mul_of_pos_right Nat.lt_log2_self (Nat.two_pow_pos j)

/-- an integer below `2^53`, given as a fraction with a power of two as denominator, is rounded to itself -/
theorem roundRat_exact (s : Bool) (k j : Nat) (hk0 : k ≠ 0) (hk : k < 2 ^ 53) :
    F64.roundRat s (k * 2 ^ j) (2 ^ j) = .fin s (k * 2 ^ (52 - Nat.log2 k)) (-((52 - Nat.log2 k : Nat) : Int)) := by
  have hL : Nat.log2 k < 53 := (Nat.log2_lt hk0).2 hk
  have hpos : k * 2 ^ j ≠ 0 := Nat.mul_ne_zero hk0 (Nat.pos_iff_ne_zero.1 (Nat.two_pow_pos j))
  have hden : (2 : Nat) ^ j ≠ 0 := Nat.pos_iff_ne_zero.1 (Nat.two_pow_pos j)
  have he1 : ((Nat.log2 (k * 2 ^ j) : Nat) : Int) - ((Nat.log2 (2 ^ j) : Nat) : Int) - 52
      = -((52 - Nat.log2 k : Nat) : Int) := by
    rw [log2_mul_two_pow k j hk0, Nat.log2_two_pow]; omega
  generalize ht : 52 - Nat.log2 k = t at he1 ⊢
  have hq1 : 2 ^ 52 ≤ k * 2 ^ t := by
    have h := Nat.mul_le_mul_right (2 ^ t) (Nat.log2_self_le hk0)
    rw [← Nat.pow_add, show Nat.log2 k + t = 52 by omega] at h
    exact h
  have hq2 : k * 2 ^ t < 2 ^ 53 := by
    have h := Nat.mul_lt_mul_of_pos_right (Nat.lt_log2_self (n := k)) (Nat.two_pow_pos t)
    rw [← Nat.pow_add, show Nat.log2 k + 1 + t = 53 by omega] at h
    exact h
  unfold F64.roundRat
  simp only [hpos, hden, or_self, if_false, he1, scaleDiv_exact]
  have hge : k * 2 ^ t ≥ 2 ^ 52 := hq1
  have hlt : ¬ (-(t : Int) < -1074) := by omega
  simp only [hge, if_true, hlt, if_false, scaleDiv_exact]
  have hd1 : ¬ (2 * 0 > 2 ^ j) := by simp
  have hd2 : ¬ (2 * 0 = 2 ^ j) := by have := Nat.two_pow_pos j; omega
  have hne : k * 2 ^ t ≠ 2 ^ 53 := Nat.ne_of_lt hq2
  have h971 : ¬ (-(t : Int) > 971) := by omega
  simp only [hd1, hd2, decide_false, Bool.false_and, Bool.or_self, Bool.false_eq_true, if_false, hne, h971]

/-- the exact value of a double holding the integer `n` scaled by `2^t` -/
theorem toRat_scaled (s : Bool) (n t : Nat) :
    (F64.fin s (n * 2 ^ t) (-(t : Int))).toRat = (n * 2 ^ t, 2 ^ t) := by
  unfold F64.toRat
  by_cases ht : t = 0
  · subst ht; simp
  · have h1 : ¬ (0 : Int) ≤ -(t : Int) := by omega
    have h2 : (- -(t : Int)).toNat = t := by omega
    simp only [h1, if_false, h2]

set_option exponentiation.threshold 2000 in
/-- every natural number below `2^53` is a double, exactly: `ofNat n` is `n * 2^p / 2^p` -/
theorem ofNat_exact (n : Nat) (hn : n < 2 ^ 53) :
    ∃ m e p, F64.ofNat n = .fin false m e ∧ (F64.fin false m e).toRat = (n * 2 ^ p, 2 ^ p) := by
  by_cases h0 : n = 0
  · subst h0
    refine ⟨0, -1074, 1074, rfl, ?_⟩
    simp only [F64.toRat]
    rw [if_neg (by decide)]
    exact Prod.ext (Nat.zero_mul _).symm rfl
  · refine ⟨_, _, 52 - Nat.log2 n, ?_, toRat_scaled false n _⟩
    have := roundRat_exact false n 0 h0 hn
    simpa [F64.ofNat] using this

theorem ofNat_zero : F64.ofNat 0 = F64.zero := rfl

/-- the sum of two non-negative doubles holding integers, when the sum is below `2^53`, is the exact integer -/
theorem add_exact (m1 m2 : Nat) (e1 e2 : Int) (x y p q : Nat)
    (h1 : (F64.fin false m1 e1).toRat = (x * 2 ^ p, 2 ^ p))
    (h2 : (F64.fin false m2 e2).toRat = (y * 2 ^ q, 2 ^ q)) (hlt : x + y < 2 ^ 53) :
    F64.add (.fin false m1 e1) (.fin false m2 e2) = F64.ofNat (x + y) := by
  have hN : x * 2 ^ p * 2 ^ q + y * 2 ^ q * 2 ^ p = (x + y) * 2 ^ (p + q) := by
    rw [Nat.pow_add, Nat.add_mul, Nat.mul_assoc, Nat.mul_assoc, Nat.mul_comm (2 ^ q) (2 ^ p)]
  simp only [F64.add, h1, h2, F64.addRat, BEq.rfl, if_true, hN, ← Nat.pow_add, Bool.and_self]
  by_cases h0 : x + y = 0
  · simp [h0, F64.ofNat, F64.roundRat]
  · have hne : (x + y) * 2 ^ (p + q) ≠ 0 := Nat.mul_ne_zero h0 (Nat.pos_iff_ne_zero.1 (Nat.two_pow_pos _))
    rw [if_neg hne, roundRat_exact false (x + y) (p + q) h0 hlt]
    have := roundRat_exact false (x + y) 0 h0 hlt
    simp only [Nat.pow_zero, Nat.mul_one] at this
    rw [F64.ofNat, this]

/-- `f64` addition of two natural numbers is exact as long as the sum is below `2^53` -/
theorem add_ofNat (m n : Nat) (h : m + n < 2 ^ 53) : F64.add (F64.ofNat m) (F64.ofNat n) = F64.ofNat (m + n) := by
  obtain ⟨m1, e1, p, hm, hm'⟩ := ofNat_exact m (by omega)
  obtain ⟨m2, e2, q, hn, hn'⟩ := ofNat_exact n (by omega)
  rw [hm, hn, add_exact m1 m2 e1 e2 m n p q hm' hn' h]

theorem zero_add_ofNat (n : Nat) (h : n < 2 ^ 53) : F64.add F64.zero (F64.ofNat n) = F64.ofNat n := by
  have := add_ofNat 0 n (by omega)
  rwa [ofNat_zero, Nat.zero_add] at this

theorem ofNat_max : F64.ofNat (2 ^ 64 - 1) = .fin false (2 ^ 52) 12 := by decide +kernel

/-- a natural number below `2^53` survives the trip through `f64` -/
theorem ofF64_ofNat (k : Nat) (hk : k < 2 ^ 53) : Num.ofF64 (F64.ofNat k) = .pos k := by
  by_cases h0 : k = 0
  · subst h0; decide +kernel
  · have hex := roundRat_exact false k 0 h0 hk
    simp only [Nat.pow_zero, Nat.mul_one] at hex
    generalize ht : 52 - Nat.log2 k = t at hex
    have hf : F64.ofNat k = .fin false (k * 2 ^ t) (-(t : Int)) := hex
    have hM : k * 2 ^ t ≠ 0 := Nat.mul_ne_zero h0 (Nat.pos_iff_ne_zero.1 (Nat.two_pow_pos _))
    have hfr : (F64.ofNat k).fractIsZero = true := by
      rw [hf]; unfold F64.fractIsZero
      simp [hM]
    have hle : F64.le F64.zero (F64.ofNat k) = true := by
      rw [hf]; simp [F64.le, F64.lt, F64.zero, hM]
    have hlt : F64.lt (F64.ofNat k) (F64.ofNat (2 ^ 64 - 1)) = true := by
      rw [ofNat_max, hf]
      have h12 : (F64.fin false (2 ^ 52) 12).toRat = (2 ^ 64, 1) := by decide +kernel
      simp only [F64.lt, hM, false_and, if_false, show (2 : Nat) ^ 52 ≠ 0 by decide, F64.cmpMag, toRat_scaled, h12]
      have : k * 2 ^ t * 1 < 2 ^ 64 * 2 ^ t := by
        rw [Nat.mul_one]; exact Nat.mul_lt_mul_of_pos_right (by omega) (Nat.two_pow_pos t)
      rw [Nat.compare_eq_lt.2 this]; rfl
    have hu : (F64.ofNat k).toU64 = k := by
      rw [hf]
      simp only [F64.toU64, toRat_scaled, Bool.false_eq_true, if_false, Nat.mul_div_cancel _ (Nat.two_pow_pos t)]
      rw [if_neg (by omega)]
    rw [ofF64_pos _ hfr hle hlt, hu]

/-- `(+ a b)` on two non-negative integers whose sum is below `2^53` is the exact integer sum -/
theorem add_pos_pos (a b : Expr) (m n : Nat) (h : m + n < 2 ^ 53)
    (ha : eval orc fuel a ctx = .ok (some (.num (.pos m)))) (hb : eval orc fuel b ctx = .ok (some (.num (.pos n)))) :
    eval orc (fuel + 1) (.call "+" [a, b]) ctx = .ok (some (.num (.pos (m + n)))) := by
  rw [add_nums orc fuel ctx a b _ _ ha hb]
  simp only [Num.toF64]
  rw [zero_add_ofNat m (by omega), add_ofNat m n h]
  obtain ⟨m1, e1, p, hm, -⟩ := ofNat_exact (m + n) h
  simp only [jnumFinite, jnum, ofF64_ofNat (m + n) h]
  rw [hm]; rfl

example : eval {} 5 (.call "+" [.const (.num (.pos 1234567)), .const (.num (.pos 7654321))]) {}
    = .ok (some (.num (.pos 8888888))) :=
  add_pos_pos {} 4 {} _ _ 1234567 7654321 (by decide) rfl rfl

/-! ## Further non-vacuity examples (the hypotheses of the laws are satisfiable by concrete calls) -/

section Examples
private def l3 : List JV := [.num (.pos 1), .str "x".toList, .null]
private def o2 : List (Str × JV) := [("k1".toList, .num (.pos 1)), ("k2".toList, .bool false)]

example : eval {} 5 (.call "head" [.const (.str "test-123".toList), .const (.num (.pos 4))]) {}
    = .ok (some (.str "test".toList)) := head_str {} 4 {} _ _ "test-123".toList 4 rfl rfl
example : eval {} 5 (.call "first" [.const (.arr l3)]) {} = .ok (some (.num (.pos 1))) := first_arr {} 4 {} _ l3 rfl
example : eval {} 5 (.call "last" [.const (.arr l3)]) {} = .ok (some .null) := last_arr {} 4 {} _ l3 rfl
example : eval {} 5 (.call "first" [.const (.arr [])]) {} = .ok none := first_arr {} 4 {} _ [] rfl
example : eval {} 5 (.call "pop" [.const (.arr l3)]) {} = .ok (some (.arr [.num (.pos 1), .str "x".toList])) :=
  pop_arr {} 4 {} _ l3 rfl
example : eval {} 5 (.call "pop_first" [.const (.arr l3)]) {} = .ok (some (.arr [.str "x".toList, .null])) :=
  pop_first_arr {} 4 {} _ l3 rfl
example : eval {} 5 (.call "push" [.const (.arr l3), .const (.bool true), .var "unset".toList, .const .null]) {}
    = .ok (some (.arr (l3 ++ [.bool true, .null]))) :=
  push_arr_many {} 4 {} _ _ l3 [some (.bool true), none, some .null] rfl rfl
example : eval {} 5 (.call "push_front" [.const (.arr l3), .const (.bool true), .const .null]) {}
    = .ok (some (.arr (.null :: .bool true :: l3))) :=
  push_front_arr2 {} 4 {} _ _ _ l3 (.bool true) .null rfl rfl rfl
example : eval {} 5 (.call "pop" [.call "push" [.const (.arr l3), .const (.bool true)]]) {} = .ok (some (.arr l3)) :=
  pop_push {} 3 {} _ _ l3 (.bool true) rfl rfl
example : eval {} 5 (.call "take_last" [.const (.obj o2), .const (.num (.pos 1))]) {}
    = .ok (some (.obj [("k2".toList, .bool false)])) := take_last_obj {} 4 {} _ _ o2 1 rfl rfl
example : eval {} 5 (.call "values" [.const (.obj o2)]) {} = .ok (some (.arr [.num (.pos 1), .bool false])) :=
  values_obj {} 4 {} _ o2 rfl
example : eval {} 5 (.call "entries" [.const (.obj o2)]) {} = .ok (some (.arr
    [.obj [("value".toList, .num (.pos 1)), ("key".toList, .str "k1".toList)],
     .obj [("value".toList, .bool false), ("key".toList, .str "k2".toList)]])) :=
  entries_obj {} 4 {} _ o2 rfl
example : eval {} 5 (.call "get" [.call "keys" [.const (.obj o2)], .const (.num (.pos 1))]) {}
    = .ok (some (.str "k2".toList)) := get_keys {} 3 {} _ _ o2 1 rfl rfl
example : eval {} 5 (.call "get" [.const (.obj o2), .const (.str "zz".toList)]) {} = .ok none :=
  get_obj_absent {} 4 {} _ _ o2 "zz".toList (by decide) rfl rfl
/-- `map` drops the items on which the function gives nothing: `(map [[1], 2, [3,4]] (first .))` -/
example : eval {} 5 (.call "map" [.const (.arr [.arr [.null], .bool true, .arr [.bool false, .null]]),
      .call "first" [.extract 0 []]]) {} = .ok (some (.arr [.null, .bool false])) := by
  rw [map_arr {} 4 {} _ _ [.arr [.null], .bool true, .arr [.bool false, .null]]
    (fun v => match v with | .arr l => l.head? | _ => none) rfl
    (by intro v hv; simp at hv; rcases hv with rfl | rfl | rfl <;> rfl)]
  rfl
/-- an abort inside the function is the only way `map` aborts -/
example : eval {} 5 (.call "map" [.const (.arr [.null]), .call "no-such-function" []]) {}
    = .error (.panic "unmodelled-function:no-such-function") :=
  map_arr_error {} 4 {} _ _ [.null] _ rfl rfl
example : eval {} 5 (.call "and" [.const (.bool true), .const (.bool true), .const (.bool true)]) {}
    = .ok (some (.bool true)) :=
  and_all_true {} 4 {} _ (by intro e he; simp at he; subst he; rfl)
example : eval {} 5 (.call "or" [.const (.bool false), .const (.bool true), .call "no-such-function" []]) {}
    = .ok (some (.bool true)) :=
  or_first_true {} 4 {} [.const (.bool false)] [.call "no-such-function" []] (.const (.bool true))
    (by intro e he; simp at he; subst he; rfl) rfl
example : eval {} 5 (.call "not" [.const (.num (.pos 1))]) {} = .ok none :=
  not_non_bool {} 4 {} _ (some (.num (.pos 1))) rfl rfl
example : eval {} 5 (.call "?" [.const (.bool false), .const (.num (.pos 1)), .const (.num (.pos 3))]) {}
    = .ok (some (.num (.pos 3))) := cond_false {} 4 {} _ _ _ rfl
example : eval {} 5 (.call "?" [.const .null, .const (.num (.pos 1)), .const (.num (.pos 3))]) {} = .ok none :=
  cond_non_bool {} 4 {} _ _ _ (some .null) rfl rfl
example : eval {} 5 (.call "default" [.var "x".toList, .var "y".toList]) {} = .ok none :=
  default_all_nothing {} 4 {} _ (by intro e he; simp at he; rcases he with rfl | rfl <;> rfl)
example : eval {} 5 (.call "<" [.const (.num (.pos 1)), .var "x".toList]) {} = .ok none :=
  cmp_nothing {} 4 {} "<" (by decide) _ _ (some (.num (.pos 1))) none (.inr rfl) rfl rfl
example : eval {} 5 (.call "<" [.const .null, .const (.bool true)]) {} = .ok (some (.bool true)) := by
  rw [lt_vals {} 4 {} _ _ .null (.bool true) rfl rfl]; simp [JV.cmp, JV.rank]; rfl
example : eval {} 5 (.call "|" [.const (.arr l3), .call "size" [.extract 0 []]]) {} = .ok (some (.num (.pos 3))) := by
  rw [pipe_two {} 4 {} _ _ (.arr l3) rfl]; rfl
example : eval {} 5 (.call "+" [.const (.str "1".toList), .const (.num (.pos 3))]) {} = .ok none :=
  add_non_number_left {} 4 {} _ _ (some (.str "1".toList)) rfl rfl
example : ∃ r, eval {} 5 (.call "take" [.const (.num (.pos 50)), .const (.num (.flt (.fin false 3 (-1))))]) {} = .ok r :=
  take_total {} 4 {} _ _ _ _ rfl rfl
example : Num.ofF64 (F64.ofNat 9007199254740991) = .pos 9007199254740991 := ofF64_ofNat _ (by decide)
example : F64.add (F64.ofNat 4503599627370496) (F64.ofNat 4503599627370495) = F64.ofNat 9007199254740991 :=
  add_ofNat _ _ (by decide)
end Examples

/-
  Axiom audit (`#print axioms` on every theorem of this file, 2026-09-29):
  all ⊆ {propext, Classical.choice, Quot.sound}.
  e.g.  #print axioms take_arr  /  filter_arr_result  /  add_pos_pos  /  ofF64_ofNat
-/

end Jawk.EvalLaws
