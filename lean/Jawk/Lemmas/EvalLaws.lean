/-
  Property C04: expressions evaluate to what the documentation of each function
  (`/repo/src/functions/**/<name>.rs`, `add_description_line` / `add_example`) prescribes.

  Every law is stated for arbitrary argument EXPRESSIONS `a b … : Expr`; what the arguments
  evaluate to is given by hypotheses `eval orc fuel a ctx = .ok …`, so the laws do not depend
  on how the arguments are spelled, and hold for collections of every size.
  `eval … = .ok none` is the evaluator's "nothing".
-/
import Jawk.Model.Eval
namespace Jawk.EvalLaws
open Jawk

/-! ## Dispatch: `callFn` tries the groups in order; a name of a later group is skipped by the earlier ones -/
section Dispatch
variable (ev : Ev) (args : List Expr) (ctx : Ctx)

theorem skipB_first : callBasic ev "first" args ctx = none := rfl
theorem skipB_last : callBasic ev "last" args ctx = none := rfl
theorem skipB_join : callBasic ev "join" args ctx = none := rfl
theorem skipB_pop : callBasic ev "pop" args ctx = none := rfl
theorem skipB_pop_first : callBasic ev "pop_first" args ctx = none := rfl
theorem skipB_push : callBasic ev "push" args ctx = none := rfl
theorem skipB_push_front : callBasic ev "push_front" args ctx = none := rfl
theorem skipB_reverese : callBasic ev "reverese" args ctx = none := rfl
theorem skipB_map : callBasic ev "map" args ctx = none := rfl
theorem skipB_filter : callBasic ev "filter" args ctx = none := rfl
theorem skipB_keys : callBasic ev "keys" args ctx = none := rfl
theorem skipB_values : callBasic ev "values" args ctx = none := rfl
theorem skipB_entries : callBasic ev "entries" args ctx = none := rfl
theorem skipB_head : callBasic ev "head" args ctx = none := rfl
theorem skipB_tail : callBasic ev "tail" args ctx = none := rfl
theorem skipB_add : callBasic ev "+" args ctx = none := rfl
theorem skipL_keys : callList ev "keys" args ctx = none := rfl
theorem skipL_values : callList ev "values" args ctx = none := rfl
theorem skipL_entries : callList ev "entries" args ctx = none := rfl
theorem skipL_head : callList ev "head" args ctx = none := rfl
theorem skipL_tail : callList ev "tail" args ctx = none := rfl
theorem skipL_add : callList ev "+" args ctx = none := rfl
theorem skipO_head : callObject ev "head" args ctx = none := rfl
theorem skipO_tail : callObject ev "tail" args ctx = none := rfl
theorem skipO_add : callObject ev "+" args ctx = none := rfl
theorem skipN_head : callNumber ev "head" args ctx = none := rfl
theorem skipN_tail : callNumber ev "tail" args ctx = none := rfl

end Dispatch

/-- reduces a call on a literal function name with a literal argument list, given the values of the arguments -/
macro "call_simp" "[" ts:Lean.Parser.Tactic.simpLemma,* "]" : tactic =>
  `(tactic| (
    simp only [eval, callFn, skipB_first, skipB_last, skipB_join, skipB_pop, skipB_pop_first, skipB_push,
      skipB_push_front, skipB_reverese, skipB_map, skipB_filter, skipB_keys, skipB_values, skipB_entries,
      skipB_head, skipB_tail, skipB_add, skipL_keys, skipL_values, skipL_entries, skipL_head, skipL_tail,
      skipL_add, skipO_head, skipO_tail, skipO_add, skipN_head, skipN_tail]
    simp only [callBasic, callList, callObject, callNumber, callString,
      applyArg, List.getElem?_cons_zero, List.getElem?_cons_succ, List.getElem?_nil,
      List.drop_succ_cons, List.drop_zero, mapM', List.filterMap_cons, List.filterMap_nil, id,
      bind, Except.bind, pure, Except.pure, usizeArg, strArg, numArg, Num.toUsize?, jusize, jbool, $ts,*]))

variable (orc : Oracles) (fuel : Nat) (ctx : Ctx)

/-! ## 1. `take`: "Take the first N of element in an array, object of string" -/

theorem take_arr (a b : Expr) (l : List JV) (n : Nat)
    (ha : eval orc fuel a ctx = .ok (some (.arr l))) (hb : eval orc fuel b ctx = .ok (some (.num (.pos n)))) :
    eval orc (fuel + 1) (.call "take" [a, b]) ctx = .ok (some (.arr (l.take n))) := by
  call_simp [ha, hb]

theorem take_obj (a b : Expr) (m : List (Str × JV)) (n : Nat)
    (ha : eval orc fuel a ctx = .ok (some (.obj m))) (hb : eval orc fuel b ctx = .ok (some (.num (.pos n)))) :
    eval orc (fuel + 1) (.call "take" [a, b]) ctx = .ok (some (.obj (m.take n))) := by
  call_simp [ha, hb]

theorem take_str (a b : Expr) (s : Str) (n : Nat)
    (ha : eval orc fuel a ctx = .ok (some (.str s))) (hb : eval orc fuel b ctx = .ok (some (.num (.pos n)))) :
    eval orc (fuel + 1) (.call "take" [a, b]) ctx = .ok (some (.str (s.take n))) := by
  call_simp [ha, hb]

/-- `take 0` is the empty collection -/
theorem take_arr_zero (a b : Expr) (l : List JV)
    (ha : eval orc fuel a ctx = .ok (some (.arr l))) (hb : eval orc fuel b ctx = .ok (some (.num (.pos 0)))) :
    eval orc (fuel + 1) (.call "take" [a, b]) ctx = .ok (some (.arr [])) := by
  rw [take_arr orc fuel ctx a b l 0 ha hb, List.take_zero]

theorem take_obj_zero (a b : Expr) (m : List (Str × JV))
    (ha : eval orc fuel a ctx = .ok (some (.obj m))) (hb : eval orc fuel b ctx = .ok (some (.num (.pos 0)))) :
    eval orc (fuel + 1) (.call "take" [a, b]) ctx = .ok (some (.obj [])) := by
  rw [take_obj orc fuel ctx a b m 0 ha hb, List.take_zero]

theorem take_str_zero (a b : Expr) (s : Str)
    (ha : eval orc fuel a ctx = .ok (some (.str s))) (hb : eval orc fuel b ctx = .ok (some (.num (.pos 0)))) :
    eval orc (fuel + 1) (.call "take" [a, b]) ctx = .ok (some (.str [])) := by
  rw [take_str orc fuel ctx a b s 0 ha hb, List.take_zero]

/-- `take n` with `n ≥ size` is the whole collection -/
theorem take_arr_all (a b : Expr) (l : List JV) (n : Nat) (hn : l.length ≤ n)
    (ha : eval orc fuel a ctx = .ok (some (.arr l))) (hb : eval orc fuel b ctx = .ok (some (.num (.pos n)))) :
    eval orc (fuel + 1) (.call "take" [a, b]) ctx = .ok (some (.arr l)) := by
  rw [take_arr orc fuel ctx a b l n ha hb, List.take_of_length_le hn]

theorem take_obj_all (a b : Expr) (m : List (Str × JV)) (n : Nat) (hn : m.length ≤ n)
    (ha : eval orc fuel a ctx = .ok (some (.obj m))) (hb : eval orc fuel b ctx = .ok (some (.num (.pos n)))) :
    eval orc (fuel + 1) (.call "take" [a, b]) ctx = .ok (some (.obj m)) := by
  rw [take_obj orc fuel ctx a b m n ha hb, List.take_of_length_le hn]

theorem take_str_all (a b : Expr) (s : Str) (n : Nat) (hn : s.length ≤ n)
    (ha : eval orc fuel a ctx = .ok (some (.str s))) (hb : eval orc fuel b ctx = .ok (some (.num (.pos n)))) :
    eval orc (fuel + 1) (.call "take" [a, b]) ctx = .ok (some (.str s)) := by
  rw [take_str orc fuel ctx a b s n ha hb, List.take_of_length_le hn]

/-- the result of `take` is a prefix (same elements, same order) of exactly `min n size` elements -/
theorem take_arr_prefix (a b : Expr) (l : List JV) (n : Nat)
    (ha : eval orc fuel a ctx = .ok (some (.arr l))) (hb : eval orc fuel b ctx = .ok (some (.num (.pos n)))) :
    ∃ r, eval orc (fuel + 1) (.call "take" [a, b]) ctx = .ok (some (.arr r)) ∧
      r <+: l ∧ r.Sublist l ∧ r.length = min n l.length :=
  ⟨_, take_arr orc fuel ctx a b l n ha hb, List.take_prefix n l, List.take_sublist n l, List.length_take⟩

theorem take_obj_prefix (a b : Expr) (m : List (Str × JV)) (n : Nat)
    (ha : eval orc fuel a ctx = .ok (some (.obj m))) (hb : eval orc fuel b ctx = .ok (some (.num (.pos n)))) :
    ∃ r, eval orc (fuel + 1) (.call "take" [a, b]) ctx = .ok (some (.obj r)) ∧
      r <+: m ∧ r.Sublist m ∧ r.length = min n m.length :=
  ⟨_, take_obj orc fuel ctx a b m n ha hb, List.take_prefix n m, List.take_sublist n m, List.length_take⟩

theorem take_str_prefix (a b : Expr) (s : Str) (n : Nat)
    (ha : eval orc fuel a ctx = .ok (some (.str s))) (hb : eval orc fuel b ctx = .ok (some (.num (.pos n)))) :
    ∃ r, eval orc (fuel + 1) (.call "take" [a, b]) ctx = .ok (some (.str r)) ∧
      r <+: s ∧ r.Sublist s ∧ r.length = min n s.length :=
  ⟨_, take_str orc fuel ctx a b s n ha hb, List.take_prefix n s, List.take_sublist n s, List.length_take⟩

example : eval {} 10 (.call "take" [.const (.arr [.null, .bool true]), .const (.num (.pos 0))]) {} = .ok (some (.arr [])) := by
  rfl
example : eval {} 10 (.call "take" [.const (.arr [.null, .bool true, .null]), .const (.num (.pos 2))]) {}
    = .ok (some (.arr [.null, .bool true])) :=
  take_arr {} 9 {} _ _ [.null, .bool true, .null] 2 rfl rfl
example : eval {} 10 (.call "take" [.const (.str "abc".toList), .const (.num (.pos 7))]) {}
    = .ok (some (.str "abc".toList)) :=
  take_str_all {} 9 {} _ _ _ 7 (by decide) rfl rfl

/-! ## 2. `take_last`: "Take the last N of element in an array, object of string" -/

theorem take_last_arr (a b : Expr) (l : List JV) (n : Nat)
    (ha : eval orc fuel a ctx = .ok (some (.arr l))) (hb : eval orc fuel b ctx = .ok (some (.num (.pos n)))) :
    eval orc (fuel + 1) (.call "take_last" [a, b]) ctx = .ok (some (.arr (l.drop (l.length - n)))) := by
  call_simp [ha, hb]

theorem take_last_obj (a b : Expr) (m : List (Str × JV)) (n : Nat)
    (ha : eval orc fuel a ctx = .ok (some (.obj m))) (hb : eval orc fuel b ctx = .ok (some (.num (.pos n)))) :
    eval orc (fuel + 1) (.call "take_last" [a, b]) ctx = .ok (some (.obj (m.drop (m.length - n)))) := by
  call_simp [ha, hb]

theorem take_last_str (a b : Expr) (s : Str) (n : Nat)
    (ha : eval orc fuel a ctx = .ok (some (.str s))) (hb : eval orc fuel b ctx = .ok (some (.num (.pos n)))) :
    eval orc (fuel + 1) (.call "take_last" [a, b]) ctx = .ok (some (.str (s.drop (s.length - n)))) := by
  call_simp [ha, hb]

/-- the last `n` elements: a suffix of exactly `min n size` elements, so that
`whole = (the first size - n) ++ result` -/
theorem drop_length_sub {α} (l : List α) (n : Nat) :
    l.drop (l.length - n) <:+ l ∧ (l.drop (l.length - n)).Sublist l ∧
    (l.drop (l.length - n)).length = min n l.length ∧
    l.take (l.length - n) ++ l.drop (l.length - n) = l :=
  ⟨List.drop_suffix _ l, List.drop_sublist _ l, by rw [List.length_drop]; omega, List.take_append_drop _ l⟩

theorem take_last_arr_suffix (a b : Expr) (l : List JV) (n : Nat)
    (ha : eval orc fuel a ctx = .ok (some (.arr l))) (hb : eval orc fuel b ctx = .ok (some (.num (.pos n)))) :
    ∃ r, eval orc (fuel + 1) (.call "take_last" [a, b]) ctx = .ok (some (.arr r)) ∧
      r <:+ l ∧ r.Sublist l ∧ r.length = min n l.length :=
  ⟨_, take_last_arr orc fuel ctx a b l n ha hb, (drop_length_sub l n).1, (drop_length_sub l n).2.1, (drop_length_sub l n).2.2.1⟩

theorem take_last_obj_suffix (a b : Expr) (m : List (Str × JV)) (n : Nat)
    (ha : eval orc fuel a ctx = .ok (some (.obj m))) (hb : eval orc fuel b ctx = .ok (some (.num (.pos n)))) :
    ∃ r, eval orc (fuel + 1) (.call "take_last" [a, b]) ctx = .ok (some (.obj r)) ∧
      r <:+ m ∧ r.Sublist m ∧ r.length = min n m.length :=
  ⟨_, take_last_obj orc fuel ctx a b m n ha hb, (drop_length_sub m n).1, (drop_length_sub m n).2.1, (drop_length_sub m n).2.2.1⟩

theorem take_last_str_suffix (a b : Expr) (s : Str) (n : Nat)
    (ha : eval orc fuel a ctx = .ok (some (.str s))) (hb : eval orc fuel b ctx = .ok (some (.num (.pos n)))) :
    ∃ r, eval orc (fuel + 1) (.call "take_last" [a, b]) ctx = .ok (some (.str r)) ∧
      r <:+ s ∧ r.Sublist s ∧ r.length = min n s.length :=
  ⟨_, take_last_str orc fuel ctx a b s n ha hb, (drop_length_sub s n).1, (drop_length_sub s n).2.1, (drop_length_sub s n).2.2.1⟩

/-- `take_last 0` is the empty collection -/
theorem take_last_arr_zero (a b : Expr) (l : List JV)
    (ha : eval orc fuel a ctx = .ok (some (.arr l))) (hb : eval orc fuel b ctx = .ok (some (.num (.pos 0)))) :
    eval orc (fuel + 1) (.call "take_last" [a, b]) ctx = .ok (some (.arr [])) := by
  rw [take_last_arr orc fuel ctx a b l 0 ha hb, Nat.sub_zero, List.drop_length]

theorem take_last_obj_zero (a b : Expr) (m : List (Str × JV))
    (ha : eval orc fuel a ctx = .ok (some (.obj m))) (hb : eval orc fuel b ctx = .ok (some (.num (.pos 0)))) :
    eval orc (fuel + 1) (.call "take_last" [a, b]) ctx = .ok (some (.obj [])) := by
  rw [take_last_obj orc fuel ctx a b m 0 ha hb, Nat.sub_zero, List.drop_length]

theorem take_last_str_zero (a b : Expr) (s : Str)
    (ha : eval orc fuel a ctx = .ok (some (.str s))) (hb : eval orc fuel b ctx = .ok (some (.num (.pos 0)))) :
    eval orc (fuel + 1) (.call "take_last" [a, b]) ctx = .ok (some (.str [])) := by
  rw [take_last_str orc fuel ctx a b s 0 ha hb, Nat.sub_zero, List.drop_length]

/-- `take_last n` with `n ≥ size` is the whole collection -/
theorem take_last_arr_all (a b : Expr) (l : List JV) (n : Nat) (hn : l.length ≤ n)
    (ha : eval orc fuel a ctx = .ok (some (.arr l))) (hb : eval orc fuel b ctx = .ok (some (.num (.pos n)))) :
    eval orc (fuel + 1) (.call "take_last" [a, b]) ctx = .ok (some (.arr l)) := by
  rw [take_last_arr orc fuel ctx a b l n ha hb, Nat.sub_eq_zero_of_le hn, List.drop_zero]

theorem take_last_obj_all (a b : Expr) (m : List (Str × JV)) (n : Nat) (hn : m.length ≤ n)
    (ha : eval orc fuel a ctx = .ok (some (.obj m))) (hb : eval orc fuel b ctx = .ok (some (.num (.pos n)))) :
    eval orc (fuel + 1) (.call "take_last" [a, b]) ctx = .ok (some (.obj m)) := by
  rw [take_last_obj orc fuel ctx a b m n ha hb, Nat.sub_eq_zero_of_le hn, List.drop_zero]

theorem take_last_str_all (a b : Expr) (s : Str) (n : Nat) (hn : s.length ≤ n)
    (ha : eval orc fuel a ctx = .ok (some (.str s))) (hb : eval orc fuel b ctx = .ok (some (.num (.pos n)))) :
    eval orc (fuel + 1) (.call "take_last" [a, b]) ctx = .ok (some (.str s)) := by
  rw [take_last_str orc fuel ctx a b s n ha hb, Nat.sub_eq_zero_of_le hn, List.drop_zero]

/-! ### `sub`: "creates a new list that start from the second arguments and has the size of the third argument" -/

theorem sub_arr (a b c : Expr) (l : List JV) (start len : Nat)
    (ha : eval orc fuel a ctx = .ok (some (.arr l))) (hb : eval orc fuel b ctx = .ok (some (.num (.pos start))))
    (hc : eval orc fuel c ctx = .ok (some (.num (.pos len)))) :
    eval orc (fuel + 1) (.call "sub" [a, b, c]) ctx = .ok (some (.arr ((l.drop start).take len))) := by
  call_simp [ha, hb, hc]

theorem sub_obj (a b c : Expr) (m : List (Str × JV)) (start len : Nat)
    (ha : eval orc fuel a ctx = .ok (some (.obj m))) (hb : eval orc fuel b ctx = .ok (some (.num (.pos start))))
    (hc : eval orc fuel c ctx = .ok (some (.num (.pos len)))) :
    eval orc (fuel + 1) (.call "sub" [a, b, c]) ctx = .ok (some (.obj ((m.drop start).take len))) := by
  call_simp [ha, hb, hc]

theorem sub_str (a b c : Expr) (s : Str) (start len : Nat)
    (ha : eval orc fuel a ctx = .ok (some (.str s))) (hb : eval orc fuel b ctx = .ok (some (.num (.pos start))))
    (hc : eval orc fuel c ctx = .ok (some (.num (.pos len)))) :
    eval orc (fuel + 1) (.call "sub" [a, b, c]) ctx = .ok (some (.str ((s.drop start).take len))) := by
  call_simp [ha, hb, hc]

/-- shape of `sub`: a contiguous piece, in order, of `min len (size - start)` elements, whose `i`-th element is
element `start + i` of the whole -/
theorem drop_take_spec {α} (l : List α) (start len : Nat) :
    (l.drop start).take len <:+: l ∧ ((l.drop start).take len).Sublist l ∧
    ((l.drop start).take len).length = min len (l.length - start) ∧
    ∀ i, i < len → ((l.drop start).take len)[i]? = l[start + i]? := by
  refine ⟨?_, ?_, by simp, ?_⟩
  · exact List.IsInfix.trans (List.take_prefix _ _).isInfix (List.drop_suffix _ _).isInfix
  · exact (List.take_sublist _ _).trans (List.drop_sublist _ _)
  · intro i hi
    rw [List.getElem?_take_of_lt hi, List.getElem?_drop]

/-- `sub x 0 n` is `take x n` -/
theorem sub_zero_eq_take_arr (a b c : Expr) (l : List JV) (len : Nat)
    (ha : eval orc fuel a ctx = .ok (some (.arr l))) (hb : eval orc fuel b ctx = .ok (some (.num (.pos 0))))
    (hc : eval orc fuel c ctx = .ok (some (.num (.pos len)))) :
    eval orc (fuel + 1) (.call "sub" [a, b, c]) ctx = eval orc (fuel + 1) (.call "take" [a, c]) ctx := by
  rw [sub_arr orc fuel ctx a b c l 0 len ha hb hc, take_arr orc fuel ctx a c l len ha hc, List.drop_zero]

/-- a start beyond the end gives the empty collection -/
theorem sub_arr_beyond (a b c : Expr) (l : List JV) (start len : Nat) (h : l.length ≤ start)
    (ha : eval orc fuel a ctx = .ok (some (.arr l))) (hb : eval orc fuel b ctx = .ok (some (.num (.pos start))))
    (hc : eval orc fuel c ctx = .ok (some (.num (.pos len)))) :
    eval orc (fuel + 1) (.call "sub" [a, b, c]) ctx = .ok (some (.arr [])) := by
  rw [sub_arr orc fuel ctx a b c l start len ha hb hc, List.drop_of_length_le h, List.take_nil]

/-! ### `first`, `last`, `pop`, `pop_first`, `push`, `push_front`, `reverese` -/

/-- "The first item in a list." (nothing for the empty list) -/
theorem first_arr (a : Expr) (l : List JV) (ha : eval orc fuel a ctx = .ok (some (.arr l))) :
    eval orc (fuel + 1) (.call "first" [a]) ctx = .ok l.head? := by
  call_simp [ha]

/-- "The last item in a list." (nothing for the empty list) -/
theorem last_arr (a : Expr) (l : List JV) (ha : eval orc fuel a ctx = .ok (some (.arr l))) :
    eval orc (fuel + 1) (.call "last" [a]) ctx = .ok l.getLast? := by
  call_simp [ha]

/-- "will return the list without it's last argument" -/
theorem pop_arr (a : Expr) (l : List JV) (ha : eval orc fuel a ctx = .ok (some (.arr l))) :
    eval orc (fuel + 1) (.call "pop" [a]) ctx = .ok (some (.arr l.dropLast)) := by
  call_simp [ha]

/-- "will return the list without it's first argument" -/
theorem pop_first_arr (a : Expr) (l : List JV) (ha : eval orc fuel a ctx = .ok (some (.arr l))) :
    eval orc (fuel + 1) (.call "pop_first" [a]) ctx = .ok (some (.arr l.tail)) := by
  call_simp [ha]
  simp

/-- "Reveres the order of a list." -/
theorem reverese_arr (a : Expr) (l : List JV) (ha : eval orc fuel a ctx = .ok (some (.arr l))) :
    eval orc (fuel + 1) (.call "reverese" [a]) ctx = .ok (some (.arr l.reverse)) := by
  call_simp [ha]

/-- "will iterate over all the other arguments and add them to the list if they exists": general form,
`vs` are the values of the other arguments -/
theorem push_arr_many (a : Expr) (xs : List Expr) (l : List JV) (vs : List (Option JV))
    (ha : eval orc fuel a ctx = .ok (some (.arr l)))
    (hxs : mapM' (fun e => eval orc fuel e ctx) xs = .ok vs) :
    eval orc (fuel + 1) (.call "push" (a :: xs)) ctx = .ok (some (.arr (l ++ vs.filterMap id))) := by
  call_simp [ha, hxs]

theorem push_arr (a x : Expr) (l : List JV) (v : JV)
    (ha : eval orc fuel a ctx = .ok (some (.arr l))) (hx : eval orc fuel x ctx = .ok (some v)) :
    eval orc (fuel + 1) (.call "push" [a, x]) ctx = .ok (some (.arr (l ++ [v]))) := by
  call_simp [ha, hx]

/-- an argument that is nothing is not added -/
theorem push_arr_nothing (a x : Expr) (l : List JV)
    (ha : eval orc fuel a ctx = .ok (some (.arr l))) (hx : eval orc fuel x ctx = .ok none) :
    eval orc (fuel + 1) (.call "push" [a, x]) ctx = .ok (some (.arr l)) := by
  call_simp [ha, hx]
  simp

theorem push_arr2 (a x y : Expr) (l : List JV) (v w : JV)
    (ha : eval orc fuel a ctx = .ok (some (.arr l))) (hx : eval orc fuel x ctx = .ok (some v))
    (hy : eval orc fuel y ctx = .ok (some w)) :
    eval orc (fuel + 1) (.call "push" [a, x, y]) ctx = .ok (some (.arr (l ++ [v, w]))) := by
  call_simp [ha, hx, hy]

theorem push_front_arr_many (a : Expr) (xs : List Expr) (l : List JV) (vs : List (Option JV))
    (ha : eval orc fuel a ctx = .ok (some (.arr l)))
    (hxs : mapM' (fun e => eval orc fuel e ctx) xs = .ok vs) :
    eval orc (fuel + 1) (.call "push_front" (a :: xs)) ctx = .ok (some (.arr ((vs.filterMap id).reverse ++ l))) := by
  call_simp [ha, hxs]

theorem push_front_arr (a x : Expr) (l : List JV) (v : JV)
    (ha : eval orc fuel a ctx = .ok (some (.arr l))) (hx : eval orc fuel x ctx = .ok (some v)) :
    eval orc (fuel + 1) (.call "push_front" [a, x]) ctx = .ok (some (.arr (v :: l))) := by
  call_simp [ha, hx]
  simp

/-- each further argument is put in front of the previous ones -/
theorem push_front_arr2 (a x y : Expr) (l : List JV) (v w : JV)
    (ha : eval orc fuel a ctx = .ok (some (.arr l))) (hx : eval orc fuel x ctx = .ok (some v))
    (hy : eval orc fuel y ctx = .ok (some w)) :
    eval orc (fuel + 1) (.call "push_front" [a, x, y]) ctx = .ok (some (.arr (w :: v :: l))) := by
  call_simp [ha, hx, hy]
  simp

/-! composite laws (the inner call is an argument expression of the outer one) -/

/-- `reverese` is an involution -/
theorem reverese_reverese (a : Expr) (l : List JV) (ha : eval orc fuel a ctx = .ok (some (.arr l))) :
    eval orc (fuel + 2) (.call "reverese" [.call "reverese" [a]]) ctx = .ok (some (.arr l)) := by
  rw [reverese_arr orc (fuel + 1) ctx _ _ (reverese_arr orc fuel ctx a l ha), List.reverse_reverse]

/-- `pop (push l x) = l` -/
theorem pop_push (a x : Expr) (l : List JV) (v : JV)
    (ha : eval orc fuel a ctx = .ok (some (.arr l))) (hx : eval orc fuel x ctx = .ok (some v)) :
    eval orc (fuel + 2) (.call "pop" [.call "push" [a, x]]) ctx = .ok (some (.arr l)) := by
  rw [pop_arr orc (fuel + 1) ctx _ _ (push_arr orc fuel ctx a x l v ha hx), List.dropLast_concat]

/-- `last (push l x) = x` -/
theorem last_push (a x : Expr) (l : List JV) (v : JV)
    (ha : eval orc fuel a ctx = .ok (some (.arr l))) (hx : eval orc fuel x ctx = .ok (some v)) :
    eval orc (fuel + 2) (.call "last" [.call "push" [a, x]]) ctx = .ok (some v) := by
  rw [last_arr orc (fuel + 1) ctx _ _ (push_arr orc fuel ctx a x l v ha hx), List.getLast?_concat]

/-- `first (push_front l x) = x` and `pop_first (push_front l x) = l` -/
theorem first_push_front (a x : Expr) (l : List JV) (v : JV)
    (ha : eval orc fuel a ctx = .ok (some (.arr l))) (hx : eval orc fuel x ctx = .ok (some v)) :
    eval orc (fuel + 2) (.call "first" [.call "push_front" [a, x]]) ctx = .ok (some v) := by
  rw [first_arr orc (fuel + 1) ctx _ _ (push_front_arr orc fuel ctx a x l v ha hx), List.head?_cons]

theorem pop_first_push_front (a x : Expr) (l : List JV) (v : JV)
    (ha : eval orc fuel a ctx = .ok (some (.arr l))) (hx : eval orc fuel x ctx = .ok (some v)) :
    eval orc (fuel + 2) (.call "pop_first" [.call "push_front" [a, x]]) ctx = .ok (some (.arr l)) := by
  rw [pop_first_arr orc (fuel + 1) ctx _ _ (push_front_arr orc fuel ctx a x l v ha hx), List.tail_cons]

/-- `first` is `get 0`, and agrees with `take 1` -/
theorem first_eq_get_zero (a z : Expr) (l : List JV) (ha : eval orc fuel a ctx = .ok (some (.arr l)))
    (hz : eval orc fuel z ctx = .ok (some (.num (.pos 0)))) :
    eval orc (fuel + 1) (.call "first" [a]) ctx = eval orc (fuel + 1) (.call "get" [a, z]) ctx := by
  rw [first_arr orc fuel ctx a l ha]
  call_simp [ha, hz]
  cases l <;> rfl

/-! ### string `head` / `tail` -/

/-- "a string with the beggining of the first argument" -/
theorem head_str (a b : Expr) (s : Str) (n : Nat)
    (ha : eval orc fuel a ctx = .ok (some (.str s))) (hb : eval orc fuel b ctx = .ok (some (.num (.pos n)))) :
    eval orc (fuel + 1) (.call "head" [a, b]) ctx = .ok (some (.str (s.take n))) := by
  call_simp [ha, hb]

/-- `head` on a string is `take` on a string -/
theorem head_eq_take (a b : Expr) (s : Str) (n : Nat)
    (ha : eval orc fuel a ctx = .ok (some (.str s))) (hb : eval orc fuel b ctx = .ok (some (.num (.pos n)))) :
    eval orc (fuel + 1) (.call "head" [a, b]) ctx = eval orc (fuel + 1) (.call "take" [a, b]) ctx := by
  rw [head_str orc fuel ctx a b s n ha hb, take_str orc fuel ctx a b s n ha hb]

/-- "a string with the end of the first argument": the string WITHOUT its first `n` characters
(the whole string when it has fewer than `n`) -/
theorem tail_str (a b : Expr) (s : Str) (n : Nat)
    (ha : eval orc fuel a ctx = .ok (some (.str s))) (hb : eval orc fuel b ctx = .ok (some (.num (.pos n)))) :
    eval orc (fuel + 1) (.call "tail" [a, b]) ctx = .ok (some (.str (if s.length < n then s else s.drop n))) := by
  call_simp [ha, hb]

/-- the result of `tail` is a suffix, and `head s n ++ tail s n = s` whenever `n ≤ size` -/
theorem tail_str_suffix (a b : Expr) (s : Str) (n : Nat)
    (ha : eval orc fuel a ctx = .ok (some (.str s))) (hb : eval orc fuel b ctx = .ok (some (.num (.pos n)))) :
    ∃ r, eval orc (fuel + 1) (.call "tail" [a, b]) ctx = .ok (some (.str r)) ∧ r <:+ s ∧
      (n ≤ s.length → s.take n ++ r = s) := by
  refine ⟨_, tail_str orc fuel ctx a b s n ha hb, ?_, ?_⟩
  · split
    · exact List.suffix_refl s
    · exact List.drop_suffix n s
  · intro h
    rw [if_neg (by omega), List.take_append_drop]

/-! ## 3. `size`: "the number of element in an array, the number of keys in an object or the number of characters in a string" -/

theorem size_arr (a : Expr) (l : List JV) (ha : eval orc fuel a ctx = .ok (some (.arr l))) :
    eval orc (fuel + 1) (.call "size" [a]) ctx = .ok (some (.num (.pos l.length))) := by
  call_simp [ha]

theorem size_obj (a : Expr) (m : List (Str × JV)) (ha : eval orc fuel a ctx = .ok (some (.obj m))) :
    eval orc (fuel + 1) (.call "size" [a]) ctx = .ok (some (.num (.pos m.length))) := by
  call_simp [ha]

/-- characters (Unicode scalar values), not bytes -/
theorem size_str (a : Expr) (s : Str) (ha : eval orc fuel a ctx = .ok (some (.str s))) :
    eval orc (fuel + 1) (.call "size" [a]) ctx = .ok (some (.num (.pos s.length))) := by
  call_simp [ha]

/-- `size (push l x) = size l + 1` -/
theorem size_push (a x : Expr) (l : List JV) (v : JV)
    (ha : eval orc fuel a ctx = .ok (some (.arr l))) (hx : eval orc fuel x ctx = .ok (some v)) :
    eval orc (fuel + 2) (.call "size" [.call "push" [a, x]]) ctx = .ok (some (.num (.pos (l.length + 1)))) := by
  rw [size_arr orc (fuel + 1) ctx _ _ (push_arr orc fuel ctx a x l v ha hx), List.length_append]; rfl

/-- `size (take x n) = min n (size x)` -/
theorem size_take_arr (a b : Expr) (l : List JV) (n : Nat)
    (ha : eval orc fuel a ctx = .ok (some (.arr l))) (hb : eval orc fuel b ctx = .ok (some (.num (.pos n)))) :
    eval orc (fuel + 2) (.call "size" [.call "take" [a, b]]) ctx = .ok (some (.num (.pos (min n l.length)))) := by
  rw [size_arr orc (fuel + 1) ctx _ _ (take_arr orc fuel ctx a b l n ha hb), List.length_take]

theorem size_take_last_arr (a b : Expr) (l : List JV) (n : Nat)
    (ha : eval orc fuel a ctx = .ok (some (.arr l))) (hb : eval orc fuel b ctx = .ok (some (.num (.pos n)))) :
    eval orc (fuel + 2) (.call "size" [.call "take_last" [a, b]]) ctx = .ok (some (.num (.pos (min n l.length)))) := by
  rw [size_arr orc (fuel + 1) ctx _ _ (take_last_arr orc fuel ctx a b l n ha hb), (drop_length_sub l n).2.2.1]

/-- `size (reverese l) = size l` -/
theorem size_reverese (a : Expr) (l : List JV) (ha : eval orc fuel a ctx = .ok (some (.arr l))) :
    eval orc (fuel + 2) (.call "size" [.call "reverese" [a]]) ctx = .ok (some (.num (.pos l.length))) := by
  rw [size_arr orc (fuel + 1) ctx _ _ (reverese_arr orc fuel ctx a l ha), List.length_reverse]

example : eval {} 5 (.call "size" [.const (.str "añb".toList)]) {} = .ok (some (.num (.pos 3))) := by
  rw [size_str {} 4 {} _ "añb".toList rfl]; rfl
example : eval {} 5 (.call "size" [.call "push" [.const (.arr [.null]), .const (.bool true)]]) {} = .ok (some (.num (.pos 2))) :=
  size_push {} 3 {} _ _ [.null] (.bool true) rfl rfl
example : eval {} 5 (.call "take_last" [.const (.arr [.null, .bool true, .bool false]), .const (.num (.pos 2))]) {}
    = .ok (some (.arr [.bool true, .bool false])) :=
  take_last_arr {} 4 {} _ _ [.null, .bool true, .bool false] 2 rfl rfl
example : eval {} 5 (.call "sub" [.const (.str "123456".toList), .const (.num (.pos 1)), .const (.num (.pos 3))]) {}
    = .ok (some (.str "234".toList)) :=
  sub_str {} 4 {} _ _ _ "123456".toList 1 3 rfl rfl rfl
example : eval {} 5 (.call "tail" [.const (.str "test-123".toList), .const (.num (.pos 4))]) {}
    = .ok (some (.str "-123".toList)) :=
  tail_str {} 4 {} _ _ "test-123".toList 4 rfl rfl
example : eval {} 5 (.call "reverese" [.call "reverese" [.const (.arr [.null, .bool true])]]) {}
    = .ok (some (.arr [.null, .bool true])) :=
  reverese_reverese {} 3 {} _ [.null, .bool true] rfl

/-! ### `join`: "Join all the items in the list into a String. If list have non string items, it will return nuthing.
If the second argument is ommited, the items will be seperated by comma." -/

/-- the evaluator's `join` in terms of the model's loop `joinGo` (separator given) -/
theorem join_arr (a b : Expr) (l : List JV) (sep : Str)
    (ha : eval orc fuel a ctx = .ok (some (.arr l))) (hb : eval orc fuel b ctx = .ok (some (.str sep))) :
    eval orc (fuel + 1) (.call "join" [a, b]) ctx = .ok ((callList.joinGo sep [] l).map JV.str) := by
  call_simp [ha, hb]
  rfl

/-- separator omitted: `", "` -/
theorem join_arr_default (a : Expr) (l : List JV) (ha : eval orc fuel a ctx = .ok (some (.arr l))) :
    eval orc (fuel + 1) (.call "join" [a]) ctx = .ok ((callList.joinGo ", ".toList [] l).map JV.str) := by
  call_simp [ha]
  rfl

/-- once something non-empty has been accumulated every further string is preceded by the separator -/
theorem joinGo_strs_nonempty (sep acc : Str) (hacc : acc ≠ []) (ss : List Str) :
    callList.joinGo sep acc (ss.map JV.str) = some (acc ++ (ss.map (sep ++ ·)).flatten) := by
  induction ss generalizing acc with
  | nil => simp [callList.joinGo]
  | cons s ss ih =>
    have hne : List.isEmpty acc = false := by cases acc <;> simp_all
    have h2 : acc ++ sep ++ s ≠ [] := by simp [hacc]
    simp only [List.map_cons, callList.joinGo, hne, Bool.false_eq_true, if_false]
    rw [ih _ h2]
    simp [List.append_assoc]

theorem intercalate_cons_eq (sep s : Str) (ss : List Str) :
    s ++ (ss.map (sep ++ ·)).flatten = sep.intercalate (s :: ss) := by
  induction ss generalizing s with
  | nil => simp [List.intercalate]
  | cons t ss ih =>
    have h := ih t
    simp only [List.intercalate] at h ⊢
    simp only [List.map_cons, List.flatten_cons, List.intersperse_cons_cons, ← h, List.append_assoc]

/-- a list of strings whose first one is not empty is joined with the separator between consecutive items -/
theorem joinGo_strs (sep s : Str) (hs : s ≠ []) (ss : List Str) :
    callList.joinGo sep [] ((s :: ss).map JV.str) = some (sep.intercalate (s :: ss)) := by
  simp only [List.map_cons, callList.joinGo, List.isEmpty_nil, if_true, List.nil_append,
    joinGo_strs_nonempty sep s hs ss]
  rw [intercalate_cons_eq]

/-- leading empty strings do not get a separator (the Rust tests `!str.is_empty()` instead of "first item") -/
theorem joinGo_nil_cons (sep : Str) (rest : List JV) :
    callList.joinGo sep [] (JV.str [] :: rest) = callList.joinGo sep [] rest := by
  simp [callList.joinGo]

theorem joinGo_nil (sep : Str) : callList.joinGo sep [] [] = some [] := rfl

/-- an item that is not a string makes the result nothing -/
theorem joinGo_non_string (sep acc : Str) (l : List JV) (h : ∃ v ∈ l, ∀ s, v ≠ JV.str s) :
    callList.joinGo sep acc l = none := by
  induction l generalizing acc with
  | nil => simp at h
  | cons x xs ih =>
    obtain ⟨v, hv, hns⟩ := h
    cases x with
    | str s =>
      rw [callList.joinGo]
      apply ih
      rcases List.mem_cons.1 hv with rfl | h'
      · exact absurd rfl (hns s)
      · exact ⟨v, h', hns⟩
    | _ => simp [callList.joinGo]

theorem join_strs (a b : Expr) (s : Str) (ss : List Str) (sep : Str) (hs : s ≠ [])
    (ha : eval orc fuel a ctx = .ok (some (.arr ((s :: ss).map JV.str))))
    (hb : eval orc fuel b ctx = .ok (some (.str sep))) :
    eval orc (fuel + 1) (.call "join" [a, b]) ctx = .ok (some (.str (sep.intercalate (s :: ss)))) := by
  rw [join_arr orc fuel ctx a b _ sep ha hb, joinGo_strs sep s hs ss]; rfl

theorem join_non_string (a b : Expr) (l : List JV) (sep : Str) (h : ∃ v ∈ l, ∀ s, v ≠ JV.str s)
    (ha : eval orc fuel a ctx = .ok (some (.arr l))) (hb : eval orc fuel b ctx = .ok (some (.str sep))) :
    eval orc (fuel + 1) (.call "join" [a, b]) ctx = .ok none := by
  rw [join_arr orc fuel ctx a b _ sep ha hb, joinGo_non_string sep [] l h]; rfl

example : eval {} 5 (.call "join" [.const (.arr [.str "one".toList, .str "two".toList, .str "three".toList])]) {}
    = .ok (some (.str "one, two, three".toList)) := by
  rw [join_arr_default {} 4 {} _ _ rfl]; rfl
example : eval {} 5 (.call "join" [.const (.arr [.str "a".toList, .str "b".toList]), .const (.str ";".toList)]) {}
    = .ok (some (.str "a;b".toList)) :=
  join_strs {} 4 {} _ _ "a".toList ["b".toList] ";".toList (by decide) rfl rfl
/-- the quirk: `join ["", "a"]` is `"a"`, not `", a"` -/
example : eval {} 5 (.call "join" [.const (.arr [.str [], .str "a".toList])]) {} = .ok (some (.str "a".toList)) := by
  rw [join_arr_default {} 4 {} _ _ rfl]; rfl

/-! ## 4. `get` ("Get an item from an array by index or from a map by key"), `keys`, `values`, `entries` -/

theorem get_arr (a b : Expr) (l : List JV) (i : Nat)
    (ha : eval orc fuel a ctx = .ok (some (.arr l))) (hb : eval orc fuel b ctx = .ok (some (.num (.pos i)))) :
    eval orc (fuel + 1) (.call "get" [a, b]) ctx = .ok l[i]? := by
  call_simp [ha, hb]

theorem get_arr_lt (a b : Expr) (l : List JV) (i : Nat) (h : i < l.length)
    (ha : eval orc fuel a ctx = .ok (some (.arr l))) (hb : eval orc fuel b ctx = .ok (some (.num (.pos i)))) :
    eval orc (fuel + 1) (.call "get" [a, b]) ctx = .ok (some l[i]) := by
  rw [get_arr orc fuel ctx a b l i ha hb, List.getElem?_eq_getElem h]

/-- an index past the end gives nothing -/
theorem get_arr_out (a b : Expr) (l : List JV) (i : Nat) (h : l.length ≤ i)
    (ha : eval orc fuel a ctx = .ok (some (.arr l))) (hb : eval orc fuel b ctx = .ok (some (.num (.pos i)))) :
    eval orc (fuel + 1) (.call "get" [a, b]) ctx = .ok none := by
  rw [get_arr orc fuel ctx a b l i ha hb, List.getElem?_eq_none h]

theorem get_obj (a b : Expr) (m : List (Str × JV)) (k : Str)
    (ha : eval orc fuel a ctx = .ok (some (.obj m))) (hb : eval orc fuel b ctx = .ok (some (.str k))) :
    eval orc (fuel + 1) (.call "get" [a, b]) ctx = .ok (objGet? m k) := by
  call_simp [ha, hb]

/-- `objGet?` is the value of the first member with that key -/
theorem objGet?_eq_find (m : List (Str × JV)) (k : Str) :
    objGet? m k = (m.find? (fun kv => kv.1 == k)).map (·.2) := by
  induction m with
  | nil => rfl
  | cons kv m ih =>
    obtain ⟨k', v⟩ := kv
    by_cases h : k' = k <;> simp [objGet?, h, ih]

theorem objGet?_mem (m : List (Str × JV)) (k : Str) (v : JV) (h : objGet? m k = some v) : (k, v) ∈ m := by
  induction m with
  | nil => simp [objGet?] at h
  | cons kv m ih =>
    obtain ⟨k', v'⟩ := kv
    by_cases hk : k' = k
    · simp [objGet?, hk] at h; simp [hk, h]
    · simp [objGet?, hk] at h; exact List.mem_cons_of_mem _ (ih h)

theorem objGet?_none_iff (m : List (Str × JV)) (k : Str) : objGet? m k = none ↔ ∀ kv ∈ m, kv.1 ≠ k := by
  induction m with
  | nil => simp [objGet?]
  | cons kv m ih =>
    obtain ⟨k', v'⟩ := kv
    by_cases hk : k' = k <;> simp [objGet?, hk, ih]

/-- a key that is present gives a member of the object; an absent key gives nothing -/
theorem get_obj_present (a b : Expr) (m : List (Str × JV)) (k : Str) (v : JV) (h : objGet? m k = some v)
    (ha : eval orc fuel a ctx = .ok (some (.obj m))) (hb : eval orc fuel b ctx = .ok (some (.str k))) :
    eval orc (fuel + 1) (.call "get" [a, b]) ctx = .ok (some v) ∧ (k, v) ∈ m :=
  ⟨by rw [get_obj orc fuel ctx a b m k ha hb, h], objGet?_mem m k v h⟩

theorem get_obj_absent (a b : Expr) (m : List (Str × JV)) (k : Str) (h : ∀ kv ∈ m, kv.1 ≠ k)
    (ha : eval orc fuel a ctx = .ok (some (.obj m))) (hb : eval orc fuel b ctx = .ok (some (.str k))) :
    eval orc (fuel + 1) (.call "get" [a, b]) ctx = .ok none := by
  rw [get_obj orc fuel ctx a b m k ha hb, (objGet?_none_iff m k).2 h]

/-- "Get the list of keys from an object.": in member order -/
theorem keys_obj (a : Expr) (m : List (Str × JV)) (ha : eval orc fuel a ctx = .ok (some (.obj m))) :
    eval orc (fuel + 1) (.call "keys" [a]) ctx = .ok (some (.arr (m.map (fun kv => JV.str kv.1)))) := by
  call_simp [ha]

/-- "Get the list of values from an object.": in member order -/
theorem values_obj (a : Expr) (m : List (Str × JV)) (ha : eval orc fuel a ctx = .ok (some (.obj m))) :
    eval orc (fuel + 1) (.call "values" [a]) ctx = .ok (some (.arr (m.map (·.2)))) := by
  call_simp [ha]

/-- "Each item of the list will be an object with `key` and `value` entries": in member order -/
theorem entries_obj (a : Expr) (m : List (Str × JV)) (ha : eval orc fuel a ctx = .ok (some (.obj m))) :
    eval orc (fuel + 1) (.call "entries" [a]) ctx =
      .ok (some (.arr (m.map (fun kv => JV.obj [("value".toList, kv.2), ("key".toList, .str kv.1)])))) := by
  call_simp [ha]

/-- `size (keys o) = size (values o) = size (entries o) = size o` -/
theorem size_keys (a : Expr) (m : List (Str × JV)) (ha : eval orc fuel a ctx = .ok (some (.obj m))) :
    eval orc (fuel + 2) (.call "size" [.call "keys" [a]]) ctx = .ok (some (.num (.pos m.length))) := by
  rw [size_arr orc (fuel + 1) ctx _ _ (keys_obj orc fuel ctx a m ha), List.length_map]

theorem size_values (a : Expr) (m : List (Str × JV)) (ha : eval orc fuel a ctx = .ok (some (.obj m))) :
    eval orc (fuel + 2) (.call "size" [.call "values" [a]]) ctx = .ok (some (.num (.pos m.length))) := by
  rw [size_arr orc (fuel + 1) ctx _ _ (values_obj orc fuel ctx a m ha), List.length_map]

theorem size_entries (a : Expr) (m : List (Str × JV)) (ha : eval orc fuel a ctx = .ok (some (.obj m))) :
    eval orc (fuel + 2) (.call "size" [.call "entries" [a]]) ctx = .ok (some (.num (.pos m.length))) := by
  rw [size_arr orc (fuel + 1) ctx _ _ (entries_obj orc fuel ctx a m ha), List.length_map]

/-- the `i`-th key / value is the key / value of the `i`-th member -/
theorem get_keys (a b : Expr) (m : List (Str × JV)) (i : Nat)
    (ha : eval orc fuel a ctx = .ok (some (.obj m))) (hb : eval orc (fuel + 1) b ctx = .ok (some (.num (.pos i)))) :
    eval orc (fuel + 2) (.call "get" [.call "keys" [a], b]) ctx = .ok (m[i]?.map (fun kv => JV.str kv.1)) := by
  rw [get_arr orc (fuel + 1) ctx _ b _ i (keys_obj orc fuel ctx a m ha) hb, List.getElem?_map]

theorem get_values (a b : Expr) (m : List (Str × JV)) (i : Nat)
    (ha : eval orc fuel a ctx = .ok (some (.obj m))) (hb : eval orc (fuel + 1) b ctx = .ok (some (.num (.pos i)))) :
    eval orc (fuel + 2) (.call "get" [.call "values" [a], b]) ctx = .ok (m[i]?.map (·.2)) := by
  rw [get_arr orc (fuel + 1) ctx _ b _ i (values_obj orc fuel ctx a m ha) hb, List.getElem?_map]

/-- the entry objects carry the key under `"key"` and the value under `"value"` -/
theorem entry_get (k : Str) (v : JV) :
    objGet? [("value".toList, v), ("key".toList, JV.str k)] "key".toList = some (.str k) ∧
    objGet? [("value".toList, v), ("key".toList, JV.str k)] "value".toList = some v := by
  constructor <;> simp [objGet?]

example : eval {} 5 (.call "get" [.const (.arr [.str "a".toList, .str "b".toList]), .const (.num (.pos 1))]) {}
    = .ok (some (.str "b".toList)) :=
  get_arr_lt {} 4 {} _ _ [.str "a".toList, .str "b".toList] 1 (by decide) rfl rfl
example : eval {} 5 (.call "get" [.const (.obj [("k1".toList, .null), ("k2".toList, .bool true)]), .const (.str "k2".toList)]) {}
    = .ok (some (.bool true)) :=
  (get_obj_present {} 4 {} _ _ [("k1".toList, .null), ("k2".toList, .bool true)] "k2".toList (.bool true) rfl rfl rfl).1
example : eval {} 5 (.call "keys" [.const (.obj [("k1".toList, .null), ("k2".toList, .bool true)])]) {}
    = .ok (some (.arr [.str "k1".toList, .str "k2".toList])) :=
  keys_obj {} 4 {} _ [("k1".toList, .null), ("k2".toList, .bool true)] rfl

/-! ## 5. `map` and `filter` -/

/-- all evaluations return: the results, in order -/
theorem mapM'_ok_iff {α β} (f : α → Except Abort β) (l : List α) (r : List β) :
    mapM' f l = .ok r ↔ l.map f = r.map .ok := by
  induction l generalizing r with
  | nil => cases r <;> simp [mapM']
  | cons x xs ih =>
    cases hx : f x with
    | error e => cases r <;> simp [mapM', hx, bind, Except.bind]
    | ok y =>
      cases hxs : mapM' f xs with
      | error e =>
        cases r with
        | nil => simp [mapM', hx, hxs, bind, Except.bind]
        | cons z zs =>
          have := ih zs
          simp_all [mapM', bind, Except.bind]
      | ok ys =>
        have h1 := (ih ys).1 hxs
        cases r with
        | nil => simp [mapM', hx, hxs, bind, Except.bind]
        | cons z zs =>
          simp only [mapM', hx, hxs, bind, Except.bind, List.map_cons, List.cons.injEq, Except.ok.injEq, h1]
          constructor
          · rintro ⟨rfl, rfl⟩; exact ⟨rfl, rfl⟩
          · rintro ⟨rfl, h⟩
            refine ⟨rfl, ?_⟩
            exact (List.map_inj_right (fun _ _ h => by injection h)).1 h

theorem mapM'_ok {α β} (f : α → Except Abort β) (g : α → β) (l : List α) (h : ∀ x ∈ l, f x = .ok (g x)) :
    mapM' f l = .ok (l.map g) := by
  rw [mapM'_ok_iff, List.map_map]
  exact List.map_congr_left h

theorem mapM'_length {α β} (f : α → Except Abort β) (l : List α) (r : List β) (h : mapM' f l = .ok r) :
    r.length = l.length := by
  have := congrArg List.length ((mapM'_ok_iff f l r).1 h)
  simpa using this.symm

/-- an abort of the iteration is the abort of one of the evaluations -/
theorem mapM'_error {α β} (f : α → Except Abort β) (l : List α) (e : Abort) (h : mapM' f l = .error e) :
    ∃ x ∈ l, f x = .error e := by
  induction l with
  | nil => simp [mapM'] at h
  | cons x xs ih =>
    cases hx : f x with
    | error e' =>
      simp [mapM', hx, bind, Except.bind] at h
      exact ⟨x, List.mem_cons_self, by rw [hx, h]⟩
    | ok y =>
      cases hxs : mapM' f xs with
      | error e' =>
        simp [mapM', hx, hxs, bind, Except.bind] at h
        obtain ⟨z, hz, hz'⟩ := ih (by rw [hxs, h])
        exact ⟨z, List.mem_cons_of_mem _ hz, hz'⟩
      | ok ys => simp [mapM', hx, hxs, bind, Except.bind] at h

/-- `map`: "activate the second argument on each item and collect into a new list": the function is evaluated
with each item as input, results that are nothing are dropped -/
theorem map_arr_ok (a f : Expr) (l : List JV) (rs : List (Option JV))
    (ha : eval orc fuel a ctx = .ok (some (.arr l)))
    (hf : mapM' (fun v => eval orc fuel f (ctx.withInput v)) l = .ok rs) :
    eval orc (fuel + 1) (.call "map" [a, f]) ctx = .ok (some (.arr (rs.filterMap id))) := by
  call_simp [ha, hf]

theorem map_arr_error (a f : Expr) (l : List JV) (e : Abort)
    (ha : eval orc fuel a ctx = .ok (some (.arr l)))
    (hf : mapM' (fun v => eval orc fuel f (ctx.withInput v)) l = .error e) :
    eval orc (fuel + 1) (.call "map" [a, f]) ctx = .error e := by
  call_simp [ha, hf]

theorem map_arr (a f : Expr) (l : List JV) (g : JV → Option JV)
    (ha : eval orc fuel a ctx = .ok (some (.arr l)))
    (hf : ∀ v ∈ l, eval orc fuel f (ctx.withInput v) = .ok (g v)) :
    eval orc (fuel + 1) (.call "map" [a, f]) ctx = .ok (some (.arr (l.filterMap g))) := by
  rw [map_arr_ok orc fuel ctx a f l _ ha (mapM'_ok _ g l hf)]
  simp [List.filterMap_map]

/-- when the function gives a value for every item, `map` preserves length and order: item `i` of the result
is the function's value on item `i` -/
theorem map_arr_total (a f : Expr) (l : List JV) (g : JV → JV)
    (ha : eval orc fuel a ctx = .ok (some (.arr l)))
    (hf : ∀ v ∈ l, eval orc fuel f (ctx.withInput v) = .ok (some (g v))) :
    eval orc (fuel + 1) (.call "map" [a, f]) ctx = .ok (some (.arr (l.map g))) := by
  rw [map_arr orc fuel ctx a f l (fun v => some (g v)) ha hf, List.filterMap_eq_map']

theorem size_map_total (a f : Expr) (l : List JV) (g : JV → JV)
    (ha : eval orc fuel a ctx = .ok (some (.arr l)))
    (hf : ∀ v ∈ l, eval orc fuel f (ctx.withInput v) = .ok (some (g v))) :
    eval orc (fuel + 2) (.call "size" [.call "map" [a, f]]) ctx = .ok (some (.num (.pos l.length))) := by
  rw [size_arr orc (fuel + 1) ctx _ _ (map_arr_total orc fuel ctx a f l g ha hf), List.length_map]

/-- whatever the function is: a result of `map` on an array is an array of at most as many items, and an abort
of `map` is an abort of the function on one of the items -/
theorem map_arr_result (a f : Expr) (l : List JV) (ha : eval orc fuel a ctx = .ok (some (.arr l))) :
    (∃ rs : List (Option JV), rs.length = l.length ∧
        l.map (fun v => eval orc fuel f (ctx.withInput v)) = rs.map .ok ∧
        eval orc (fuel + 1) (.call "map" [a, f]) ctx = .ok (some (.arr (rs.filterMap id))) ∧
        (rs.filterMap id).length ≤ l.length) ∨
    (∃ e, eval orc (fuel + 1) (.call "map" [a, f]) ctx = .error e ∧
        ∃ v ∈ l, eval orc fuel f (ctx.withInput v) = .error e) := by
  cases h : mapM' (fun v => eval orc fuel f (ctx.withInput v)) l with
  | error e => exact .inr ⟨e, map_arr_error orc fuel ctx a f l e ha h, mapM'_error _ l e h⟩
  | ok rs =>
    have hl := mapM'_length _ l rs h
    exact .inl ⟨rs, hl, (mapM'_ok_iff _ l rs).1 h, map_arr_ok orc fuel ctx a f l rs ha h,
      hl ▸ List.length_filterMap_le _ _⟩

/-- the test of `filter`: the item is kept exactly when the function's value is `true` -/
def isTrue : Option JV → Bool
  | some (.bool true) => true
  | _ => false

/-- the items whose flag is set -/
def select {α} (l : List α) (keep : List Bool) : List α :=
  (l.zip keep).filterMap (fun x => if x.2 = true then some x.1 else none)

theorem select_sublist {α} (l : List α) (keep : List Bool) : (select l keep).Sublist l := by
  induction l generalizing keep with
  | nil => simp [select]
  | cons x xs ih =>
    cases keep with
    | nil => simp [select]
    | cons k ks =>
      cases k
      · simpa [select] using (ih ks).cons x
      · simpa [select] using (ih ks).cons_cons x

theorem select_map {α} (l : List α) (p : α → Bool) : select l (l.map p) = l.filter p := by
  induction l with
  | nil => rfl
  | cons x xs ih =>
    simp only [select] at ih
    cases h : p x <;> simp [select, h, ih]

theorem filter_arr_aux (a f : Expr) (l : List JV) (x : Except Abort (List Bool))
    (ha : eval orc fuel a ctx = .ok (some (.arr l)))
    (hf : mapM' (fun v => (eval orc fuel f (ctx.withInput v)).map isTrue) l = x) :
    eval orc (fuel + 1) (.call "filter" [a, f]) ctx =
      x.bind (fun keep => .ok (some (.arr (select l keep)))) := by
  call_simp [ha]
  generalize hF : mapM' _ l = y
  have : mapM' (fun v => (eval orc fuel f (ctx.withInput v)).map isTrue) l = y := by
    rw [← hF]; congr 1; funext v
    cases eval orc fuel f (ctx.withInput v) with
    | error e => rfl
    | ok r =>
      simp only [Except.map]
      split <;> simp_all [isTrue]
  rw [← hf, this]
  rfl

theorem filter_arr_ok (a f : Expr) (l : List JV) (keep : List Bool)
    (ha : eval orc fuel a ctx = .ok (some (.arr l)))
    (hf : mapM' (fun v => (eval orc fuel f (ctx.withInput v)).map isTrue) l = .ok keep) :
    eval orc (fuel + 1) (.call "filter" [a, f]) ctx = .ok (some (.arr (select l keep))) :=
  filter_arr_aux orc fuel ctx a f l _ ha hf

theorem filter_arr_error (a f : Expr) (l : List JV) (e : Abort)
    (ha : eval orc fuel a ctx = .ok (some (.arr l)))
    (hf : mapM' (fun v => (eval orc fuel f (ctx.withInput v)).map isTrue) l = .error e) :
    eval orc (fuel + 1) (.call "filter" [a, f]) ctx = .error e :=
  filter_arr_aux orc fuel ctx a f l _ ha hf

/-- `filter`: the items for which the function is `true`, in their original order -/
theorem filter_arr (a f : Expr) (l : List JV) (p : JV → Option JV)
    (ha : eval orc fuel a ctx = .ok (some (.arr l)))
    (hf : ∀ v ∈ l, eval orc fuel f (ctx.withInput v) = .ok (p v)) :
    eval orc (fuel + 1) (.call "filter" [a, f]) ctx = .ok (some (.arr (l.filter (fun v => isTrue (p v))))) := by
  rw [filter_arr_ok orc fuel ctx a f l _ ha (mapM'_ok _ (fun v => isTrue (p v)) l (fun v hv => by rw [hf v hv]; rfl)),
    select_map]

/-- whatever the function is: a result of `filter` on an array is a sub-list (`List.Sublist`: same items, same
order, some left out) of the array, and an abort is an abort of the function on one of the items -/
theorem filter_arr_result (a f : Expr) (l : List JV) (ha : eval orc fuel a ctx = .ok (some (.arr l))) :
    (∃ l' : List JV, eval orc (fuel + 1) (.call "filter" [a, f]) ctx = .ok (some (.arr l')) ∧ l'.Sublist l) ∨
    (∃ e, eval orc (fuel + 1) (.call "filter" [a, f]) ctx = .error e ∧
        ∃ v ∈ l, eval orc fuel f (ctx.withInput v) = .error e) := by
  cases h : mapM' (fun v => (eval orc fuel f (ctx.withInput v)).map isTrue) l with
  | error e =>
    refine .inr ⟨e, filter_arr_error orc fuel ctx a f l e ha h, ?_⟩
    obtain ⟨v, hv, hve⟩ := mapM'_error _ l e h
    refine ⟨v, hv, ?_⟩
    cases h' : eval orc fuel f (ctx.withInput v) with
    | error e' => rw [h'] at hve; simp [Except.map] at hve; rw [hve]
    | ok r => rw [h'] at hve; simp [Except.map] at hve
  | ok keep => exact .inl ⟨_, filter_arr_ok orc fuel ctx a f l keep ha h, select_sublist l keep⟩

/-- `filter x true` keeps everything, `filter x null` nothing (the documentation's examples) -/
theorem filter_const_true (a : Expr) (l : List JV) (ha : eval orc (fuel + 1) a ctx = .ok (some (.arr l))) :
    eval orc (fuel + 2) (.call "filter" [a, .const (.bool true)]) ctx = .ok (some (.arr l)) := by
  rw [filter_arr orc (fuel + 1) ctx a _ l (fun _ => some (.bool true)) ha (fun _ _ => rfl)]
  simp [isTrue]

theorem filter_const_not_true (a : Expr) (l : List JV) (c : JV) (hc : isTrue (some c) = false)
    (ha : eval orc (fuel + 1) a ctx = .ok (some (.arr l))) :
    eval orc (fuel + 2) (.call "filter" [a, .const c]) ctx = .ok (some (.arr [])) := by
  rw [filter_arr orc (fuel + 1) ctx a _ l (fun _ => some c) ha (fun _ _ => rfl)]
  simp [hc]

/-- `map x .` (the identity selection) is `x` -/
theorem map_identity (a : Expr) (l : List JV) (ha : eval orc (fuel + 1) a ctx = .ok (some (.arr l))) :
    eval orc (fuel + 2) (.call "map" [a, .extract 0 []]) ctx = .ok (some (.arr l)) := by
  rw [map_arr_total orc (fuel + 1) ctx a _ l id ha (fun _ _ => rfl), List.map_id]

example : eval {} 5 (.call "map" [.const (.arr [.arr [.null], .arr []]), .call "size" [.extract 0 []]]) {}
    = .ok (some (.arr [.num (.pos 1), .num (.pos 0)])) := by
  rw [map_arr_total {} 4 {} _ _ [.arr [.null], .arr []]
    (fun v => match v with | .arr l => .num (.pos l.length) | _ => .null) rfl (by intro v hv; simp at hv; rcases hv with rfl | rfl <;> rfl)]
  rfl
example : eval {} 5 (.call "filter" [.const (.arr [.arr [.null], .bool true, .arr []]), .call "array?" [.extract 0 []]]) {}
    = .ok (some (.arr [.arr [.null], .arr []])) := by
  rw [filter_arr {} 4 {} _ _ [.arr [.null], .bool true, .arr []]
    (fun v => match v with | .arr _ => some (.bool true) | _ => some (.bool false)) rfl (by intro v hv; simp at hv; rcases hv with rfl | rfl | rfl <;> rfl)]
  rfl

/-! ## 6. Wrong type ⇒ nothing; never an abort unless an argument's own evaluation aborts -/

/-- the values `take` / `take_last` / `sub` / `size` work on: objects, arrays, strings -/
def isColl : Option JV → Bool
  | some (.obj _) => true
  | some (.arr _) => true
  | some (.str _) => true
  | _ => false

def isArr : Option JV → Bool
  | some (.arr _) => true
  | _ => false

def isObj : Option JV → Bool
  | some (.obj _) => true
  | _ => false

/-- a count / index argument is usable exactly when it is a non-negative integer (`NumberValue::Positive`) -/
theorem usizeArg_eq_some (w : Option JV) (n : Nat) : usizeArg w = some n ↔ w = some (.num (.pos n)) := by
  rcases w with _ | (_ | _ | _ | (_ | _ | _) | _ | _) <;> simp [usizeArg, Num.toUsize?]

theorem usizeArg_eq_none (w : Option JV) : usizeArg w = none ↔ ∀ n, w ≠ some (.num (.pos n)) := by
  rcases w with _ | (_ | _ | _ | (_ | _ | _) | _ | _) <;> simp [usizeArg, Num.toUsize?]

/-- nothing, a string, a negative integer, a float, a boolean, … are not counts -/
theorem usizeArg_nothing : usizeArg none = none := rfl
theorem usizeArg_str (s : Str) : usizeArg (some (.str s)) = none := rfl
theorem usizeArg_neg (i : Int) : usizeArg (some (.num (.neg i))) = none := rfl
theorem usizeArg_flt (f : F64) : usizeArg (some (.num (.flt f))) = none := rfl
theorem usizeArg_bool (b : Bool) : usizeArg (some (.bool b)) = none := rfl
theorem usizeArg_null : usizeArg (some .null) = none := rfl
theorem usizeArg_arr (l : List JV) : usizeArg (some (.arr l)) = none := rfl
theorem usizeArg_obj (m : List (Str × JV)) : usizeArg (some (.obj m)) = none := rfl

/-! ### `take` -/

/-- the count is not a non-negative integer ⇒ nothing (the first argument is not even looked at) -/
theorem take_bad_count (a b : Expr) (w : Option JV) (hw : usizeArg w = none)
    (hb : eval orc fuel b ctx = .ok w) :
    eval orc (fuel + 1) (.call "take" [a, b]) ctx = .ok none := by
  call_simp [hb]
  simp only [usizeArg, Num.toUsize?] at hw
  simp only [hw]

/-- the first argument is not an object, array or string ⇒ nothing -/
theorem take_wrong_type (a b : Expr) (v w : Option JV) (hv : isColl v = false)
    (ha : eval orc fuel a ctx = .ok v) (hb : eval orc fuel b ctx = .ok w) :
    eval orc (fuel + 1) (.call "take" [a, b]) ctx = .ok none := by
  cases hw : usizeArg w with
  | none => exact take_bad_count orc fuel ctx a b w hw hb
  | some n =>
    rw [usizeArg_eq_some] at hw
    subst hw
    call_simp [ha, hb]
    rcases v with _ | (_ | _ | _ | _ | _ | _) <;> simp_all [isColl]

/-- `take` aborts only when the evaluation of one of its arguments aborts -/
theorem take_total (a b : Expr) (v w : Option JV)
    (ha : eval orc fuel a ctx = .ok v) (hb : eval orc fuel b ctx = .ok w) :
    ∃ r, eval orc (fuel + 1) (.call "take" [a, b]) ctx = .ok r := by
  cases hw : usizeArg w with
  | none => exact ⟨_, take_bad_count orc fuel ctx a b w hw hb⟩
  | some n =>
    rw [usizeArg_eq_some] at hw
    subst hw
    rcases v with _ | (_ | _ | s | _ | m | l)
    case some.obj => exact ⟨_, take_obj orc fuel ctx a b m n ha hb⟩
    case some.arr => exact ⟨_, take_arr orc fuel ctx a b l n ha hb⟩
    case some.str => exact ⟨_, take_str orc fuel ctx a b s n ha hb⟩
    all_goals exact ⟨_, take_wrong_type orc fuel ctx a b _ _ rfl ha hb⟩

/-! ### `take_last` -/

theorem take_last_bad_count (a b : Expr) (w : Option JV) (hw : usizeArg w = none)
    (hb : eval orc fuel b ctx = .ok w) :
    eval orc (fuel + 1) (.call "take_last" [a, b]) ctx = .ok none := by
  call_simp [hb]
  simp only [usizeArg, Num.toUsize?] at hw
  simp only [hw]

theorem take_last_wrong_type (a b : Expr) (v w : Option JV) (hv : isColl v = false)
    (ha : eval orc fuel a ctx = .ok v) (hb : eval orc fuel b ctx = .ok w) :
    eval orc (fuel + 1) (.call "take_last" [a, b]) ctx = .ok none := by
  cases hw : usizeArg w with
  | none => exact take_last_bad_count orc fuel ctx a b w hw hb
  | some n =>
    rw [usizeArg_eq_some] at hw
    subst hw
    call_simp [ha, hb]
    rcases v with _ | (_ | _ | _ | _ | _ | _) <;> simp_all [isColl]

theorem take_last_total (a b : Expr) (v w : Option JV)
    (ha : eval orc fuel a ctx = .ok v) (hb : eval orc fuel b ctx = .ok w) :
    ∃ r, eval orc (fuel + 1) (.call "take_last" [a, b]) ctx = .ok r := by
  cases hw : usizeArg w with
  | none => exact ⟨_, take_last_bad_count orc fuel ctx a b w hw hb⟩
  | some n =>
    rw [usizeArg_eq_some] at hw
    subst hw
    rcases v with _ | (_ | _ | s | _ | m | l)
    case some.obj => exact ⟨_, take_last_obj orc fuel ctx a b m n ha hb⟩
    case some.arr => exact ⟨_, take_last_arr orc fuel ctx a b l n ha hb⟩
    case some.str => exact ⟨_, take_last_str orc fuel ctx a b s n ha hb⟩
    all_goals exact ⟨_, take_last_wrong_type orc fuel ctx a b _ _ rfl ha hb⟩

/-! ### `sub` -/

theorem sub_bad_start (a b c : Expr) (w : Option JV) (hw : usizeArg w = none)
    (hb : eval orc fuel b ctx = .ok w) :
    eval orc (fuel + 1) (.call "sub" [a, b, c]) ctx = .ok none := by
  call_simp [hb]
  simp only [usizeArg, Num.toUsize?] at hw
  simp only [hw]

theorem sub_bad_len (a b c : Expr) (start : Nat) (w : Option JV) (hw : usizeArg w = none)
    (hb : eval orc fuel b ctx = .ok (some (.num (.pos start)))) (hc : eval orc fuel c ctx = .ok w) :
    eval orc (fuel + 1) (.call "sub" [a, b, c]) ctx = .ok none := by
  call_simp [hb, hc]
  simp only [usizeArg, Num.toUsize?] at hw
  simp only [hw]

theorem sub_wrong_type (a b c : Expr) (v : Option JV) (start len : Nat) (hv : isColl v = false)
    (ha : eval orc fuel a ctx = .ok v) (hb : eval orc fuel b ctx = .ok (some (.num (.pos start))))
    (hc : eval orc fuel c ctx = .ok (some (.num (.pos len)))) :
    eval orc (fuel + 1) (.call "sub" [a, b, c]) ctx = .ok none := by
  call_simp [ha, hb, hc]
  rcases v with _ | (_ | _ | _ | _ | _ | _) <;> simp_all [isColl]

/-! ### `size` -/

/-- "50 is not an array, not an object nor a string." -/
theorem size_wrong_type (a : Expr) (v : Option JV) (hv : isColl v = false)
    (ha : eval orc fuel a ctx = .ok v) :
    eval orc (fuel + 1) (.call "size" [a]) ctx = .ok none := by
  call_simp [ha]
  rcases v with _ | (_ | _ | _ | _ | _ | _) <;> simp_all [isColl]

theorem size_total (a : Expr) (v : Option JV) (ha : eval orc fuel a ctx = .ok v) :
    ∃ r, eval orc (fuel + 1) (.call "size" [a]) ctx = .ok r := by
  rcases v with _ | (_ | _ | s | _ | m | l)
  case some.obj => exact ⟨_, size_obj orc fuel ctx a m ha⟩
  case some.arr => exact ⟨_, size_arr orc fuel ctx a l ha⟩
  case some.str => exact ⟨_, size_str orc fuel ctx a s ha⟩
  all_goals exact ⟨_, size_wrong_type orc fuel ctx a _ rfl ha⟩

/-- an abort of the argument is the abort of the call -/
theorem size_abort (a : Expr) (e : Abort) (ha : eval orc fuel a ctx = .error e) :
    eval orc (fuel + 1) (.call "size" [a]) ctx = .error e := by
  call_simp [ha]

/-! ### `get` -/

/-- the first argument is neither an object nor an array ⇒ nothing (the second is not even looked at) -/
theorem get_wrong_type (a b : Expr) (v : Option JV) (hv : isObj v = false) (hv' : isArr v = false)
    (ha : eval orc fuel a ctx = .ok v) :
    eval orc (fuel + 1) (.call "get" [a, b]) ctx = .ok none := by
  call_simp [ha]
  rcases v with _ | (_ | _ | _ | _ | _ | _) <;> simp_all [isObj, isArr]

/-- an array indexed by something that is not a non-negative integer ⇒ nothing -/
theorem get_arr_bad_index (a b : Expr) (l : List JV) (w : Option JV) (hw : usizeArg w = none)
    (ha : eval orc fuel a ctx = .ok (some (.arr l))) (hb : eval orc fuel b ctx = .ok w) :
    eval orc (fuel + 1) (.call "get" [a, b]) ctx = .ok none := by
  call_simp [ha, hb]
  simp only [usizeArg, Num.toUsize?] at hw
  simp only [hw]

/-- an object indexed by something that is not a string ⇒ nothing -/
theorem get_obj_bad_key (a b : Expr) (m : List (Str × JV)) (w : Option JV) (hw : strArg w = none)
    (ha : eval orc fuel a ctx = .ok (some (.obj m))) (hb : eval orc fuel b ctx = .ok w) :
    eval orc (fuel + 1) (.call "get" [a, b]) ctx = .ok none := by
  call_simp [ha, hb]
  simp only [strArg] at hw
  simp only [hw]

theorem strArg_eq_some (w : Option JV) (s : Str) : strArg w = some s ↔ w = some (.str s) := by
  rcases w with _ | (_ | _ | _ | _ | _ | _) <;> simp [strArg]

theorem get_total (a b : Expr) (v w : Option JV)
    (ha : eval orc fuel a ctx = .ok v) (hb : eval orc fuel b ctx = .ok w) :
    ∃ r, eval orc (fuel + 1) (.call "get" [a, b]) ctx = .ok r := by
  rcases v with _ | (_ | _ | s | _ | m | l)
  case some.obj =>
    cases hw : strArg w with
    | none => exact ⟨_, get_obj_bad_key orc fuel ctx a b m w hw ha hb⟩
    | some k => rw [strArg_eq_some] at hw; subst hw; exact ⟨_, get_obj orc fuel ctx a b m k ha hb⟩
  case some.arr =>
    cases hw : usizeArg w with
    | none => exact ⟨_, get_arr_bad_index orc fuel ctx a b l w hw ha hb⟩
    | some i => rw [usizeArg_eq_some] at hw; subst hw; exact ⟨_, get_arr orc fuel ctx a b l i ha hb⟩
  all_goals exact ⟨_, get_wrong_type orc fuel ctx a b _ rfl rfl ha⟩

/-! ### `keys`, `values`, `entries`: not an object ⇒ nothing -/

theorem keys_wrong_type (a : Expr) (v : Option JV) (hv : isObj v = false) (ha : eval orc fuel a ctx = .ok v) :
    eval orc (fuel + 1) (.call "keys" [a]) ctx = .ok none := by
  call_simp [ha]
  rcases v with _ | (_ | _ | _ | _ | _ | _) <;> simp_all [isObj]

theorem values_wrong_type (a : Expr) (v : Option JV) (hv : isObj v = false) (ha : eval orc fuel a ctx = .ok v) :
    eval orc (fuel + 1) (.call "values" [a]) ctx = .ok none := by
  call_simp [ha]
  rcases v with _ | (_ | _ | _ | _ | _ | _) <;> simp_all [isObj]

theorem entries_wrong_type (a : Expr) (v : Option JV) (hv : isObj v = false) (ha : eval orc fuel a ctx = .ok v) :
    eval orc (fuel + 1) (.call "entries" [a]) ctx = .ok none := by
  call_simp [ha]
  rcases v with _ | (_ | _ | _ | _ | _ | _) <;> simp_all [isObj]

theorem keys_total (a : Expr) (v : Option JV) (ha : eval orc fuel a ctx = .ok v) :
    ∃ r, eval orc (fuel + 1) (.call "keys" [a]) ctx = .ok r := by
  rcases v with _ | (_ | _ | s | _ | m | l)
  case some.obj => exact ⟨_, keys_obj orc fuel ctx a m ha⟩
  all_goals exact ⟨_, keys_wrong_type orc fuel ctx a _ rfl ha⟩

/-! ### list functions: not an array ⇒ nothing -/

theorem first_wrong_type (a : Expr) (v : Option JV) (hv : isArr v = false) (ha : eval orc fuel a ctx = .ok v) :
    eval orc (fuel + 1) (.call "first" [a]) ctx = .ok none := by
  call_simp [ha]
  rcases v with _ | (_ | _ | _ | _ | _ | _) <;> simp_all [isArr]

theorem last_wrong_type (a : Expr) (v : Option JV) (hv : isArr v = false) (ha : eval orc fuel a ctx = .ok v) :
    eval orc (fuel + 1) (.call "last" [a]) ctx = .ok none := by
  call_simp [ha]
  rcases v with _ | (_ | _ | _ | _ | _ | _) <;> simp_all [isArr]

theorem pop_wrong_type (a : Expr) (v : Option JV) (hv : isArr v = false) (ha : eval orc fuel a ctx = .ok v) :
    eval orc (fuel + 1) (.call "pop" [a]) ctx = .ok none := by
  call_simp [ha]
  rcases v with _ | (_ | _ | _ | _ | _ | _) <;> simp_all [isArr]

theorem reverese_wrong_type (a : Expr) (v : Option JV) (hv : isArr v = false) (ha : eval orc fuel a ctx = .ok v) :
    eval orc (fuel + 1) (.call "reverese" [a]) ctx = .ok none := by
  call_simp [ha]
  rcases v with _ | (_ | _ | _ | _ | _ | _) <;> simp_all [isArr]

theorem push_wrong_type (a : Expr) (xs : List Expr) (v : Option JV) (hv : isArr v = false)
    (ha : eval orc fuel a ctx = .ok v) :
    eval orc (fuel + 1) (.call "push" (a :: xs)) ctx = .ok none := by
  call_simp [ha]
  rcases v with _ | (_ | _ | _ | _ | _ | _) <;> simp_all [isArr]

theorem map_wrong_type (a f : Expr) (v : Option JV) (hv : isArr v = false) (ha : eval orc fuel a ctx = .ok v) :
    eval orc (fuel + 1) (.call "map" [a, f]) ctx = .ok none := by
  call_simp [ha]
  rcases v with _ | (_ | _ | _ | _ | _ | _) <;> simp_all [isArr]

theorem filter_wrong_type (a f : Expr) (v : Option JV) (hv : isArr v = false) (ha : eval orc fuel a ctx = .ok v) :
    eval orc (fuel + 1) (.call "filter" [a, f]) ctx = .ok none := by
  call_simp [ha]
  rcases v with _ | (_ | _ | _ | _ | _ | _) <;> simp_all [isArr]

/-! ### string `head` / `tail` -/

theorem head_wrong_type (a b : Expr) (v w : Option JV) (h : strArg v = none ∨ usizeArg w = none)
    (ha : eval orc fuel a ctx = .ok v) (hb : eval orc fuel b ctx = .ok w) :
    eval orc (fuel + 1) (.call "head" [a, b]) ctx = .ok none := by
  call_simp [ha, hb]
  simp only [strArg, usizeArg, Num.toUsize?] at h
  rcases h with h | h
  · simp only [h]
  · simp only [h]; split <;> simp_all

theorem tail_wrong_type (a b : Expr) (v w : Option JV) (h : strArg v = none ∨ usizeArg w = none)
    (ha : eval orc fuel a ctx = .ok v) (hb : eval orc fuel b ctx = .ok w) :
    eval orc (fuel + 1) (.call "tail" [a, b]) ctx = .ok none := by
  call_simp [ha, hb]
  simp only [strArg, usizeArg, Num.toUsize?] at h
  rcases h with h | h
  · simp only [h]
  · simp only [h]; split <;> simp_all

/-- abort propagation for `take` (the count is evaluated first) -/
theorem take_abort_count (a b : Expr) (e : Abort) (hb : eval orc fuel b ctx = .error e) :
    eval orc (fuel + 1) (.call "take" [a, b]) ctx = .error e := by
  call_simp [hb]

theorem take_abort_coll (a b : Expr) (n : Nat) (e : Abort)
    (ha : eval orc fuel a ctx = .error e) (hb : eval orc fuel b ctx = .ok (some (.num (.pos n)))) :
    eval orc (fuel + 1) (.call "take" [a, b]) ctx = .error e := by
  call_simp [ha, hb]

/-- the documentation's examples `(take 50 10)` and `(take "123" false)` give nothing -/
example : eval {} 5 (.call "take" [.const (.num (.pos 50)), .const (.num (.pos 10))]) {} = .ok none :=
  take_wrong_type {} 4 {} _ _ (some (.num (.pos 50))) _ rfl rfl rfl
example : eval {} 5 (.call "take" [.const (.str "123".toList), .const (.bool false)]) {} = .ok none :=
  take_bad_count {} 4 {} _ _ (some (.bool false)) rfl rfl
example : eval {} 5 (.call "take_last" [.const (.str "123".toList), .const (.num (.neg (-1)))]) {} = .ok none :=
  take_last_bad_count {} 4 {} _ _ (some (.num (.neg (-1)))) rfl rfl
example : eval {} 5 (.call "size" [.const (.num (.pos 50))]) {} = .ok none :=
  size_wrong_type {} 4 {} _ (some (.num (.pos 50))) rfl rfl
example : eval {} 5 (.call "get" [.const (.arr [.null]), .const (.str "a".toList)]) {} = .ok none :=
  get_arr_bad_index {} 4 {} _ _ [.null] (some (.str "a".toList)) rfl rfl rfl
example : eval {} 5 (.call "keys" [.const (.arr [.null])]) {} = .ok none :=
  keys_wrong_type {} 4 {} _ (some (.arr [.null])) rfl rfl
/-- an argument that is nothing (here: a variable that is not set) -/
example : eval {} 5 (.call "size" [.var "x".toList]) {} = .ok none :=
  size_wrong_type {} 4 {} _ none rfl rfl

end Jawk.EvalLaws
