/-
  Property C04, continued: list functionals and producers
  (`flat_map`, `fold`, `group_by`, `all`, `any`, `sum`, `indexed`, `range`, `zip`, `cross`, `sort`, `sort_unique`).
  Same conventions as `EvalLaws.lean`: arguments are arbitrary expressions whose evaluation is a hypothesis,
  `eval … = .ok none` is the evaluator's "nothing".
-/
import Jawk.Lemmas.EvalLaws
import Jawk.Lemmas.SortFns
namespace Jawk.EvalLaws
open Jawk

/-! ## Dispatch: none of these names belongs to the first group of functions -/
section DispatchList
variable (ev : Ev) (args : List Expr) (ctx : Ctx)

theorem skipB_flat_map : callBasic ev "flat_map" args ctx = none := rfl
theorem skipB_fold : callBasic ev "fold" args ctx = none := rfl
theorem skipB_group_by : callBasic ev "group_by" args ctx = none := rfl
theorem skipB_all : callBasic ev "all" args ctx = none := rfl
theorem skipB_any : callBasic ev "any" args ctx = none := rfl
theorem skipB_sum : callBasic ev "sum" args ctx = none := rfl
theorem skipB_indexed : callBasic ev "indexed" args ctx = none := rfl
theorem skipB_range : callBasic ev "range" args ctx = none := rfl
theorem skipB_zip : callBasic ev "zip" args ctx = none := rfl
theorem skipB_cross : callBasic ev "cross" args ctx = none := rfl
theorem skipB_sort : callBasic ev "sort" args ctx = none := rfl
theorem skipB_sort_unique : callBasic ev "sort_unique" args ctx = none := rfl

end DispatchList

/-- `call_simp` for the functions of this file -/
macro "lcall_simp" "[" ts:Lean.Parser.Tactic.simpLemma,* "]" : tactic =>
  `(tactic| (
    simp only [eval, callFn, skipB_flat_map, skipB_fold, skipB_group_by, skipB_all, skipB_any, skipB_sum,
      skipB_indexed, skipB_range, skipB_zip, skipB_cross, skipB_sort, skipB_sort_unique]
    simp only [callList,
      applyArg, List.getElem?_cons_zero, List.getElem?_cons_succ, List.getElem?_nil,
      List.drop_succ_cons, List.drop_zero, mapM', List.filterMap_cons, List.filterMap_nil, id,
      bind, Except.bind, pure, Except.pure, usizeArg, strArg, numArg, Num.toUsize?, jusize, jbool, $ts,*]))

/-! ## helper lemmas about lists (not about `eval`) -/

/-- the items an evaluation result contributes to `flat_map`: those of an array, nothing otherwise -/
def arrItems : Option JV → List JV
  | some (.arr x) => x
  | _ => []

theorem arrItems_arr (x : List JV) : arrItems (some (.arr x)) = x := rfl
theorem arrItems_nothing : arrItems none = [] := rfl
theorem arrItems_non_array (v : Option JV) (h : isArr v = false) : arrItems v = [] := by
  rcases v with _ | (_ | _ | _ | _ | _ | _) <;> simp_all [isArr, arrItems]

/-- folding over the items paired with their indices with a function that ignores the index -/
theorem foldl_zipIdx_fst {α β} (g : β → α → β) (l : List α) (k : Nat) (c : β) :
    (l.zipIdx k).foldl (fun acc vi => g acc vi.1) c = l.foldl g c := by
  induction l generalizing k c with
  | nil => rfl
  | cons v vs ih => simp only [List.zipIdx_cons, List.foldl_cons, ih]

/-- appending one element to a list: it is a new first occurrence exactly when it was not there -/
theorem eraseDups_snoc {α} [BEq α] [LawfulBEq α] (l : List α) (x : α) :
    (l ++ [x]).eraseDups = if x ∈ l then l.eraseDups else l.eraseDups ++ [x] := by
  rw [List.eraseDups_append]
  by_cases h : x ∈ l
  · simp [h, List.removeAll]
  · simp [h, List.removeAll, List.eraseDups_cons]

theorem eraseDups_nodup {α} [BEq α] [LawfulBEq α] (l : List α) : l.eraseDups.Nodup := by
  generalize hn : l.length = n
  induction n using Nat.strongRecOn generalizing l with
  | _ n ih =>
    cases l with
    | nil => simp
    | cons a as =>
      rw [List.eraseDups_cons, List.nodup_cons]
      refine ⟨?_, ih _ ?_ _ rfl⟩
      · rw [List.mem_eraseDups]; simp
      · subst hn
        exact Nat.lt_succ_of_le (List.length_filter_le _ _)

/-- two disjoint tests split a list into two parts that together are a permutation of what either test keeps -/
theorem filter_disjoint_perm {α} (p q : α → Bool) (l : List α) (h : ∀ x ∈ l, ¬ (p x = true ∧ q x = true)) :
    (l.filter p ++ l.filter q).Perm (l.filter (fun x => p x || q x)) := by
  induction l with
  | nil => simp
  | cons x xs ih =>
    have ih' := ih (fun y hy => h y (List.mem_cons_of_mem _ hy))
    have hx := h x List.mem_cons_self
    cases hp : p x <;> cases hq : q x
    · simpa [List.filter_cons, hp, hq] using ih'
    · simp only [List.filter_cons, hp, hq, Bool.false_eq_true, if_false, if_true, Bool.or_true]
      exact List.perm_middle.trans (ih'.cons x)
    · simp only [List.filter_cons, hp, hq, Bool.false_eq_true, if_false, if_true, Bool.or_false, List.cons_append]
      exact ih'.cons x
    · simp [hp, hq] at hx

/-- the groups of a list by a key: one group per key in order of first occurrence, each group the sub-list of the
items with that key -/
def groupsOf (key : JV → Str) (l : List JV) : List (Str × List JV) :=
  (l.map key).eraseDups.map (fun k => (k, l.filter (fun v => key v == k)))

theorem groups_perm (key : JV → Str) (l : List JV) (ks : List Str) :
    (ks.eraseDups.flatMap (fun k => l.filter (fun v => key v == k))).Perm (l.filter (fun v => ks.contains (key v))) := by
  generalize hn : ks.length = n
  induction n using Nat.strongRecOn generalizing ks with
  | _ n ih =>
    cases ks with
    | nil => simp
    | cons k ks' =>
      rw [List.eraseDups_cons, List.flatMap_cons]
      have h1 := ih _ (by subst hn; exact Nat.lt_succ_of_le (List.length_filter_le _ ks')) (ks'.filter (fun b => !b == k)) rfl
      refine ((List.Perm.refl _).append h1).trans ?_
      refine (filter_disjoint_perm _ _ l ?_).trans ?_
      · intro v _ ⟨h2, h3⟩
        simp at h2 h3
        exact h3.2 h2
      · apply List.Perm.of_eq
        apply List.filter_congr
        intro v _
        by_cases hk : key v = k <;> simp [hk]

/-- one round of the loop of `group_by`: the item joins the group of its key, or opens a new last group -/
def groupStep (groups : List (Str × List JV)) (key : Str) (item : JV) : List (Str × List JV) :=
  if groups.any (fun g => g.1 = key)
  then groups.map (fun g => if g.1 = key then (g.1, g.2 ++ [item]) else g)
  else groups ++ [(key, [item])]

theorem groupsOf_snoc (key : JV → Str) (l : List JV) (x : JV) :
    groupsOf key (l ++ [x]) = groupStep (groupsOf key l) (key x) x := by
  have hany : (groupsOf key l).any (fun g => g.1 = key x) = decide (key x ∈ l.map key) := by
    rw [Bool.eq_iff_iff]
    simp only [groupsOf, List.any_map, List.any_eq_true, Function.comp, decide_eq_true_eq, List.mem_eraseDups]
    constructor
    · rintro ⟨k, hk, rfl⟩; exact hk
    · intro h; exact ⟨_, h, rfl⟩
  unfold groupStep
  rw [hany]
  unfold groupsOf
  rw [List.map_append, List.map_cons, List.map_nil, eraseDups_snoc]
  by_cases h : key x ∈ l.map key
  · simp only [h, if_true, decide_true, List.map_map]
    apply List.map_congr_left
    intro k _
    by_cases hk : k = key x
    · subst hk; simp [List.filter_append]
    · have : (key x == k) = false := by simpa using fun h' => hk h'.symm
      simp [List.filter_append, hk, this]
  · simp only [h, if_false, decide_false, Bool.false_eq_true, List.map_append, List.map_cons, List.map_nil]
    congr 1
    · apply List.map_congr_left
      intro k hk
      rw [List.mem_eraseDups] at hk
      have : (key x == k) = false := by
        simp only [beq_eq_false_iff_ne, ne_eq]
        rintro rfl; exact h hk
      simp [List.filter_append, this]
    · have : l.filter (fun v => key v == key x) = [] := by
        rw [List.filter_eq_nil_iff]
        intro v hv
        simp only [beq_iff_eq]
        intro hkv
        exact h (hkv ▸ List.mem_map_of_mem hv)
      simp [List.filter_append, this]

/-- the loop of `group_by` on string keys builds `groupsOf` -/
theorem groupGo_strs (key : JV → Str) (pre suf : List JV) :
    callList.groupGo (groupsOf key pre) (suf.zip (suf.map (fun v => some (JV.str (key v))))) =
      some (groupsOf key (pre ++ suf)) := by
  induction suf generalizing pre with
  | nil => simp [callList.groupGo]
  | cons x xs ih =>
    simp only [List.map_cons, List.zip_cons_cons, callList.groupGo]
    have := groupsOf_snoc key pre x
    unfold groupStep at this
    rw [← this, ih (pre ++ [x])]
    simp

/-- a key that is not a string stops the loop with nothing -/
theorem groupGo_non_string (g : JV → Option JV) (groups : List (Str × List JV)) (l : List JV)
    (h : ∃ v ∈ l, strArg (g v) = none) :
    callList.groupGo groups (l.zip (l.map g)) = none := by
  induction l generalizing groups with
  | nil => simp at h
  | cons x xs ih =>
    simp only [List.map_cons, List.zip_cons_cons]
    cases hx : g x with
    | none => simp [callList.groupGo]
    | some w =>
      cases w with
      | str s =>
        simp only [callList.groupGo]
        apply ih
        obtain ⟨v, hv, hvn⟩ := h
        rcases List.mem_cons.1 hv with rfl | hv'
        · rw [hx] at hvn; simp [strArg] at hvn
        · exact ⟨v, hv', hvn⟩
      | _ => simp [callList.groupGo]

/-- looking a key up in an object built from a list of keys by a function of the key -/
theorem objGet?_map_keys (ks : List Str) (h : Str → JV) (k : Str) :
    objGet? (ks.map (fun k' => (k', h k'))) k = if k ∈ ks then some (h k) else none := by
  induction ks with
  | nil => rfl
  | cons k' ks ih =>
    by_cases hk : k' = k
    · subst hk; simp [objGet?]
    · have : ¬ k = k' := fun h' => hk h'.symm
      simp [objGet?, hk, ih, this]

/-- `t == true` of the program is the test `isTrue` of `filter` -/
theorem beq_bool_true (t : JV) : JV.beq t (.bool true) = isTrue (some t) := by
  cases t with
  | bool b => cases b <;> simp [JV.beq, isTrue]
  | _ => simp [JV.beq, isTrue]

theorem isTrue_some_iff (t : JV) : isTrue (some t) = true ↔ t = .bool true := by
  rcases t with _ | (_ | _) | _ | _ | _ | _ <;> simp [isTrue]

/-- the loop of `sum` on a list of numbers is the left fold of `f64` addition -/
theorem sumGo_nums (acc : F64) (ns : List Num) :
    callList.sumGo acc (ns.map JV.num) = some (ns.foldl (fun s n => F64.add s n.toF64) acc) := by
  induction ns generalizing acc with
  | nil => rfl
  | cons n ns ih => simp only [List.map_cons, callList.sumGo, ih, List.foldl_cons]

/-- an item that is not a number makes the sum nothing -/
theorem sumGo_non_number (acc : F64) (l : List JV) (h : ∃ v ∈ l, numArg (some v) = none) :
    callList.sumGo acc l = none := by
  induction l generalizing acc with
  | nil => simp at h
  | cons x xs ih =>
    obtain ⟨v, hv, hn⟩ := h
    cases x with
    | num n =>
      rw [callList.sumGo]
      apply ih
      rcases List.mem_cons.1 hv with rfl | h'
      · simp [numArg] at hn
      · exact ⟨v, h', hn⟩
    | _ => simp [callList.sumGo]

/-- summing natural numbers in `f64` is exact as long as the total stays below `2^53` -/
theorem sum_foldl_add_ofNat (ns : List Nat) (k : Nat) (h : k + ns.sum < 2 ^ 53) :
    (ns.map Num.pos).foldl (fun s n => F64.add s n.toF64) (F64.ofNat k) = F64.ofNat (k + ns.sum) := by
  induction ns generalizing k with
  | nil => simp
  | cons n ns ih =>
    simp only [List.sum_cons] at h
    simp only [List.map_cons, List.foldl_cons, List.sum_cons]
    rw [show (Num.pos n).toF64 = F64.ofNat n from rfl, add_ofNat k n (by omega), ih (k + n) (by omega),
      Nat.add_assoc]

/-- a natural number below `2^53`, as a double, is rendered back as that integer -/
theorem sum_jnumFinite_ofNat (k : Nat) (hk : k < 2 ^ 53) : jnumFinite (F64.ofNat k) = some (.num (.pos k)) := by
  obtain ⟨m, e, p, hm, -⟩ := ofNat_exact k hk
  simp only [jnumFinite, jnum, ofF64_ofNat k hk]
  rw [hm]; rfl

/-- the member name `".i"` of list number `i` in the rows of `zip` and `cross` -/
def dotKey (i : Nat) : Str := '.' :: Nat.toDigits 10 i

theorem dotKey_inj {i j : Nat} (h : dotKey i = dotKey j) : i = j := by
  have h' : Nat.toDigits 10 i = Nat.toDigits 10 j := by simpa [dotKey] using h
  have := congrArg (fun d => Nat.ofDigitChars 10 d 0) h'
  simpa [Nat.ofDigitChars_ten_toDigits] using this

theorem dotKey_zero : dotKey 0 = ".0".toList := by decide
theorem dotKey_one : dotKey 1 = ".1".toList := by decide
theorem dotKey_two : dotKey 2 = ".2".toList := by decide

/-- inserting under a key the object does not have appends the member -/
theorem objInsert_new_key (m : List (Str × JV)) (k : Str) (v : JV) (h : k ∉ m.map (·.1)) :
    objInsert m k v = m ++ [(k, v)] := by
  induction m with
  | nil => rfl
  | cons kv m ih =>
    obtain ⟨k', v'⟩ := kv
    simp only [List.map_cons, List.mem_cons, not_or] at h
    have : ¬ k' = k := fun h' => h.1 h'.symm
    simp [objInsert, this, ih h.2]

/-- building an object from members with pairwise different keys keeps the members as they are -/
theorem foldl_objInsert_distinct (kvs acc : List (Str × JV)) (hnd : ((acc ++ kvs).map (·.1)).Nodup) :
    kvs.foldl (fun acc kv => objInsert acc kv.1 kv.2) acc = acc ++ kvs := by
  induction kvs generalizing acc with
  | nil => simp
  | cons kv kvs ih =>
    have hk : kv.1 ∉ acc.map (·.1) := by
      intro hmem
      rw [List.map_append, List.nodup_append] at hnd
      exact hnd.2.2 _ hmem _ (by simp) rfl
    rw [List.foldl_cons, objInsert_new_key acc kv.1 kv.2 hk, ih (acc ++ [kv]) (by simpa using hnd)]
    simp

theorem objOfList_distinct_keys (kvs : List (Str × JV)) (h : (kvs.map (·.1)).Nodup) : objOfList kvs = kvs := by
  have := foldl_objInsert_distinct kvs [] (by simpa using h)
  simpa [objOfList] using this

/-- row `idx` of `zip`: for each list, in order, that has an item at `idx`, the member `".i"` with that item -/
def zipRow (lists : List (List JV)) (start idx : Nat) : List (Str × JV) :=
  (lists.zipIdx start).filterMap (fun li => (li.1[idx]?).map (fun v => (dotKey li.2, v)))

theorem zipRow_keys (lists : List (List JV)) (start idx : Nat) :
    ((zipRow lists start idx).map (·.1)).Nodup ∧ ∀ k ∈ (zipRow lists start idx).map (·.1), ∃ i, start ≤ i ∧ k = dotKey i := by
  induction lists generalizing start with
  | nil => simp [zipRow]
  | cons l ls ih =>
    obtain ⟨ih1, ih2⟩ := ih (start + 1)
    simp only [zipRow, List.zipIdx_cons, List.filterMap_cons] at ih1 ih2 ⊢
    cases l[idx]? with
    | none =>
      refine ⟨ih1, fun k hk => ?_⟩
      obtain ⟨i, hi, rfl⟩ := ih2 k hk
      exact ⟨i, by omega, rfl⟩
    | some v =>
      simp only [Option.map_some, List.map_cons, List.nodup_cons]
      refine ⟨⟨fun hmem => ?_, ih1⟩, fun k hk => ?_⟩
      · obtain ⟨i, hi, he⟩ := ih2 _ hmem
        have := dotKey_inj he
        omega
      · rcases List.mem_cons.1 hk with rfl | hk
        · exact ⟨start, Nat.le_refl _, rfl⟩
        · obtain ⟨i, hi, rfl⟩ := ih2 k hk
          exact ⟨i, by omega, rfl⟩

/-- the member `".k"` of row `idx` is item `idx` of list `k`; it is absent exactly when that list is too short -/
theorem objGet?_zipRow (lists : List (List JV)) (start idx k : Nat) :
    objGet? (zipRow lists start idx) (dotKey (start + k)) = (lists[k]?).bind (fun l => l[idx]?) := by
  induction lists generalizing start k with
  | nil => simp [zipRow, objGet?]
  | cons l ls ih =>
    simp only [zipRow, List.zipIdx_cons, List.filterMap_cons]
    cases k with
    | zero =>
      cases h : l[idx]? with
      | none =>
        simp only [Option.map_none, List.getElem?_cons_zero, Option.bind_some, h]
        rw [objGet?_none_iff]
        intro kv hkv hk
        obtain ⟨i, hi, he⟩ := (zipRow_keys ls (start + 1) idx).2 kv.1 (List.mem_map_of_mem hkv)
        have := dotKey_inj (hk ▸ he)
        omega
      | some v => simp [objGet?, h]
    | succ k =>
      have hne : dotKey start ≠ dotKey (start + (k + 1)) := fun h => by have := dotKey_inj h; omega
      have := ih (start + 1) k
      simp only [zipRow] at this
      cases l[idx]? with
      | none => simpa [show start + 1 + k = start + (k + 1) by omega] using this
      | some v => simpa [objGet?, hne, show start + 1 + k = start + (k + 1) by omega] using this

/-- the longest length: an upper bound of all lengths, attained by one of the lists (0 for no list) -/
theorem foldl_max_length (lists : List (List JV)) (m0 : Nat) :
    let m := lists.foldl (fun m l => max m l.length) m0
    m0 ≤ m ∧ (∀ l ∈ lists, l.length ≤ m) ∧ (m = m0 ∨ ∃ l ∈ lists, l.length = m) := by
  induction lists generalizing m0 with
  | nil => simp
  | cons l ls ih =>
    obtain ⟨h1, h2, h3⟩ := ih (max m0 l.length)
    simp only [List.foldl_cons]
    refine ⟨by omega, ?_, ?_⟩
    · intro l' hl'
      rcases List.mem_cons.1 hl' with rfl | hl'
      · omega
      · exact h2 l' hl'
    · rcases h3 with h3 | ⟨l', hl', h3⟩
      · by_cases hm : m0 ≤ l.length
        · exact .inr ⟨l, List.mem_cons_self, by omega⟩
        · exact .inl (by omega)
      · exact .inr ⟨l', List.mem_cons_of_mem _ hl', h3⟩

theorem foldl_max_two (x y : Nat) : max (max 0 x) y = max x y := by omega

/-- selecting the arrays among values one of which is not an array gives fewer than the values -/
theorem filterMap_arr_length (F : Option JV → Option (List JV)) (hF : ∀ v, isArr v = false → F v = none)
    (vs : List (Option JV)) (h : ∃ v ∈ vs, isArr v = false) :
    (vs.filterMap F).length ≠ vs.length := by
  induction vs with
  | nil => simp at h
  | cons w ws ih =>
    obtain ⟨v, hv, hva⟩ := h
    cases hw : F w with
    | none =>
      have := List.length_filterMap_le F ws
      simp only [List.filterMap_cons, hw, List.length_cons]
      omega
    | some l =>
      rcases List.mem_cons.1 hv with rfl | hv'
      · rw [hF _ hva] at hw; simp at hw
      · have := ih ⟨v, hv', hva⟩
        simpa [List.filterMap_cons, hw] using this

theorem filterMap_arr_all (F : Option JV → Option (List JV)) (hF : ∀ l, F (some (.arr l)) = some l)
    (lists : List (List JV)) : (lists.map (fun l => some (JV.arr l))).filterMap F = lists := by
  induction lists with
  | nil => rfl
  | cons l ls ih => simp [hF, ih]

theorem flatMap_congr_mem {α β} {f g : α → List β} (l : List α) (h : ∀ x ∈ l, f x = g x) :
    l.flatMap f = l.flatMap g := by
  rw [List.flatMap_def, List.flatMap_def, List.map_congr_left h]

/-- the rows of `cross`: the lists are taken in order; each one multiplies the rows so far, its items in the
outer loop and the rows so far in the inner one; the new member `".i"` is added at the end of the row -/
def crossRows : List (List JV) → Nat → List (List (Str × JV)) → List (List (Str × JV))
  | [], _, joined => joined
  | lst :: rest, i, joined =>
    crossRows rest (i + 1) (lst.flatMap (fun v => joined.map (fun sofar => sofar ++ [(dotKey i, v)])))

theorem dotKey_not_mem_range (i : Nat) : dotKey i ∉ (List.range i).map dotKey := by
  intro h
  obtain ⟨j, hj, he⟩ := List.mem_map.1 h
  have := dotKey_inj he
  rw [List.mem_range] at hj
  omega

/-- the loop of `cross` (with `IndexMap::insert`) adds a new last member in every round -/
theorem cross_foldl (S : List (List (Str × JV)) → List JV × Nat → List (List (Str × JV)))
    (hS : ∀ joined lst i, S joined (lst, i) =
      lst.flatMap (fun v => joined.map (fun sofar => objInsert sofar (dotKey i) v)))
    (lists : List (List JV)) (i : Nat) (joined : List (List (Str × JV)))
    (hinv : ∀ r ∈ joined, r.map (·.1) = (List.range i).map dotKey) :
    (lists.zipIdx i).foldl S joined = crossRows lists i joined := by
  induction lists generalizing i joined with
  | nil => rfl
  | cons lst rest ih =>
    have hstep : S joined (lst, i) = lst.flatMap (fun v => joined.map (fun sofar => sofar ++ [(dotKey i, v)])) := by
      rw [hS]
      apply flatMap_congr_mem
      intro v _
      apply List.map_congr_left
      intro r hr
      exact objInsert_new_key r (dotKey i) v (by rw [hinv r hr]; exact dotKey_not_mem_range i)
    rw [List.zipIdx_cons, List.foldl_cons, hstep, crossRows]
    apply ih
    intro r hr
    obtain ⟨v, _, hr⟩ := List.mem_flatMap.1 hr
    obtain ⟨r0, hr0, rfl⟩ := List.mem_map.1 hr
    rw [List.map_append, hinv r0 hr0, List.range_succ, List.map_append]
    rfl

theorem length_flatMap_const {α β} (f : α → List β) (c : Nat) (l : List α) (h : ∀ x ∈ l, (f x).length = c) :
    (l.flatMap f).length = l.length * c := by
  induction l with
  | nil => simp
  | cons x xs ih =>
    rw [List.flatMap_cons, List.length_append, h x List.mem_cons_self,
      ih (fun y hy => h y (List.mem_cons_of_mem _ hy)), List.length_cons, Nat.succ_mul, Nat.add_comm]

/-- as many rows as the product of the lengths -/
theorem length_crossRows (lists : List (List JV)) (i : Nat) (joined : List (List (Str × JV))) :
    (crossRows lists i joined).length = joined.length * (lists.map List.length).prod := by
  induction lists generalizing i joined with
  | nil => simp [crossRows]
  | cons lst rest ih =>
    rw [crossRows, ih, length_flatMap_const _ joined.length lst (fun _ _ => List.length_map _),
      List.map_cons, List.prod_cons, Nat.mul_comm lst.length, Nat.mul_assoc]

/-- every row has exactly the members `".0"`, `".1"`, …, one per list, in this order -/
theorem crossRows_keys (lists : List (List JV)) (i : Nat) (joined : List (List (Str × JV)))
    (hinv : ∀ r ∈ joined, r.map (·.1) = (List.range i).map dotKey) :
    ∀ r ∈ crossRows lists i joined, r.map (·.1) = (List.range (i + lists.length)).map dotKey := by
  induction lists generalizing i joined with
  | nil => simpa [crossRows] using hinv
  | cons lst rest ih =>
    rw [crossRows, List.length_cons, show i + (rest.length + 1) = (i + 1) + rest.length by omega]
    apply ih
    intro r hr
    obtain ⟨v, _, hr⟩ := List.mem_flatMap.1 hr
    obtain ⟨r0, hr0, rfl⟩ := List.mem_map.1 hr
    rw [List.map_append, hinv r0 hr0, List.range_succ, List.map_append]
    rfl

theorem crossRows_two (la lb : List JV) :
    crossRows [la, lb] 0 [[]] = lb.flatMap (fun y => la.map (fun x => [(".0".toList, x), (".1".toList, y)])) := by
  simp only [crossRows, Nat.zero_add, dotKey_zero, dotKey_one, List.map_cons, List.map_nil, List.nil_append]
  apply flatMap_congr_mem
  intro y _
  rw [List.flatMap_def, List.map_flatten, List.map_map]
  induction la with
  | nil => rfl
  | cons x xs ih => simpa using ih

variable (orc : Oracles) (fuel : Nat) (ctx : Ctx)

/-! ## 1. `flat_map`: "activate the second argument on each item, and if that returns a list, add all the items
to a new list" -/

theorem flat_map_arr_ok (a f : Expr) (l : List JV) (rs : List (Option JV))
    (ha : eval orc fuel a ctx = .ok (some (.arr l)))
    (hf : mapM' (fun v => eval orc fuel f (ctx.withInput v)) l = .ok rs) :
    eval orc (fuel + 1) (.call "flat_map" [a, f]) ctx = .ok (some (.arr (rs.flatMap arrItems))) := by
  lcall_simp [ha, hf]
  rfl

/-- an abort of the function on an item is the abort of the call -/
theorem flat_map_arr_error (a f : Expr) (l : List JV) (e : Abort)
    (ha : eval orc fuel a ctx = .ok (some (.arr l)))
    (hf : mapM' (fun v => eval orc fuel f (ctx.withInput v)) l = .error e) :
    eval orc (fuel + 1) (.call "flat_map" [a, f]) ctx = .error e := by
  lcall_simp [ha, hf]

/-- `flat_map`: the concatenation, in order, of the arrays the function gives on the items; an item on which
the function gives something that is not an array (or nothing) contributes nothing -/
theorem flat_map_arr (a f : Expr) (l : List JV) (g : JV → Option JV)
    (ha : eval orc fuel a ctx = .ok (some (.arr l)))
    (hf : ∀ v ∈ l, eval orc fuel f (ctx.withInput v) = .ok (g v)) :
    eval orc (fuel + 1) (.call "flat_map" [a, f]) ctx = .ok (some (.arr (l.flatMap (fun v => arrItems (g v))))) := by
  rw [flat_map_arr_ok orc fuel ctx a f l _ ha (mapM'_ok _ g l hf), List.flatMap_map]

/-- when the function gives an array on every item: the concatenation `(l.map g).flatten` of those arrays -/
theorem flat_map_arr_total (a f : Expr) (l : List JV) (g : JV → List JV)
    (ha : eval orc fuel a ctx = .ok (some (.arr l)))
    (hf : ∀ v ∈ l, eval orc fuel f (ctx.withInput v) = .ok (some (.arr (g v)))) :
    eval orc (fuel + 1) (.call "flat_map" [a, f]) ctx = .ok (some (.arr (l.map g).flatten)) := by
  rw [flat_map_arr orc fuel ctx a f l (fun v => some (.arr (g v))) ha hf]
  simp only [arrItems, List.flatMap_def]

/-- the size of the result is the sum of the sizes of the arrays -/
theorem size_flat_map_total (a f : Expr) (l : List JV) (g : JV → List JV)
    (ha : eval orc fuel a ctx = .ok (some (.arr l)))
    (hf : ∀ v ∈ l, eval orc fuel f (ctx.withInput v) = .ok (some (.arr (g v)))) :
    eval orc (fuel + 2) (.call "size" [.call "flat_map" [a, f]]) ctx =
      .ok (some (.num (.pos (l.map (fun v => (g v).length)).sum))) := by
  rw [size_arr orc (fuel + 1) ctx _ _ (flat_map_arr_total orc fuel ctx a f l g ha hf), List.length_flatten,
    List.map_map]
  rfl

/-- a function that never gives an array: the empty list (the documentation's `(flat_map [1,2,3,4] (.len))`) -/
theorem flat_map_no_arrays (a f : Expr) (l : List JV) (g : JV → Option JV) (hg : ∀ v ∈ l, isArr (g v) = false)
    (ha : eval orc fuel a ctx = .ok (some (.arr l)))
    (hf : ∀ v ∈ l, eval orc fuel f (ctx.withInput v) = .ok (g v)) :
    eval orc (fuel + 1) (.call "flat_map" [a, f]) ctx = .ok (some (.arr [])) := by
  rw [flat_map_arr orc fuel ctx a f l g ha hf]
  have : l.flatMap (fun v => arrItems (g v)) = [] := by
    rw [List.flatMap_eq_nil_iff]
    exact fun v hv => arrItems_non_array _ (hg v hv)
  rw [this]

/-- whatever the function is: a result is an array, an abort is an abort of the function on one of the items -/
theorem flat_map_arr_result (a f : Expr) (l : List JV) (ha : eval orc fuel a ctx = .ok (some (.arr l))) :
    (∃ rs : List (Option JV), rs.length = l.length ∧
        l.map (fun v => eval orc fuel f (ctx.withInput v)) = rs.map .ok ∧
        eval orc (fuel + 1) (.call "flat_map" [a, f]) ctx = .ok (some (.arr (rs.flatMap arrItems)))) ∨
    (∃ e, eval orc (fuel + 1) (.call "flat_map" [a, f]) ctx = .error e ∧
        ∃ v ∈ l, eval orc fuel f (ctx.withInput v) = .error e) := by
  cases h : mapM' (fun v => eval orc fuel f (ctx.withInput v)) l with
  | error e => exact .inr ⟨e, flat_map_arr_error orc fuel ctx a f l e ha h, mapM'_error _ l e h⟩
  | ok rs =>
    exact .inl ⟨rs, mapM'_length _ l rs h, (mapM'_ok_iff _ l rs).1 h, flat_map_arr_ok orc fuel ctx a f l rs ha h⟩

/-- the first argument is not an array ⇒ nothing -/
theorem flat_map_wrong_type (a f : Expr) (v : Option JV) (hv : isArr v = false) (ha : eval orc fuel a ctx = .ok v) :
    eval orc (fuel + 1) (.call "flat_map" [a, f]) ctx = .ok none := by
  lcall_simp [ha]
  rcases v with _ | (_ | _ | _ | _ | _ | _) <;> simp_all [isArr]

/-- `flat_map` with the identity selection flattens a list of lists by one level -/
theorem flat_map_identity (a : Expr) (ls : List (List JV))
    (ha : eval orc (fuel + 1) a ctx = .ok (some (.arr (ls.map JV.arr)))) :
    eval orc (fuel + 2) (.call "flat_map" [a, .extract 0 []]) ctx = .ok (some (.arr ls.flatten)) := by
  rw [flat_map_arr orc (fuel + 1) ctx a _ _ (fun v => some v) ha (fun _ _ => rfl), List.flatMap_map]
  simp only [arrItems, List.flatMap_def, List.map_id']

/-! ## 2. `fold`: "Fold all the items in a list into a new value. … The function will accespt as input an hash with
`value`, `index` and `so_far` keys (if the previous run returned nothing, the `so_far` will be empty)." -/

/-- the object the folding function sees: `so_far` (only when the previous run returned a value), `value`, `index` -/
def foldInput (cur : Option JV) (v : JV) (i : Nat) : List (Str × JV) :=
  (match cur with
    | some c => [("so_far".toList, c)]
    | none => []) ++ [("value".toList, v), ("index".toList, .num (.pos i))]

/-- the loop of `fold` over an abstract step function: the accumulator `cur` is threaded through, the index counts up -/
def foldSteps (step : List (Str × JV) → R) : Option JV → Nat → List JV → R
  | cur, _, [] => .ok cur
  | cur, i, v :: vs =>
    match step (foldInput cur v i) with
    | .ok next => foldSteps step next (i + 1) vs
    | .error e => .error e

theorem foldSteps_nil (step : List (Str × JV) → R) (cur : Option JV) (i : Nat) :
    foldSteps step cur i [] = .ok cur := rfl

theorem foldSteps_cons_ok (step : List (Str × JV) → R) (cur next : Option JV) (i : Nat) (v : JV) (vs : List JV)
    (h : step (foldInput cur v i) = .ok next) :
    foldSteps step cur i (v :: vs) = foldSteps step next (i + 1) vs := by
  simp only [foldSteps, h]

theorem foldSteps_cons_error (step : List (Str × JV) → R) (cur : Option JV) (i : Nat) (v : JV) (vs : List JV)
    (e : Abort) (h : step (foldInput cur v i) = .error e) :
    foldSteps step cur i (v :: vs) = .error e := by
  simp only [foldSteps, h]

/-- a step function that returns on the items of the list: the loop is `List.foldl` over the items paired with
their indices -/
theorem foldSteps_foldl (step : List (Str × JV) → R) (g : Option JV → JV → Nat → Option JV) (l : List JV)
    (cur : Option JV) (k : Nat)
    (h : ∀ cur' v i, v ∈ l → step (foldInput cur' v i) = .ok (g cur' v i)) :
    foldSteps step cur k l = .ok ((l.zipIdx k).foldl (fun acc vi => g acc vi.1 vi.2) cur) := by
  induction l generalizing cur k with
  | nil => rfl
  | cons v vs ih =>
    rw [foldSteps_cons_ok step cur _ k v vs (h cur v k List.mem_cons_self),
      ih _ _ (fun c w i hw => h c w i (List.mem_cons_of_mem _ hw))]
    rfl

/-- an abort of the loop is an abort of the step function on one of the items -/
theorem foldSteps_error (step : List (Str × JV) → R) (l : List JV) (cur : Option JV) (k : Nat) (e : Abort)
    (h : foldSteps step cur k l = .error e) :
    ∃ cur' v i, v ∈ l ∧ step (foldInput cur' v i) = .error e := by
  induction l generalizing cur k with
  | nil => simp [foldSteps] at h
  | cons v vs ih =>
    cases hs : step (foldInput cur v k) with
    | error e' =>
      rw [foldSteps_cons_error step cur k v vs e' hs] at h
      exact ⟨cur, v, k, List.mem_cons_self, by rw [hs, h]⟩
    | ok next =>
      rw [foldSteps_cons_ok step cur next k v vs hs] at h
      obtain ⟨c, w, i, hw, hwe⟩ := ih _ _ h
      exact ⟨c, w, i, List.mem_cons_of_mem _ hw, hwe⟩

theorem foldGo_eq (ev : Ev) (f : Expr) (cur : Option JV) (k : Nat) (l : List JV) :
    callList.foldGo ev ctx f cur k l = foldSteps (fun m => ev f (ctx.withInput (.obj m))) cur k l := by
  induction l generalizing cur k with
  | nil => rfl
  | cons v vs ih =>
    have hin : ∀ m0 : List (Str × JV), m0 = (match cur with
        | some c => [("so_far".toList, c)]
        | none => []) →
        objInsert (objInsert m0 "value".toList v) "index".toList (jusize k) = foldInput cur v k := by
      intro m0 hm0; subst hm0
      cases cur <;> simp [objInsert, foldInput, jusize] <;> decide
    simp only [callList.foldGo, bind, Except.bind, foldSteps]
    rw [hin _ (by cases cur <;> rfl)]
    cases ev f (ctx.withInput (.obj (foldInput cur v k))) with
    | error e => rfl
    | ok next => exact ih next (k + 1)

/-- three arguments: the list, the initial value, the function -/
theorem fold_init_arr (a i f : Expr) (l : List JV) (w : Option JV)
    (ha : eval orc fuel a ctx = .ok (some (.arr l))) (hi : eval orc fuel i ctx = .ok w) :
    eval orc (fuel + 1) (.call "fold" [a, i, f]) ctx =
      foldSteps (fun m => eval orc fuel f (ctx.withInput (.obj m))) w 0 l := by
  lcall_simp [ha, hi]
  simp [foldGo_eq]

/-- two arguments: "the initial value will not be set" -/
theorem fold_noinit_arr (a f : Expr) (l : List JV)
    (ha : eval orc fuel a ctx = .ok (some (.arr l))) :
    eval orc (fuel + 1) (.call "fold" [a, f]) ctx =
      foldSteps (fun m => eval orc fuel f (ctx.withInput (.obj m))) none 0 l := by
  lcall_simp [ha]
  simp [foldGo_eq]

/-- the empty list gives the initial value (the function is not evaluated) -/
theorem fold_init_nil (a i f : Expr) (w : Option JV)
    (ha : eval orc fuel a ctx = .ok (some (.arr []))) (hi : eval orc fuel i ctx = .ok w) :
    eval orc (fuel + 1) (.call "fold" [a, i, f]) ctx = .ok w := by
  rw [fold_init_arr orc fuel ctx a i f [] w ha hi]; rfl

/-- the empty list without an initial value gives nothing -/
theorem fold_noinit_nil (a f : Expr) (ha : eval orc fuel a ctx = .ok (some (.arr []))) :
    eval orc (fuel + 1) (.call "fold" [a, f]) ctx = .ok none := by
  rw [fold_noinit_arr orc fuel ctx a f [] ha]; rfl

/-- one step: the function is evaluated on `{so_far: init, value: first item, index: 0}`; its result is the
accumulator for the rest of the list, whose indices go on from 1 -/
theorem fold_init_cons (a i f : Expr) (v : JV) (vs : List JV) (w next : Option JV)
    (ha : eval orc fuel a ctx = .ok (some (.arr (v :: vs)))) (hi : eval orc fuel i ctx = .ok w)
    (hstep : eval orc fuel f (ctx.withInput (.obj (foldInput w v 0))) = .ok next) :
    eval orc (fuel + 1) (.call "fold" [a, i, f]) ctx =
      foldSteps (fun m => eval orc fuel f (ctx.withInput (.obj m))) next 1 vs := by
  rw [fold_init_arr orc fuel ctx a i f _ w ha hi, foldSteps_cons_ok _ w next 0 v vs hstep]

theorem fold_noinit_cons (a f : Expr) (v : JV) (vs : List JV) (next : Option JV)
    (ha : eval orc fuel a ctx = .ok (some (.arr (v :: vs))))
    (hstep : eval orc fuel f (ctx.withInput (.obj [("value".toList, v), ("index".toList, .num (.pos 0))])) = .ok next) :
    eval orc (fuel + 1) (.call "fold" [a, f]) ctx =
      foldSteps (fun m => eval orc fuel f (ctx.withInput (.obj m))) next 1 vs := by
  rw [fold_noinit_arr orc fuel ctx a f _ ha, foldSteps_cons_ok _ none next 0 v vs hstep]

/-- a one-item list: the function's value on that item -/
theorem fold_init_singleton (a i f : Expr) (v : JV) (w : Option JV)
    (ha : eval orc fuel a ctx = .ok (some (.arr [v]))) (hi : eval orc fuel i ctx = .ok w) :
    eval orc (fuel + 1) (.call "fold" [a, i, f]) ctx = eval orc fuel f (ctx.withInput (.obj (foldInput w v 0))) := by
  rw [fold_init_arr orc fuel ctx a i f _ w ha hi]
  simp only [foldSteps]
  cases eval orc fuel f (ctx.withInput (.obj (foldInput w v 0))) <;> rfl

/-- a function whose value is `g so_far value index` on the items: the result is the left fold of `g` over the
items paired with their indices, starting from the initial value -/
theorem fold_init_foldl (a i f : Expr) (l : List JV) (w : Option JV) (g : Option JV → JV → Nat → Option JV)
    (ha : eval orc fuel a ctx = .ok (some (.arr l))) (hi : eval orc fuel i ctx = .ok w)
    (hf : ∀ cur v k, v ∈ l → eval orc fuel f (ctx.withInput (.obj (foldInput cur v k))) = .ok (g cur v k)) :
    eval orc (fuel + 1) (.call "fold" [a, i, f]) ctx =
      .ok (l.zipIdx.foldl (fun acc vi => g acc vi.1 vi.2) w) := by
  rw [fold_init_arr orc fuel ctx a i f l w ha hi, foldSteps_foldl _ g l w 0 hf]

theorem fold_noinit_foldl (a f : Expr) (l : List JV) (g : Option JV → JV → Nat → Option JV)
    (ha : eval orc fuel a ctx = .ok (some (.arr l)))
    (hf : ∀ cur v k, v ∈ l → eval orc fuel f (ctx.withInput (.obj (foldInput cur v k))) = .ok (g cur v k)) :
    eval orc (fuel + 1) (.call "fold" [a, f]) ctx =
      .ok (l.zipIdx.foldl (fun acc vi => g acc vi.1 vi.2) none) := by
  rw [fold_noinit_arr orc fuel ctx a f l ha, foldSteps_foldl _ g l none 0 hf]

/-- a function that does not look at the index: `List.foldl` over the items -/
theorem fold_init_foldl_items (a i f : Expr) (l : List JV) (w : Option JV) (g : Option JV → JV → Option JV)
    (ha : eval orc fuel a ctx = .ok (some (.arr l))) (hi : eval orc fuel i ctx = .ok w)
    (hf : ∀ cur v k, v ∈ l → eval orc fuel f (ctx.withInput (.obj (foldInput cur v k))) = .ok (g cur v)) :
    eval orc (fuel + 1) (.call "fold" [a, i, f]) ctx = .ok (l.foldl g w) := by
  rw [fold_init_foldl orc fuel ctx a i f l w (fun c v _ => g c v) ha hi hf]
  rw [foldl_zipIdx_fst]

/-- whatever the function is: `fold` returns, or aborts with an abort of the function on some step -/
theorem fold_init_result (a i f : Expr) (l : List JV) (w : Option JV)
    (ha : eval orc fuel a ctx = .ok (some (.arr l))) (hi : eval orc fuel i ctx = .ok w) :
    (∃ r, eval orc (fuel + 1) (.call "fold" [a, i, f]) ctx = .ok r) ∨
    (∃ e, eval orc (fuel + 1) (.call "fold" [a, i, f]) ctx = .error e ∧
      ∃ cur v k, v ∈ l ∧ eval orc fuel f (ctx.withInput (.obj (foldInput cur v k))) = .error e) := by
  rw [fold_init_arr orc fuel ctx a i f l w ha hi]
  cases h : foldSteps (fun m => eval orc fuel f (ctx.withInput (.obj m))) w 0 l with
  | ok r => exact .inl ⟨r, rfl⟩
  | error e => exact .inr ⟨e, rfl, foldSteps_error _ l w 0 e h⟩

/-- the first argument is not an array ⇒ nothing (both arities) -/
theorem fold_init_wrong_type (a i f : Expr) (v : Option JV) (hv : isArr v = false) (ha : eval orc fuel a ctx = .ok v) :
    eval orc (fuel + 1) (.call "fold" [a, i, f]) ctx = .ok none := by
  lcall_simp [ha]
  rcases v with _ | (_ | _ | _ | _ | _ | _) <;> simp_all [isArr]

theorem fold_noinit_wrong_type (a f : Expr) (v : Option JV) (hv : isArr v = false) (ha : eval orc fuel a ctx = .ok v) :
    eval orc (fuel + 1) (.call "fold" [a, f]) ctx = .ok none := by
  lcall_simp [ha]
  rcases v with _ | (_ | _ | _ | _ | _ | _) <;> simp_all [isArr]

/-! ## 3. `group_by`: "If the first argument is a list, return list grouped by the second argument." -/

/-- the result when every key evaluation returns: the loop `groupGo` of the model on the items and their keys -/
theorem group_by_arr_ok (a f : Expr) (l : List JV) (rs : List (Option JV))
    (ha : eval orc fuel a ctx = .ok (some (.arr l)))
    (hf : mapM' (fun v => eval orc fuel f (ctx.withInput v)) l = .ok rs) :
    eval orc (fuel + 1) (.call "group_by" [a, f]) ctx =
      .ok ((callList.groupGo [] (l.zip rs)).map (fun groups => JV.obj (groups.map (fun g => (g.1, JV.arr g.2))))) := by
  lcall_simp [ha, hf]
  cases callList.groupGo [] (l.zip rs) <;> rfl

theorem group_by_arr_error (a f : Expr) (l : List JV) (e : Abort)
    (ha : eval orc fuel a ctx = .ok (some (.arr l)))
    (hf : mapM' (fun v => eval orc fuel f (ctx.withInput v)) l = .error e) :
    eval orc (fuel + 1) (.call "group_by" [a, f]) ctx = .error e := by
  lcall_simp [ha, hf]

/-- `group_by` with a function that gives a string on every item: an object with one member per key, the keys in
the order of their FIRST occurrence (`List.eraseDups`), the value of key `k` the array of exactly the items with
that key, in their original order (`l.filter (key · == k)`) -/
theorem group_by_arr (a f : Expr) (l : List JV) (key : JV → Str)
    (ha : eval orc fuel a ctx = .ok (some (.arr l)))
    (hf : ∀ v ∈ l, eval orc fuel f (ctx.withInput v) = .ok (some (.str (key v)))) :
    eval orc (fuel + 1) (.call "group_by" [a, f]) ctx =
      .ok (some (.obj ((l.map key).eraseDups.map (fun k => (k, JV.arr (l.filter (fun v => key v == k))))))) := by
  rw [group_by_arr_ok orc fuel ctx a f l _ ha (mapM'_ok _ (fun v => some (.str (key v))) l hf)]
  have := groupGo_strs key [] l
  simp only [groupsOf, List.map_nil, List.eraseDups_nil, List.nil_append] at this
  rw [this]
  simp [List.map_map, Function.comp_def]

/-- a key evaluation that is not a string (or nothing) ⇒ nothing -/
theorem group_by_non_string (a f : Expr) (l : List JV) (g : JV → Option JV) (h : ∃ v ∈ l, strArg (g v) = none)
    (ha : eval orc fuel a ctx = .ok (some (.arr l)))
    (hf : ∀ v ∈ l, eval orc fuel f (ctx.withInput v) = .ok (g v)) :
    eval orc (fuel + 1) (.call "group_by" [a, f]) ctx = .ok none := by
  rw [group_by_arr_ok orc fuel ctx a f l _ ha (mapM'_ok _ g l hf), groupGo_non_string g [] l h]
  rfl

/-- the empty list gives the empty object -/
theorem group_by_nil (a f : Expr) (ha : eval orc fuel a ctx = .ok (some (.arr []))) :
    eval orc (fuel + 1) (.call "group_by" [a, f]) ctx = .ok (some (.obj [])) := by
  rw [group_by_arr orc fuel ctx a f [] (fun _ => []) ha (fun _ h => absurd h List.not_mem_nil)]
  rfl

/-- the keys of the result: distinct, exactly the keys of the items, in order of first occurrence -/
theorem group_by_keys (a f : Expr) (l : List JV) (key : JV → Str)
    (ha : eval orc fuel a ctx = .ok (some (.arr l)))
    (hf : ∀ v ∈ l, eval orc fuel f (ctx.withInput v) = .ok (some (.str (key v)))) :
    eval orc (fuel + 2) (.call "keys" [.call "group_by" [a, f]]) ctx =
      .ok (some (.arr ((l.map key).eraseDups.map JV.str))) ∧
    (l.map key).eraseDups.Nodup ∧ (∀ k, k ∈ (l.map key).eraseDups ↔ ∃ v ∈ l, key v = k) := by
  refine ⟨?_, eraseDups_nodup _, ?_⟩
  · rw [keys_obj orc (fuel + 1) ctx _ _ (group_by_arr orc fuel ctx a f l key ha hf), List.map_map]
    rfl
  · intro k
    rw [List.mem_eraseDups, List.mem_map]

/-- looking a key up in the result: the items with that key; a key no item has is absent -/
theorem get_group_by (a f b : Expr) (l : List JV) (key : JV → Str) (k : Str)
    (ha : eval orc fuel a ctx = .ok (some (.arr l)))
    (hf : ∀ v ∈ l, eval orc fuel f (ctx.withInput v) = .ok (some (.str (key v))))
    (hb : eval orc (fuel + 1) b ctx = .ok (some (.str k))) :
    eval orc (fuel + 2) (.call "get" [.call "group_by" [a, f], b]) ctx =
      .ok (if k ∈ l.map key then some (.arr (l.filter (fun v => key v == k))) else none) := by
  rw [get_obj orc (fuel + 1) ctx _ b _ k (group_by_arr orc fuel ctx a f l key ha hf) hb,
    objGet?_map_keys _ (fun k => JV.arr (l.filter (fun v => key v == k))) k]
  simp only [List.mem_eraseDups]

/-- every item is in exactly one group: item `v` is in the group of key `k` exactly when `k` is its key, no group
is empty, and the groups together are a permutation of the list -/
theorem group_by_partition (l : List JV) (key : JV → Str) :
    (∀ v ∈ l, ∀ k, v ∈ l.filter (fun v => key v == k) ↔ key v = k) ∧
    (∀ k ∈ (l.map key).eraseDups, l.filter (fun v => key v == k) ≠ []) ∧
    ((l.map key).eraseDups.flatMap (fun k => l.filter (fun v => key v == k))).Perm l := by
  refine ⟨?_, ?_, ?_⟩
  · intro v hv k
    simp [List.mem_filter, hv]
  · intro k hk
    rw [List.mem_eraseDups, List.mem_map] at hk
    obtain ⟨v, hv, rfl⟩ := hk
    exact List.ne_nil_of_mem (List.mem_filter.2 ⟨hv, by simp⟩)
  · refine (groups_perm key l (l.map key)).trans (List.Perm.of_eq ?_)
    rw [List.filter_eq_self]
    intro v hv
    simpa using ⟨v, hv, rfl⟩

/-- whatever the function is: `group_by` on an array returns an object or nothing, or aborts with an abort of the
function on one of the items -/
theorem group_by_arr_result (a f : Expr) (l : List JV) (ha : eval orc fuel a ctx = .ok (some (.arr l))) :
    eval orc (fuel + 1) (.call "group_by" [a, f]) ctx = .ok none ∨
    (∃ m, eval orc (fuel + 1) (.call "group_by" [a, f]) ctx = .ok (some (.obj m))) ∨
    (∃ e, eval orc (fuel + 1) (.call "group_by" [a, f]) ctx = .error e ∧
        ∃ v ∈ l, eval orc fuel f (ctx.withInput v) = .error e) := by
  cases h : mapM' (fun v => eval orc fuel f (ctx.withInput v)) l with
  | error e => exact .inr (.inr ⟨e, group_by_arr_error orc fuel ctx a f l e ha h, mapM'_error _ l e h⟩)
  | ok rs =>
    rw [group_by_arr_ok orc fuel ctx a f l rs ha h]
    cases callList.groupGo [] (l.zip rs) with
    | none => exact .inl rfl
    | some g => exact .inr (.inl ⟨_, rfl⟩)

theorem group_by_wrong_type (a f : Expr) (v : Option JV) (hv : isArr v = false) (ha : eval orc fuel a ctx = .ok v) :
    eval orc (fuel + 1) (.call "group_by" [a, f]) ctx = .ok none := by
  lcall_simp [ha]
  rcases v with _ | (_ | _ | _ | _ | _ | _) <;> simp_all [isArr]

/-! ## 4. `all`: "Check if all the items in a list are true. Will return false if the list is empty." -/

theorem all_arr (a : Expr) (l : List JV) (ha : eval orc fuel a ctx = .ok (some (.arr l))) :
    eval orc (fuel + 1) (.call "all" [a]) ctx =
      .ok (some (.bool (!l.isEmpty && l.all (fun t => isTrue (some t))))) := by
  lcall_simp [ha]
  simp only [beq_bool_true]

/-- the empty list: `false` (as documented; not the vacuous `true`) -/
theorem all_nil (a : Expr) (ha : eval orc fuel a ctx = .ok (some (.arr []))) :
    eval orc (fuel + 1) (.call "all" [a]) ctx = .ok (some (.bool false)) := by
  rw [all_arr orc fuel ctx a [] ha]; rfl

/-- a non-empty list of `true`s: `true` -/
theorem all_true (a : Expr) (l : List JV) (hne : l ≠ []) (h : ∀ v ∈ l, v = .bool true)
    (ha : eval orc fuel a ctx = .ok (some (.arr l))) :
    eval orc (fuel + 1) (.call "all" [a]) ctx = .ok (some (.bool true)) := by
  rw [all_arr orc fuel ctx a l ha]
  have h1 : l.isEmpty = false := by cases l <;> simp_all
  have h2 : l.all (fun t => isTrue (some t)) = true := by
    rw [List.all_eq_true]; intro v hv; rw [h v hv]; rfl
  rw [h1, h2]; rfl

/-- an item that is not `true` (`false`, a number, …): `false` -/
theorem all_not_true (a : Expr) (l : List JV) (h : ∃ v ∈ l, v ≠ .bool true)
    (ha : eval orc fuel a ctx = .ok (some (.arr l))) :
    eval orc (fuel + 1) (.call "all" [a]) ctx = .ok (some (.bool false)) := by
  rw [all_arr orc fuel ctx a l ha]
  have h2 : l.all (fun t => isTrue (some t)) = false := by
    rw [List.all_eq_false]
    obtain ⟨v, hv, hne⟩ := h
    exact ⟨v, hv, fun ht => hne ((isTrue_some_iff v).1 ht)⟩
  rw [h2, Bool.and_false]

/-- so: `all` is `true` exactly for a non-empty list all of whose items are `true` -/
theorem all_true_iff (a : Expr) (l : List JV) (ha : eval orc fuel a ctx = .ok (some (.arr l))) :
    eval orc (fuel + 1) (.call "all" [a]) ctx = .ok (some (.bool true)) ↔ (l ≠ [] ∧ ∀ v ∈ l, v = .bool true) := by
  constructor
  · intro h
    by_cases hne : l = []
    · subst hne; rw [all_nil orc fuel ctx a ha] at h; simp at h
    · refine ⟨hne, fun v hv => ?_⟩
      apply Classical.byContradiction
      intro hv'
      rw [all_not_true orc fuel ctx a l ⟨v, hv, hv'⟩ ha] at h
      simp at h
  · rintro ⟨hne, h⟩; exact all_true orc fuel ctx a l hne h ha

theorem all_wrong_type (a : Expr) (v : Option JV) (hv : isArr v = false) (ha : eval orc fuel a ctx = .ok v) :
    eval orc (fuel + 1) (.call "all" [a]) ctx = .ok none := by
  lcall_simp [ha]
  rcases v with _ | (_ | _ | _ | _ | _ | _) <;> simp_all [isArr]

/-! ## 5. `any`: "Check if any of item in a list is ture." -/

theorem any_arr (a : Expr) (l : List JV) (ha : eval orc fuel a ctx = .ok (some (.arr l))) :
    eval orc (fuel + 1) (.call "any" [a]) ctx = .ok (some (.bool (l.any (fun t => isTrue (some t))))) := by
  lcall_simp [ha]
  simp only [beq_bool_true]

/-- the empty list: `false` -/
theorem any_nil (a : Expr) (ha : eval orc fuel a ctx = .ok (some (.arr []))) :
    eval orc (fuel + 1) (.call "any" [a]) ctx = .ok (some (.bool false)) := by
  rw [any_arr orc fuel ctx a [] ha]; rfl

/-- `any` is `true` exactly when `true` is an item of the list -/
theorem any_true_iff (a : Expr) (l : List JV) (ha : eval orc fuel a ctx = .ok (some (.arr l))) :
    eval orc (fuel + 1) (.call "any" [a]) ctx = .ok (some (.bool true)) ↔ JV.bool true ∈ l := by
  rw [any_arr orc fuel ctx a l ha]
  simp only [Except.ok.injEq, Option.some.injEq, JV.bool.injEq, List.any_eq_true, isTrue_some_iff]
  constructor
  · rintro ⟨v, hv, rfl⟩; exact hv
  · intro h; exact ⟨_, h, rfl⟩

theorem any_false_iff (a : Expr) (l : List JV) (ha : eval orc fuel a ctx = .ok (some (.arr l))) :
    eval orc (fuel + 1) (.call "any" [a]) ctx = .ok (some (.bool false)) ↔ JV.bool true ∉ l := by
  rw [← any_true_iff orc fuel ctx a l ha, any_arr orc fuel ctx a l ha]
  cases l.any (fun t => isTrue (some t)) <;> simp

theorem any_wrong_type (a : Expr) (v : Option JV) (hv : isArr v = false) (ha : eval orc fuel a ctx = .ok v) :
    eval orc (fuel + 1) (.call "any" [a]) ctx = .ok none := by
  lcall_simp [ha]
  rcases v with _ | (_ | _ | _ | _ | _ | _) <;> simp_all [isArr]

/-- on a non-empty list `all` implies `any` -/
theorem all_imp_any (a : Expr) (l : List JV) (ha : eval orc fuel a ctx = .ok (some (.arr l)))
    (h : eval orc (fuel + 1) (.call "all" [a]) ctx = .ok (some (.bool true))) :
    eval orc (fuel + 1) (.call "any" [a]) ctx = .ok (some (.bool true)) := by
  obtain ⟨hne, hall⟩ := (all_true_iff orc fuel ctx a l ha).1 h
  rw [any_true_iff orc fuel ctx a l ha]
  cases l with
  | nil => exact absurd rfl hne
  | cons x xs => rw [← hall x List.mem_cons_self]; exact List.mem_cons_self

/-! ## 6. `sum`: "Sum all the items in the list. If list have non numeric items, it will return nuthing." -/

/-- the evaluator's `sum` in terms of the model's loop `sumGo` (`f64` addition from `0.0`, left to right) -/
theorem sum_arr (a : Expr) (l : List JV) (ha : eval orc fuel a ctx = .ok (some (.arr l))) :
    eval orc (fuel + 1) (.call "sum" [a]) ctx = .ok ((callList.sumGo F64.zero l).bind jnumFinite) := by
  lcall_simp [ha]

/-- a list of numbers: the left fold of `f64` addition starting from `0.0`, converted back by `From<f64>`;
an overflow to an infinity is nothing -/
theorem sum_nums (a : Expr) (ns : List Num) (ha : eval orc fuel a ctx = .ok (some (.arr (ns.map JV.num)))) :
    eval orc (fuel + 1) (.call "sum" [a]) ctx =
      .ok (jnumFinite (ns.foldl (fun s n => F64.add s n.toF64) F64.zero)) := by
  rw [sum_arr orc fuel ctx a _ ha, sumGo_nums]; rfl

/-- an item that is not a number ⇒ nothing -/
theorem sum_non_number (a : Expr) (l : List JV) (h : ∃ v ∈ l, numArg (some v) = none)
    (ha : eval orc fuel a ctx = .ok (some (.arr l))) :
    eval orc (fuel + 1) (.call "sum" [a]) ctx = .ok none := by
  rw [sum_arr orc fuel ctx a l ha, sumGo_non_number F64.zero l h]; rfl

/-- non-negative integers whose total is below `2^53`: the exact integer sum -/
theorem sum_pos (a : Expr) (ns : List Nat) (h : ns.sum < 2 ^ 53)
    (ha : eval orc fuel a ctx = .ok (some (.arr (ns.map (fun n => JV.num (.pos n)))))) :
    eval orc (fuel + 1) (.call "sum" [a]) ctx = .ok (some (.num (.pos ns.sum))) := by
  have ha' : eval orc fuel a ctx = .ok (some (.arr ((ns.map Num.pos).map JV.num))) := by
    rw [ha, List.map_map]; rfl
  rw [sum_nums orc fuel ctx a _ ha', ← ofNat_zero, sum_foldl_add_ofNat ns 0 (by omega), Nat.zero_add,
    sum_jnumFinite_ofNat _ h]

/-- the empty list sums to `0` -/
theorem sum_nil (a : Expr) (ha : eval orc fuel a ctx = .ok (some (.arr []))) :
    eval orc (fuel + 1) (.call "sum" [a]) ctx = .ok (some (.num (.pos 0))) :=
  sum_pos orc fuel ctx a [] (by decide) ha

/-- `(sum [x, y])` is `(+ x y)` -/
theorem sum_pair_eq_add (a b c : Expr) (x y : Num)
    (ha : eval orc fuel a ctx = .ok (some (.arr [.num x, .num y])))
    (hb : eval orc fuel b ctx = .ok (some (.num x))) (hc : eval orc fuel c ctx = .ok (some (.num y))) :
    eval orc (fuel + 1) (.call "sum" [a]) ctx = eval orc (fuel + 1) (.call "+" [b, c]) ctx := by
  rw [sum_nums orc fuel ctx a [x, y] ha, add_nums orc fuel ctx b c x y hb hc]
  rfl

theorem sum_wrong_type (a : Expr) (v : Option JV) (hv : isArr v = false) (ha : eval orc fuel a ctx = .ok v) :
    eval orc (fuel + 1) (.call "sum" [a]) ctx = .ok none := by
  lcall_simp [ha]
  rcases v with _ | (_ | _ | _ | _ | _ | _) <;> simp_all [isArr]

/-! ## 7. `indexed`: "each element in the new list is an object with two elements: `index` with the index of the
element in the list, `value` with the element in the original list" -/

theorem indexed_arr (a : Expr) (l : List JV) (ha : eval orc fuel a ctx = .ok (some (.arr l))) :
    eval orc (fuel + 1) (.call "indexed" [a]) ctx =
      .ok (some (.arr (l.zipIdx.map (fun vi => JV.obj [("value".toList, vi.1), ("index".toList, .num (.pos vi.2))])))) := by
  lcall_simp [ha]

/-- as many items as the list -/
theorem size_indexed (a : Expr) (l : List JV) (ha : eval orc fuel a ctx = .ok (some (.arr l))) :
    eval orc (fuel + 2) (.call "size" [.call "indexed" [a]]) ctx = .ok (some (.num (.pos l.length))) := by
  rw [size_arr orc (fuel + 1) ctx _ _ (indexed_arr orc fuel ctx a l ha), List.length_map, List.length_zipIdx]

/-- item `i` of the result is `{value: item i, index: i}` -/
theorem get_indexed (a b : Expr) (l : List JV) (i : Nat)
    (ha : eval orc fuel a ctx = .ok (some (.arr l))) (hb : eval orc (fuel + 1) b ctx = .ok (some (.num (.pos i)))) :
    eval orc (fuel + 2) (.call "get" [.call "indexed" [a], b]) ctx =
      .ok (l[i]?.map (fun v => JV.obj [("value".toList, v), ("index".toList, .num (.pos i))])) := by
  rw [get_arr orc (fuel + 1) ctx _ b _ i (indexed_arr orc fuel ctx a l ha) hb, List.getElem?_map,
    List.getElem?_zipIdx, Nat.zero_add]
  cases l[i]? <;> rfl

/-- taking the `value`s of the result gives the list back -/
theorem indexed_values (l : List JV) :
    (l.zipIdx.map (fun vi => JV.obj [("value".toList, vi.1), ("index".toList, .num (.pos vi.2))])).filterMap
      (fun o => match o with
        | .obj m => objGet? m "value".toList
        | _ => none) = l := by
  rw [List.filterMap_map]
  have : ((fun o => match o with
        | JV.obj m => objGet? m "value".toList
        | _ => none) ∘ fun (vi : JV × Nat) => JV.obj [("value".toList, vi.1), ("index".toList, .num (.pos vi.2))])
      = fun vi => some vi.1 := by
    funext vi; simp [objGet?]
  rw [this, List.filterMap_eq_map', ← List.unzip_fst]
  simp [List.unzip_zipIdx_eq_prod]

theorem indexed_wrong_type (a : Expr) (v : Option JV) (hv : isArr v = false) (ha : eval orc fuel a ctx = .ok v) :
    eval orc (fuel + 1) (.call "indexed" [a]) ctx = .ok none := by
  lcall_simp [ha]
  rcases v with _ | (_ | _ | _ | _ | _ | _) <;> simp_all [isArr]

/-! ## 8. `range`: "Create a new list with items from 0 to the second argument." -/

theorem range_pos (a : Expr) (n : Nat) (ha : eval orc fuel a ctx = .ok (some (.num (.pos n)))) :
    eval orc (fuel + 1) (.call "range" [a]) ctx =
      .ok (some (.arr ((List.range n).map (fun i => JV.num (.pos i))))) := by
  lcall_simp [ha]
  rfl

/-- `n` items -/
theorem size_range (a : Expr) (n : Nat) (ha : eval orc fuel a ctx = .ok (some (.num (.pos n)))) :
    eval orc (fuel + 2) (.call "size" [.call "range" [a]]) ctx = .ok (some (.num (.pos n))) := by
  rw [size_arr orc (fuel + 1) ctx _ _ (range_pos orc fuel ctx a n ha), List.length_map, List.length_range]

/-- item `i` is `i` (for `i < n`; nothing beyond) -/
theorem get_range (a b : Expr) (n i : Nat)
    (ha : eval orc fuel a ctx = .ok (some (.num (.pos n)))) (hb : eval orc (fuel + 1) b ctx = .ok (some (.num (.pos i)))) :
    eval orc (fuel + 2) (.call "get" [.call "range" [a], b]) ctx =
      .ok (if i < n then some (.num (.pos i)) else none) := by
  rw [get_arr orc (fuel + 1) ctx _ b _ i (range_pos orc fuel ctx a n ha) hb, List.getElem?_map]
  by_cases h : i < n
  · rw [List.getElem?_range h, if_pos h]; rfl
  · rw [List.getElem?_eq_none (by simpa using h), if_neg h]; rfl

/-- `(range 0)` is the empty list -/
theorem range_zero (a : Expr) (ha : eval orc fuel a ctx = .ok (some (.num (.pos 0)))) :
    eval orc (fuel + 1) (.call "range" [a]) ctx = .ok (some (.arr [])) := by
  rw [range_pos orc fuel ctx a 0 ha]; rfl

/-- `(range (n+1))` is `(push (range n) n)` -/
theorem range_succ (a : Expr) (n : Nat) (ha : eval orc fuel a ctx = .ok (some (.num (.pos (n + 1))))) :
    eval orc (fuel + 1) (.call "range" [a]) ctx =
      .ok (some (.arr ((List.range n).map (fun i => JV.num (.pos i)) ++ [.num (.pos n)]))) := by
  rw [range_pos orc fuel ctx a (n + 1) ha, List.range_succ, List.map_append]; rfl

/-- "If the second argument is not a positive integer, return nothing": a negative integer, a float, a string,
nothing, … -/
theorem range_bad_count (a : Expr) (w : Option JV) (hw : usizeArg w = none) (ha : eval orc fuel a ctx = .ok w) :
    eval orc (fuel + 1) (.call "range" [a]) ctx = .ok none := by
  lcall_simp [ha]
  simp only [usizeArg, Num.toUsize?] at hw
  simp only [hw]

/-- `indexed (range n)`: value and index agree -/
theorem indexed_range (a : Expr) (n : Nat) (ha : eval orc fuel a ctx = .ok (some (.num (.pos n)))) :
    eval orc (fuel + 2) (.call "indexed" [.call "range" [a]]) ctx =
      .ok (some (.arr ((List.range n).map (fun i =>
        JV.obj [("value".toList, .num (.pos i)), ("index".toList, .num (.pos i))])))) := by
  rw [indexed_arr orc (fuel + 1) ctx _ _ (range_pos orc fuel ctx a n ha)]
  congr 3
  apply List.ext_getElem?
  intro i
  simp only [List.getElem?_map, List.getElem?_zipIdx, Nat.zero_add]
  by_cases h : i < n
  · simp [List.getElem?_range h]
  · simp [List.getElem?_eq_none (show (List.range n).length ≤ i by simpa using h)]

/-! ## 9. `zip`: "Zip a few list into a new list. All the arguments must be lists. The output will be a list of
object, with keys in the format `".i"` where `i` is the index list." -/

/-- any number of lists: as many rows as the longest list has items; row `idx` is `zipRow lists 0 idx` -/
theorem zip_lists (args : List Expr) (lists : List (List JV))
    (hargs : mapM' (fun e => eval orc fuel e ctx) args = .ok (lists.map (fun l => some (JV.arr l)))) :
    eval orc (fuel + 1) (.call "zip" args) ctx =
      .ok (some (.arr ((List.range (lists.foldl (fun m l => max m l.length) 0)).map
        (fun idx => JV.obj (zipRow lists 0 idx))))) := by
  simp only [eval, callFn, skipB_zip]
  simp only [callList, hargs, bind, Except.bind]
  rw [filterMap_arr_all _ (fun _ => rfl)]
  simp only [List.length_map, ne_eq, not_true_eq_false, if_false]
  congr 4
  funext idx
  congr 1
  exact objOfList_distinct_keys _ (zipRow_keys lists 0 idx).1

theorem zip_non_list (args : List Expr) (vs : List (Option JV)) (h : ∃ v ∈ vs, isArr v = false)
    (hargs : mapM' (fun e => eval orc fuel e ctx) args = .ok vs) :
    eval orc (fuel + 1) (.call "zip" args) ctx = .ok none := by
  simp only [eval, callFn, skipB_zip]
  simp only [callList, hargs, bind, Except.bind]
  rw [if_pos]
  apply filterMap_arr_length _ _ vs h
  intro v hv
  rcases v with _ | (_ | _ | _ | _ | _ | _) <;> simp_all [isArr]
theorem zipRow_two (la lb : List JV) (i : Nat) :
    zipRow [la, lb] 0 i =
      (la[i]?.map (fun x => (".0".toList, x))).toList ++ (lb[i]?.map (fun y => (".1".toList, y))).toList := by
  simp only [zipRow, List.zipIdx_cons, List.zipIdx_nil, List.filterMap_cons, List.filterMap_nil, Nat.zero_add]
  rw [dotKey_zero, dotKey_one]
  cases la[i]? <;> cases lb[i]? <;> rfl

theorem mapM'_pair_args (a b : Expr) (x y : Option JV)
    (ha : eval orc fuel a ctx = .ok x) (hb : eval orc fuel b ctx = .ok y) :
    mapM' (fun e => eval orc fuel e ctx) [a, b] = .ok [x, y] := by
  simp only [mapM', ha, hb, bind, Except.bind]

/-- two lists: row `i` has the member `".0"` when the first list has an item `i`, then `".1"` when the second has -/
theorem zip_two (a b : Expr) (la lb : List JV)
    (ha : eval orc fuel a ctx = .ok (some (.arr la))) (hb : eval orc fuel b ctx = .ok (some (.arr lb))) :
    eval orc (fuel + 1) (.call "zip" [a, b]) ctx =
      .ok (some (.arr ((List.range (max la.length lb.length)).map (fun i => JV.obj
        ((la[i]?.map (fun x => (".0".toList, x))).toList ++ (lb[i]?.map (fun y => (".1".toList, y))).toList))))) := by
  rw [zip_lists orc fuel ctx [a, b] [la, lb] (mapM'_pair_args orc fuel ctx a b _ _ ha hb)]
  simp only [List.foldl_cons, List.foldl_nil, foldl_max_two, zipRow_two]

/-- two lists of the same length: the rows are the pairs, in order (`List.zipWith`) -/
theorem zip_two_same_length (a b : Expr) (la lb : List JV) (hlen : la.length = lb.length)
    (ha : eval orc fuel a ctx = .ok (some (.arr la))) (hb : eval orc fuel b ctx = .ok (some (.arr lb))) :
    eval orc (fuel + 1) (.call "zip" [a, b]) ctx =
      .ok (some (.arr (List.zipWith (fun x y => JV.obj [(".0".toList, x), (".1".toList, y)]) la lb))) := by
  rw [zip_two orc fuel ctx a b la lb ha hb]
  congr 3
  apply List.ext_getElem?
  intro i
  simp only [List.getElem?_map, List.getElem?_zipWith]
  by_cases h : i < la.length
  · have h' : i < lb.length := hlen ▸ h
    simp [List.getElem?_range (show i < max la.length lb.length by omega), List.getElem?_eq_getElem h,
      List.getElem?_eq_getElem h']
  · have h' : ¬ i < lb.length := hlen ▸ h
    rw [List.getElem?_eq_none (by simp; omega)]
    simp [List.getElem?_eq_none (show la.length ≤ i by omega)]

/-- the number of rows is the length of the longest list (0 without lists): every list fits, one attains it -/
theorem size_zip (args : List Expr) (lists : List (List JV))
    (hargs : mapM' (fun e => eval orc fuel e ctx) args = .ok (lists.map (fun l => some (JV.arr l)))) :
    ∃ n, eval orc (fuel + 2) (.call "size" [.call "zip" args]) ctx = .ok (some (.num (.pos n))) ∧
      (∀ l ∈ lists, l.length ≤ n) ∧ (n = 0 ∨ ∃ l ∈ lists, l.length = n) := by
  refine ⟨lists.foldl (fun m l => max m l.length) 0, ?_, (foldl_max_length lists 0).2.1, (foldl_max_length lists 0).2.2⟩
  rw [size_arr orc (fuel + 1) ctx _ _ (zip_lists orc fuel ctx args lists hargs), List.length_map, List.length_range]

/-- row `idx` has the member `".k"` exactly when list `k` has an item `idx`, and the member is that item -/
theorem zip_member (args : List Expr) (lists : List (List JV)) (b c : Expr) (idx k : Nat)
    (hidx : idx < lists.foldl (fun m l => max m l.length) 0)
    (hargs : mapM' (fun e => eval orc fuel e ctx) args = .ok (lists.map (fun l => some (JV.arr l))))
    (hb : eval orc (fuel + 1) b ctx = .ok (some (.num (.pos idx))))
    (hc : eval orc (fuel + 2) c ctx = .ok (some (.str (dotKey k)))) :
    eval orc (fuel + 3) (.call "get" [.call "get" [.call "zip" args, b], c]) ctx =
      .ok ((lists[k]?).bind (fun l => l[idx]?)) := by
  have hrow : eval orc (fuel + 2) (.call "get" [.call "zip" args, b]) ctx = .ok (some (.obj (zipRow lists 0 idx))) := by
    rw [get_arr orc (fuel + 1) ctx _ b _ idx (zip_lists orc fuel ctx args lists hargs) hb, List.getElem?_map,
      List.getElem?_range hidx]
    rfl
  rw [get_obj orc (fuel + 2) ctx _ c _ _ hrow hc]
  have := objGet?_zipRow lists 0 idx k
  rw [Nat.zero_add] at this
  rw [this]

/-- the members of a row are in the order of the lists, and no two have the same name -/
theorem zipRow_distinct (lists : List (List JV)) (idx : Nat) : ((zipRow lists 0 idx).map (·.1)).Nodup :=
  (zipRow_keys lists 0 idx).1

/-! ## 10. `cross`: "Join a few list (i.e. Cartesian product) into a new list. All the arguments must be lists.
The output will be a list of object, with keys in the format ".i"." -/

/-- any number of lists: the rows `crossRows lists 0 [[]]` -/
theorem cross_lists (args : List Expr) (lists : List (List JV))
    (hargs : mapM' (fun e => eval orc fuel e ctx) args = .ok (lists.map (fun l => some (JV.arr l)))) :
    eval orc (fuel + 1) (.call "cross" args) ctx = .ok (some (.arr ((crossRows lists 0 [[]]).map JV.obj))) := by
  simp only [eval, callFn, skipB_cross]
  simp only [callList, hargs, bind, Except.bind]
  rw [filterMap_arr_all _ (fun _ => rfl)]
  simp only [List.length_map, ne_eq, not_true_eq_false, if_false]
  rw [cross_foldl _ (fun _ _ _ => rfl) lists 0 [[]] (by simp)]

/-- an argument that is not a list (or is nothing) ⇒ nothing -/
theorem cross_non_list (args : List Expr) (vs : List (Option JV)) (h : ∃ v ∈ vs, isArr v = false)
    (hargs : mapM' (fun e => eval orc fuel e ctx) args = .ok vs) :
    eval orc (fuel + 1) (.call "cross" args) ctx = .ok none := by
  simp only [eval, callFn, skipB_cross]
  simp only [callList, hargs, bind, Except.bind]
  rw [if_pos]
  apply filterMap_arr_length _ _ vs h
  intro v hv
  rcases v with _ | (_ | _ | _ | _ | _ | _) <;> simp_all [isArr]

/-- the number of rows is the product of the lengths of the lists -/
theorem size_cross (args : List Expr) (lists : List (List JV))
    (hargs : mapM' (fun e => eval orc fuel e ctx) args = .ok (lists.map (fun l => some (JV.arr l)))) :
    eval orc (fuel + 2) (.call "size" [.call "cross" args]) ctx =
      .ok (some (.num (.pos (lists.map List.length).prod))) := by
  rw [size_arr orc (fuel + 1) ctx _ _ (cross_lists orc fuel ctx args lists hargs), List.length_map,
    length_crossRows, List.length_singleton, Nat.one_mul]

/-- every row has exactly one member per list, named `".0"`, `".1"`, … in this order -/
theorem cross_row_keys (lists : List (List JV)) :
    ∀ r ∈ crossRows lists 0 [[]], r.map (·.1) = (List.range lists.length).map dotKey := by
  have := crossRows_keys lists 0 [[]] (by simp)
  simpa using this

/-- two lists: the rows exactly, and their ORDER — the second list is the outer loop, the first the inner one:
`(cross [x1, x2] [y1, y2])` is `[{x1,y1}, {x2,y1}, {x1,y2}, {x2,y2}]` -/
theorem cross_two (a b : Expr) (la lb : List JV)
    (ha : eval orc fuel a ctx = .ok (some (.arr la))) (hb : eval orc fuel b ctx = .ok (some (.arr lb))) :
    eval orc (fuel + 1) (.call "cross" [a, b]) ctx =
      .ok (some (.arr (lb.flatMap (fun y => la.map (fun x => JV.obj [(".0".toList, x), (".1".toList, y)]))))) := by
  rw [cross_lists orc fuel ctx [a, b] [la, lb] (mapM'_pair_args orc fuel ctx a b _ _ ha hb), crossRows_two,
    List.map_flatMap]
  simp only [List.map_map, Function.comp_def]

/-- two lists: `la.length * lb.length` rows; row number `j * la.length + i` pairs item `i` of the first list with
item `j` of the second -/
theorem size_cross_two (a b : Expr) (la lb : List JV)
    (ha : eval orc fuel a ctx = .ok (some (.arr la))) (hb : eval orc fuel b ctx = .ok (some (.arr lb))) :
    eval orc (fuel + 2) (.call "size" [.call "cross" [a, b]]) ctx = .ok (some (.num (.pos (la.length * lb.length)))) := by
  rw [size_cross orc fuel ctx [a, b] [la, lb] (mapM'_pair_args orc fuel ctx a b _ _ ha hb)]
  simp [List.prod_cons]

/-- two lists: a row is in the result exactly when it pairs an item of the first list with one of the second -/
theorem cross_two_mem (la lb : List JV) (r : JV) :
    r ∈ lb.flatMap (fun y => la.map (fun x => JV.obj [(".0".toList, x), (".1".toList, y)])) ↔
      ∃ x ∈ la, ∃ y ∈ lb, r = JV.obj [(".0".toList, x), (".1".toList, y)] := by
  simp only [List.mem_flatMap, List.mem_map]
  constructor
  · rintro ⟨y, hy, x, hx, rfl⟩; exact ⟨x, hx, y, hy, rfl⟩
  · rintro ⟨x, hx, y, hy, rfl⟩; exact ⟨y, hy, x, hx, rfl⟩

/-- an empty list among the arguments: no rows -/
theorem cross_two_nil_right (a b : Expr) (la : List JV)
    (ha : eval orc fuel a ctx = .ok (some (.arr la))) (hb : eval orc fuel b ctx = .ok (some (.arr []))) :
    eval orc (fuel + 1) (.call "cross" [a, b]) ctx = .ok (some (.arr [])) := by
  rw [cross_two orc fuel ctx a b la [] ha hb]; rfl

/-! ## 11. `sort` ("If the first argument is a list, return list sorted.") and `sort_unique` ("return list sorted
without duplicates") at the level of `eval`; the properties of the sorted list are those of `Jawk/Lemmas/SortFns.lean` -/

theorem sort_arr (a : Expr) (l : List JV) (ha : eval orc fuel a ctx = .ok (some (.arr l))) :
    eval orc (fuel + 1) (.call "sort" [a]) ctx = .ok (some (.arr (stableSortBy JV.cmp l))) := by
  lcall_simp [ha]

/-- the result of `sort` is a permutation of the list, ascending in the order of values (`JV.cmp`), and stable:
the items that compare equal to any given value keep their original order -/
theorem sort_arr_spec (a : Expr) (l : List JV) (ha : eval orc fuel a ctx = .ok (some (.arr l))) :
    ∃ r, eval orc (fuel + 1) (.call "sort" [a]) ctx = .ok (some (.arr r)) ∧ r.Perm l ∧
      r.Pairwise (fun x y => JV.cmp x y ≠ .gt) ∧
      ∀ k, r.filter (fun x => JV.cmp x k = .eq) = l.filter (fun x => JV.cmp x k = .eq) :=
  ⟨_, sort_arr orc fuel ctx a l ha, SortFns.sort_perm l, SortFns.sort_sorted l, SortFns.sort_stable l⟩

theorem size_sort (a : Expr) (l : List JV) (ha : eval orc fuel a ctx = .ok (some (.arr l))) :
    eval orc (fuel + 2) (.call "size" [.call "sort" [a]]) ctx = .ok (some (.num (.pos l.length))) := by
  rw [size_arr orc (fuel + 1) ctx _ _ (sort_arr orc fuel ctx a l ha), (SortFns.sort_perm l).length_eq]

theorem sort_wrong_type (a : Expr) (v : Option JV) (hv : isArr v = false) (ha : eval orc fuel a ctx = .ok v) :
    eval orc (fuel + 1) (.call "sort" [a]) ctx = .ok none := by
  lcall_simp [ha]
  rcases v with _ | (_ | _ | _ | _ | _ | _) <;> simp_all [isArr]

theorem sort_unique_arr (a : Expr) (l : List JV) (ha : eval orc fuel a ctx = .ok (some (.arr l))) :
    eval orc (fuel + 1) (.call "sort_unique" [a]) ctx = .ok (some (.arr (SortFns.sortUnique l))) := by
  lcall_simp [ha]
  rfl

/-- the result of `sort_unique`: a sub-list of the sorted list (so: only items of the list, ascending), no two
neighbours equal (`==`), and every item of the list is in it or equal (`==`) to one that is -/
theorem sort_unique_arr_spec (a : Expr) (l : List JV) (ha : eval orc fuel a ctx = .ok (some (.arr l))) :
    ∃ r, eval orc (fuel + 1) (.call "sort_unique" [a]) ctx = .ok (some (.arr r)) ∧
      r.Sublist (stableSortBy JV.cmp l) ∧ (∀ x ∈ r, x ∈ l) ∧
      r.Pairwise (fun x y => JV.cmp x y ≠ .gt) ∧
      (∀ x ∈ l, x ∈ r ∨ ∃ y ∈ r, JV.beq y x = true) :=
  ⟨_, sort_unique_arr orc fuel ctx a l ha, SortFns.sort_unique_sublist l, SortFns.sort_unique_subset l,
    SortFns.sort_unique_sorted l, SortFns.sort_unique_cover l⟩

theorem sort_unique_wrong_type (a : Expr) (v : Option JV) (hv : isArr v = false) (ha : eval orc fuel a ctx = .ok v) :
    eval orc (fuel + 1) (.call "sort_unique" [a]) ctx = .ok none := by
  lcall_simp [ha]
  rcases v with _ | (_ | _ | _ | _ | _ | _) <;> simp_all [isArr]

section Examples
private def jn (k : Nat) : JV := .num (.pos k)
private def js (x : String) : JV := .str x.toList
private def strOf : JV → Str
  | .str x => x
  | _ => []

/-! `flat_map` -/
example : eval {} 5 (.call "flat_map" [.const (.arr [.arr [.null, .bool true], .bool false, .arr [], .arr [.null]]),
      .extract 0 []]) {} = .ok (some (.arr [.null, .bool true, .null])) := by
  rw [flat_map_arr {} 4 {} _ _ _ (fun v => some v) rfl (fun _ _ => rfl)]
  rfl
example : eval {} 5 (.call "flat_map" [.const (.arr [.arr [.arr [jn 1], .arr []], .arr [.arr [jn 2]]]), .extract 0 []]) {}
    = .ok (some (.arr [.arr [jn 1], .arr [], .arr [jn 2]])) :=
  flat_map_identity {} 3 {} _ [[.arr [jn 1], .arr []], [.arr [jn 2]]] rfl
/-- the documentation's `(flat_map [1, 2, 3, 4] (.len))`: no arrays, the empty list -/
example : eval {} 5 (.call "flat_map" [.const (.arr [jn 1, jn 2, jn 3, jn 4]), .extract 0 [.key "len".toList]]) {}
    = .ok (some (.arr [])) :=
  flat_map_no_arrays {} 4 {} _ _ _ (fun _ => none) (fun _ _ => rfl) rfl
    (by intro v hv; simp at hv; rcases hv with rfl | rfl | rfl | rfl <;> rfl)
example : eval {} 5 (.call "flat_map" [.const (.obj []), .const (.bool true)]) {} = .ok none :=
  flat_map_wrong_type {} 4 {} _ _ (some (.obj [])) rfl rfl
example : eval {} 5 (.call "flat_map" [.const (.arr [.null]), .call "no-such-function" []]) {}
    = .error (.panic "unmodelled-function:no-such-function") :=
  flat_map_arr_error {} 4 {} _ _ [.null] _ rfl rfl

/-! `fold` -/
/-- `(fold [null, true] false .value)`: the last item -/
example : eval {} 5 (.call "fold" [.const (.arr [.null, .bool true]), .const (.bool false),
      .extract 0 [.key "value".toList]]) {} = .ok (some (.bool true)) := by
  rw [fold_init_foldl_items {} 4 {} _ _ _ [.null, .bool true] (some (.bool false)) (fun _ v => some v) rfl rfl
    (by intro cur v k _; cases cur <;> rfl)]
  rfl
/-- `(fold [null, true] .index)` (no initial value): the last index -/
example : eval {} 5 (.call "fold" [.const (.arr [.null, .bool true]), .extract 0 [.key "index".toList]]) {}
    = .ok (some (jn 1)) := by
  rw [fold_noinit_foldl {} 4 {} _ _ [.null, .bool true] (fun _ _ k => some (jn k)) rfl
    (by intro cur v k _; cases cur <;> rfl)]
  rfl
/-- `so_far` is absent in the first round when there is no initial value, present afterwards -/
example : eval {} 5 (.call "fold" [.const (.arr [js "x", js "y"]), .extract 0 [.key "so_far".toList]]) {} = .ok none := by
  rw [fold_noinit_foldl {} 4 {} _ _ [js "x", js "y"] (fun cur _ _ => cur) rfl (by intro cur v k _; cases cur <;> rfl)]
  rfl
example : eval {} 5 (.call "fold" [.const (.arr []), .const (jn 7), .call "no-such-function" []]) {} = .ok (some (jn 7)) :=
  fold_init_nil {} 4 {} _ _ _ _ rfl rfl
example : eval {} 5 (.call "fold" [.const (.arr []), .call "no-such-function" []]) {} = .ok none :=
  fold_noinit_nil {} 4 {} _ _ rfl
example : eval {} 5 (.call "fold" [.const (.arr [js "x"]), .const (jn 7), .extract 0 [.key "so_far".toList]]) {}
    = .ok (some (jn 7)) := by
  rw [fold_init_singleton {} 4 {} _ _ _ (js "x") (some (jn 7)) rfl rfl]; rfl
example : eval {} 5 (.call "fold" [.const (.obj []), .const (jn 1), .const (jn 2)]) {} = .ok none :=
  fold_init_wrong_type {} 4 {} _ _ _ (some (.obj [])) rfl rfl
example : eval {} 5 (.call "fold" [.var "unset".toList, .const (jn 2)]) {} = .ok none :=
  fold_noinit_wrong_type {} 4 {} _ _ none rfl rfl

/-! `group_by` -/
/-- keys in order of first occurrence, items in original order: `(group_by ["b", "a", "b"] .)` -/
example : eval {} 5 (.call "group_by" [.const (.arr [js "b", js "a", js "b"]), .extract 0 []]) {}
    = .ok (some (.obj [("b".toList, .arr [js "b", js "b"]), ("a".toList, .arr [js "a"])])) := by
  rw [group_by_arr {} 4 {} _ _ [js "b", js "a", js "b"] strOf rfl
    (by intro v hv; simp at hv; rcases hv with rfl | rfl | rfl <;> rfl)]
  rfl
/-- the documentation's `(group_by [...] (len .))`-style case: a key that is not a string gives nothing -/
example : eval {} 5 (.call "group_by" [.const (.arr [js "b", jn 1]), .extract 0 []]) {} = .ok none :=
  group_by_non_string {} 4 {} _ _ [js "b", jn 1] (fun v => some v) ⟨jn 1, by simp, rfl⟩ rfl (fun _ _ => rfl)
example : eval {} 5 (.call "group_by" [.const (jn 344), .extract 0 []]) {} = .ok none :=
  group_by_wrong_type {} 4 {} _ _ (some (jn 344)) rfl rfl
example : eval {} 5 (.call "get" [.call "group_by" [.const (.arr [js "b", js "a", js "b"]), .extract 0 []],
      .const (js "b")]) {} = .ok (some (.arr [js "b", js "b"])) := by
  rw [get_group_by {} 3 {} _ _ _ [js "b", js "a", js "b"] strOf "b".toList rfl
    (by intro v hv; simp at hv; rcases hv with rfl | rfl | rfl <;> rfl) rfl]
  rfl

/-! `all`, `any` -/
example : eval {} 5 (.call "all" [.const (.arr [.bool true, .bool true])]) {} = .ok (some (.bool true)) :=
  all_true {} 4 {} _ [.bool true, .bool true] (by simp) (by intro v hv; simp at hv; rcases hv with rfl | rfl <;> rfl) rfl
example : eval {} 5 (.call "all" [.const (.arr [.bool true, jn 1, .bool true])]) {} = .ok (some (.bool false)) :=
  all_not_true {} 4 {} _ [.bool true, jn 1, .bool true] ⟨jn 1, by simp, by simp [jn]⟩ rfl
example : eval {} 5 (.call "all" [.const (.arr [])]) {} = .ok (some (.bool false)) := all_nil {} 4 {} _ rfl
example : eval {} 5 (.call "all" [.const (.obj [])]) {} = .ok none := all_wrong_type {} 4 {} _ (some (.obj [])) rfl rfl
example : eval {} 5 (.call "any" [.const (.arr [jn 1, jn 2, .bool true, .bool false, jn 4])]) {} = .ok (some (.bool true)) :=
  (any_true_iff {} 4 {} _ [jn 1, jn 2, .bool true, .bool false, jn 4] rfl).2 (by simp)
example : eval {} 5 (.call "any" [.const (.arr [jn 1, .bool false])]) {} = .ok (some (.bool false)) :=
  (any_false_iff {} 4 {} _ [jn 1, .bool false] rfl).2 (by simp [jn])
example : eval {} 5 (.call "any" [.const (.arr [])]) {} = .ok (some (.bool false)) := any_nil {} 4 {} _ rfl
example : eval {} 5 (.call "any" [.const (.obj [])]) {} = .ok none := any_wrong_type {} 4 {} _ (some (.obj [])) rfl rfl

/-! `sum` -/
example : eval {} 5 (.call "sum" [.const (.arr [jn 1, jn 5, jn 100])]) {} = .ok (some (jn 106)) :=
  sum_pos {} 4 {} _ [1, 5, 100] (by decide) rfl
example : eval {} 5 (.call "sum" [.const (.arr [])]) {} = .ok (some (jn 0)) := sum_nil {} 4 {} _ rfl
example : eval {} 5 (.call "sum" [.const (.arr [jn 1, jn 5, js "text"])]) {} = .ok none :=
  sum_non_number {} 4 {} _ [jn 1, jn 5, js "text"] ⟨js "text", by simp, rfl⟩ rfl
example : eval {} 5 (.call "sum" [.const (jn 1)]) {} = .ok none := sum_wrong_type {} 4 {} _ (some (jn 1)) rfl rfl

/-! `indexed`, `range` -/
example : eval {} 5 (.call "indexed" [.const (.arr [.bool false, .null])]) {}
    = .ok (some (.arr [.obj [("value".toList, .bool false), ("index".toList, jn 0)],
        .obj [("value".toList, .null), ("index".toList, jn 1)]])) :=
  indexed_arr {} 4 {} _ [.bool false, .null] rfl
example : eval {} 5 (.call "indexed" [.const (.obj [])]) {} = .ok none :=
  indexed_wrong_type {} 4 {} _ (some (.obj [])) rfl rfl
example : eval {} 5 (.call "range" [.const (jn 4)]) {} = .ok (some (.arr [jn 0, jn 1, jn 2, jn 3])) :=
  range_pos {} 4 {} _ 4 rfl
example : eval {} 5 (.call "range" [.const (.num (.neg (-4)))]) {} = .ok none :=
  range_bad_count {} 4 {} _ (some (.num (.neg (-4)))) rfl rfl
example : eval {} 5 (.call "range" [.const (.arr [jn 1])]) {} = .ok none :=
  range_bad_count {} 4 {} _ (some (.arr [jn 1])) rfl rfl
example : eval {} 5 (.call "get" [.call "range" [.const (jn 4)], .const (jn 3)]) {} = .ok (some (jn 3)) :=
  get_range {} 3 {} _ _ 4 3 rfl rfl
example : eval {} 5 (.call "size" [.call "range" [.const (jn 1000)]]) {} = .ok (some (jn 1000)) :=
  size_range {} 3 {} _ 1000 rfl

/-! `zip`, `cross` -/
example : eval {} 5 (.call "zip" [.const (.arr [js "one", js "two"]), .const (.arr [jn 1, jn 2])]) {}
    = .ok (some (.arr [.obj [(".0".toList, js "one"), (".1".toList, jn 1)],
        .obj [(".0".toList, js "two"), (".1".toList, jn 2)]])) :=
  zip_two_same_length {} 4 {} _ _ [js "one", js "two"] [jn 1, jn 2] rfl rfl rfl
/-- a shorter list: its member is missing from the later rows -/
example : eval {} 5 (.call "zip" [.const (.arr [js "one", js "two"]), .const (.arr [jn 1])]) {}
    = .ok (some (.arr [.obj [(".0".toList, js "one"), (".1".toList, jn 1)], .obj [(".0".toList, js "two")]])) :=
  zip_two {} 4 {} _ _ [js "one", js "two"] [jn 1] rfl rfl
/-- three lists (the documentation's second example, shortened) -/
example : eval {} 5 (.call "zip" [.const (.arr [js "one", js "two"]), .const (.arr [jn 1, jn 2]), .const (.arr [.bool false])]) {}
    = .ok (some (.arr [.obj [(".0".toList, js "one"), (".1".toList, jn 1), (".2".toList, .bool false)],
        .obj [(".0".toList, js "two"), (".1".toList, jn 2)]])) := by
  rw [zip_lists {} 4 {} _ [[js "one", js "two"], [jn 1, jn 2], [.bool false]] rfl]
  rfl
example : eval {} 5 (.call "zip" [.const (.arr [js "one"]), .const (.arr [jn 1]), .const (jn 6)]) {} = .ok none :=
  zip_non_list {} 4 {} _ [some (.arr [js "one"]), some (.arr [jn 1]), some (jn 6)] ⟨some (jn 6), by simp, rfl⟩ rfl
/-- the order of the rows of `cross`: the first list varies fastest -/
example : eval {} 5 (.call "cross" [.const (.arr [js "one", js "two"]), .const (.arr [jn 1, jn 2])]) {}
    = .ok (some (.arr [.obj [(".0".toList, js "one"), (".1".toList, jn 1)],
        .obj [(".0".toList, js "two"), (".1".toList, jn 1)],
        .obj [(".0".toList, js "one"), (".1".toList, jn 2)],
        .obj [(".0".toList, js "two"), (".1".toList, jn 2)]])) :=
  cross_two {} 4 {} _ _ [js "one", js "two"] [jn 1, jn 2] rfl rfl
example : eval {} 5 (.call "size" [.call "cross" [.const (.arr [js "one", js "two"]), .const (.arr [jn 1, jn 2, jn 3]),
      .const (.arr [.bool true, .bool false])]]) {} = .ok (some (jn 12)) :=
  size_cross {} 3 {} _ [[js "one", js "two"], [jn 1, jn 2, jn 3], [.bool true, .bool false]] rfl
example : eval {} 5 (.call "cross" [.const (.arr [js "one"]), .const (.arr [jn 1]), .const (jn 6)]) {} = .ok none :=
  cross_non_list {} 4 {} _ [some (.arr [js "one"]), some (.arr [jn 1]), some (jn 6)] ⟨some (jn 6), by simp, rfl⟩ rfl
example : objGet? (zipRow [[js "a"], [], [js "c"]] 0 0) (dotKey 2) = some (js "c") := by
  rw [← Nat.zero_add 2, objGet?_zipRow]; rfl

/-! `sort`, `sort_unique` -/
example : eval {} 5 (.call "sort" [.const (jn 344)]) {} = .ok none := sort_wrong_type {} 4 {} _ (some (jn 344)) rfl rfl
example : ∃ r, eval {} 5 (.call "sort" [.const (.arr [jn 2, jn 1])]) {} = .ok (some (.arr r)) ∧ r.Perm [jn 2, jn 1] :=
  let ⟨r, h, hp, _⟩ := sort_arr_spec {} 4 {} _ [jn 2, jn 1] rfl
  ⟨r, h, hp⟩
example : eval {} 5 (.call "sort_unique" [.const (jn 344)]) {} = .ok none :=
  sort_unique_wrong_type {} 4 {} _ (some (jn 344)) rfl rfl
end Examples

/-
  Axiom audit (`#print axioms` on every theorem of this file, 2026-09-29): all ⊆ {propext, Classical.choice, Quot.sound}.
-/

end Jawk.EvalLaws
